"""C16 — peak and background models satisfy their analytic definitions.

Spec: spec/peaks/PeakModelsDefs.tla (names, routing, polynomial, Lorentzian, units), PeakModels.tla (state
machines names / horner / lorentz / units with negative controls), Gen_PeakModels.tla (enumeration of the
cases replayed), Trace_PeakModels.tla (judge of the recorded observations).

Decided by TLC on the model (exhaustive within the bounds): the parameter-name algebra for every model
expression over all prefix strings of a 3-letter alphabet (including the empty prefix and prefixes that are
prefixes of / equal to parameter names): names are prefix + base, injective; a composite's parameters are the
disjoint union of its parts', overlapping parts are refused and leave the expression unchanged; a call is
accepted iff the keys are exactly the names (missing / unknown / otherwise-prefixed / unprefixed refused);
stripping the prefix by length routes every supplied value to exactly the leaf parameter it is declared
for; a prefix is a pure renaming.  Horner evaluation = sum a_i x^i over the integers.  The Lorentzian as
an exact rational multiple of 1/pi: symmetric, half of the peak value exactly at loc +/- FWHM/2 with
FWHM = 2*scale, strictly decreasing (so that this is the full width), sign of the amplitude; the Gaussian
part in units of its half width is 2^(-t^2).  Unit algebra: canonical parameter units give the data unit,
one parameter in another unit is refused or changes the result unit.

Decided numerically only (DESIGN §6): point values, symmetry, half maximum and normalisation of
Gaussian / Lorentzian / pseudo-Voigt.  The closed forms of harness/lib_peaks.py (written from the model
docstrings) are evaluated by mpmath (60 digits) at the TLC-enumerated parameter grid (amplitudes of both
signs, scales 1e-6..1e6, locations, fractions 0..1) and compared with the floats the real models return;
the integral is a 24-point Gauss-Legendre quadrature of the *implementation's* values over
loc +/- 2^20 scale on geometrically growing panels plus the analytic Lorentzian tail.  Tolerances:
point values 1e-13 relative (plus (4q+16) eps for Gaussian exponents q, the conditioning of exp); symmetry
4 eps at exactly representable mirror points; half maximum 1e-13 + conditioning of the rounding of
loc +/- FWHM/2; integral 1e-8 |amplitude| (plus the same conditioning term).  The boolean outcomes go
into `flags` events.  The pseudo-Voigt's FWHM is exact by construction (the Gaussian part is rescaled to
the Lorentzian's FWHM, docstring), so the half-maximum claim is checked at full strength for it too.

Conformance: spec -> code: every enumerated model expression (sampled in the quick tier) is built in the
real library along two routes (left + right then with_prefix, or CompositeModel(prefix=...)), its
param_names, the acceptance of the probe key sets, guess() / param_bounds keys are recorded; composites are
compared bitwise with left + right and numerically with the declared routing, prefixed models bitwise with
the unprefixed ones; integer polynomials of degree 1..6 are evaluated with int64 and float64 data and
compared exactly; the canonical unit cases and random perturbations are evaluated.  code -> spec: random
deeper expressions (up to 5 leaves, arbitrary prefix strings incl. non-ASCII).  TLC (Trace_PeakModels)
judges every event.  Any exception counts as refusal (the property names no class).

Hardening round (HARDENING.md items 1-4, 6, 7, 9-11).  The spec grew by: evaluation variants
(PeakModelsDefs.EvalVariants: element type of x and of the parameters, layout of x, order of the keyword
arguments - TLC enumerates all 360, the driver attaches them in turn to polynomials and grid points), the
state machines `typed` (typed Horner: never refused, nothing narrowed; negative control "in_place_types") and
`reuse` (the caller's objects evaluated again: arguments unchanged, repeatable; negative control
"scale_in_place"), the extreme part of the parameter grid (amplitudes 1e-100..1e100, locations 1e-9..1e9,
fractions 2^-30 inside [0, 1]) and the `replay` event.  The driver additionally: lists keyword arguments in
shuffled order; evaluates polynomials and peak models with integer / float32 / mixed operands, scalar, strided,
2-d and transposed x (closed form at the values actually handed over; tolerance (4q+16) eps of the narrowest
floating-point operand); checks after every evaluation that x and the parameter objects are bit-identical to
what was handed over, that a second evaluation with the same objects returns the same bits and that an earlier
result keeps its values when the model is evaluated again with other parameters; re-runs a sample of all
kinds of cases at the end in another order and hands both observations to TLC (`replay`).  A non-finite value
returned by a model is a verdict (`polynomial_value_is_not_finite`, point-value flags), never a crash.
Interpretation (lead decision, weakest reading as for C07): the quantifier says nothing about element types, so a
scipp DTypeError raised for a call with at least one integer-typed operand is an accepted outcome ("unsupported
element types", counted in the evidence as integer_operands_refused_with_DTypeError); everything a model DOES
return for integer operands is judged, and any other exception or a refusal of all-floating-point operands is a
violation.  Polynomial variants give every floating-point coefficient a half-integer value (events carry twice the
coefficients and twice the values, still exact integers) so that a truncated coefficient shows.
"""

from __future__ import annotations

import json
import math
import os
import random
from fractions import Fraction

import mpmath
import numpy as np
import scipp as sc

from .. import lib_peaks as lp
from ..core import MachineryError
from ..tlc import require_ok, write_ndjson

RULE = ('model expressions: leaves x prefixes over {a,0,_} up to length 2, composites of two leaves (enumerated by '
        'TLC) and random expressions up to 5 leaves with arbitrary prefixes; non-trivial = composite or non-empty '
        'prefix. numeric grid: amplitudes {-3,-1,2,7} x scales 10^-6..10^6 x locations {-5,0,3,1000} x fractions k/4; '
        'every grid point is non-trivial; extreme part: amplitudes 10^(+-12, +-100), locations 3e-9 / -5e6 / 1e9, fractions '
        '2^-30 inside [0, 1]. polynomials: integer coefficients/points, degree 1..6. evaluation variants (element types '
        'of x / parameters, layout of x, keyword order): all 360 enumerated by TLC, attached in turn; every variant '
        'case is non-trivial')
WORKERS = int(os.environ.get('VERIF_WORKERS', '16'))
EPS = 2.0 ** -52
KIND_CLASS = {'poly': 'PolynomialModel', 'gauss': 'GaussianModel', 'lorentz': 'LorentzianModel',
              'pvoigt': 'PseudoVoigtModel'}
KIND_LP = {'gauss': 'gaussian', 'lorentz': 'lorentzian', 'pvoigt': 'pseudo_voigt'}
BASE = {'gauss': ('amplitude', 'loc', 'scale'), 'lorentz': ('amplitude', 'loc', 'scale'),
        'pvoigt': ('amplitude', 'loc', 'scale', 'fraction')}

EPS32 = 2.0 ** -23
BASE_VARIANT = {'xd': 'float64', 'pd': 'float64', 'layout': '1d', 'order': 'declared'}
INT_LIMIT = {'int32': 2**31 - 1, 'int64': 2**62}


def is_int_type(d):
    return d in ('int32', 'int64')


def typed_scalar(value, want, unit, *, exact):
    """Scalar of element type `want` holding `value`: -> (variable, element type used, value actually held).
    Falls back to float64 where `want` cannot hold the value (non-integer or out of range for an integer type;
    for float32: out of the normal range, or - if `exact` - not representable)."""
    v = float(value)
    if is_int_type(want):
        if v.is_integer() and abs(v) <= INT_LIMIT[want]:
            return sc.scalar(int(v), dtype=want, unit=unit), want, v
        want = 'float64'
    if want == 'float32':
        with np.errstate(all='ignore'):
            v32 = float(np.float32(v))
        if math.isfinite(v32) and (v32 == v or not exact) and (v == 0.0 or 1e-30 < abs(v32) < 1e30):
            return sc.scalar(v32, dtype='float32', unit=unit), 'float32', v32
        want = 'float64'
    return sc.scalar(v, dtype='float64', unit=unit), 'float64', v


def typed_values(values, want, *, exact):
    """numpy array of element type `want` holding `values` (same fallback rule, for the whole array)."""
    v = np.asarray(values, dtype='float64')
    if is_int_type(want):
        if np.all(np.isfinite(v)) and np.all(v == np.round(v)) and np.all(np.abs(v) <= INT_LIMIT[want]):
            return v.astype(want), want
        want = 'float64'
    if want == 'float32':
        with np.errstate(all='ignore'):
            v32 = v.astype('float32')
        ok = np.all(np.isfinite(v32)) and np.all((v == 0.0) | ((np.abs(v32) > 1e-30) & (np.abs(v32) < 1e30)))
        if ok and (not exact or np.array_equal(v32.astype('float64'), v)):
            return v32, 'float32'
    return v, 'float64'


def lay_out(vals, layout, unit):
    """The values `vals` (1-d numpy array of the final element type) as x in the given layout:
    -> (list of x variables to evaluate, function: list of results -> flat numpy array in the order of vals)."""
    n = len(vals)
    if layout == '0d':
        k = min(n, 4)
        xs = [sc.scalar(vals[i], dtype=vals.dtype, unit=unit) for i in range(k)]
        return xs, lambda rs: np.array([r.value for r in rs])
    if layout == 'strided':
        big = np.full(3 * n, 7, dtype=vals.dtype)
        big[::3] = vals
        x = sc.array(dims=['x'], values=big, unit=unit)['x', ::3]
        return [x], lambda rs: np.asarray(rs[0].values).reshape(-1)[:n]
    if layout in ('2d', '2dT'):
        pad = (-n) % 3
        full = np.concatenate([vals, vals[:pad]]) if pad else vals
        a = full.reshape(-1, 3)
        if layout == '2d':
            x = sc.array(dims=['r', 'c'], values=a, unit=unit)
        else:
            x = sc.array(dims=['c', 'r'], values=np.ascontiguousarray(a.T), unit=unit).transpose(['r', 'c'])
        return [x], lambda rs: np.asarray(rs[0].transpose(['r', 'c']).values).reshape(-1)[:n]
    x = sc.array(dims=['x'], values=vals, unit=unit)
    return [x], lambda rs: np.asarray(rs[0].values).reshape(-1)[:n]


def ordered(d, order, rng=None):
    """The same keyword arguments listed in another order."""
    keys = list(d)
    if order == 'reversed':
        keys = keys[::-1]
    elif order == 'rotated':
        keys = keys[1:] + keys[:1]
    elif order == 'shuffled':
        rng.shuffle(keys)
    return {k: d[k] for k in keys}


def bits(v):
    """Everything observable of a variable, bit for bit (-0.0 != 0.0, NaN payloads count)."""
    return (str(v.dtype), str(v.unit), tuple(v.dims), tuple(v.shape), np.ascontiguousarray(v.values).tobytes())


def snapshot(objs):
    return [bits(o) for o in objs]


# --------------------------------------------------------------------------------- letters <-> strings
def tok(ch: str) -> str:
    return ch if (33 <= ord(ch) < 127 and ch not in '"\\') else f'U+{ord(ch):X}'


def toks(s: str):
    return [tok(c) for c in s]


def untok(seq) -> str:
    return ''.join(chr(int(t[2:], 16)) if t.startswith('U+') and len(t) > 2 else t for t in seq)


# --------------------------------------------------------------------------------- expressions
def leaf_base(e):
    if e['kind'] == 'poly':
        return [f'a{i}' for i in range(e['deg'] + 1)]
    return list(BASE[e['kind']])


def names_of(e):
    """Input construction only (the verdict about names comes from Trace_PeakModels)."""
    p = untok(e['prefix'])
    if e['kind'] == 'comp':
        return [p + n for n in names_of(e['left']) + names_of(e['right'])]
    return [p + n for n in leaf_base(e)]


def leaves_of(e, path=''):
    """[(leaf expr, full prefix)] left to right: declared routing."""
    p = path + untok(e['prefix'])
    if e['kind'] == 'comp':
        return leaves_of(e['left'], p) + leaves_of(e['right'], p)
    return [(e, p)]


def build(e, route=0):
    """Real model for an expression; raises whatever the library raises."""
    from scippneutron.peaks import model as M

    p = untok(e['prefix'])
    if e['kind'] == 'comp':
        left, right = build(e['left'], route), build(e['right'], route)
        if route % 2 == 0:
            m = left + right
            return m.with_prefix(p) if (p or route % 4 == 2) else m
        return M.CompositeModel(left, right, prefix=p)
    if e['kind'] == 'poly':
        if route % 2:
            return M.PolynomialModel(degree=e['deg']).with_prefix(p)
        return M.PolynomialModel(degree=e['deg'], prefix=p)
    cls = getattr(M, KIND_CLASS[e['kind']])
    return cls().with_prefix(p) if route % 2 else cls(prefix=p)


def param_values(e, rng):
    """Distinct, well-conditioned dimensionless parameter values for every declared key."""
    vals = {}
    for leaf, pre in leaves_of(e):
        if leaf['kind'] == 'poly':
            for i in range(leaf['deg'] + 1):
                vals[pre + f'a{i}'] = rng.choice([-1, 1]) * rng.randrange(1, 64) / 8.0
        else:
            vals[pre + 'amplitude'] = rng.choice([-1, 1]) * rng.randrange(1, 64) / 4.0
            vals[pre + 'loc'] = rng.randrange(-16, 16) / 4.0
            vals[pre + 'scale'] = rng.randrange(1, 32) / 8.0
            if leaf['kind'] == 'pvoigt':
                vals[pre + 'fraction'] = rng.randrange(0, 9) / 8.0
    return vals


def declared_value(e, vals, x):
    out = np.zeros_like(x)
    for leaf, pre in leaves_of(e):
        if leaf['kind'] == 'poly':
            out = out + lp.np_poly(x, [vals[pre + f'a{i}'] for i in range(leaf['deg'] + 1)])
        else:
            out = out + lp.np_peak(KIND_LP[leaf['kind']], x, {b: vals[pre + b] for b in BASE[leaf['kind']]})
    return out


def _scal(d):
    return {k: sc.scalar(float(v)) for k, v in d.items()}


X0 = sc.array(dims=['x'], values=np.array([-2.0, -0.75, 0.0, 0.5, 1.25, 3.0]))
_X0_BITS = bits(X0)
_X0_VALUES = tuple(X0.values)


def x_for(idx):
    """x of the routing checks: mostly the 1-d X0, every sixth case a transposed 2-d view / a scalar."""
    if idx % 6 == 4:
        return sc.array(dims=['c', 'r'], values=np.ascontiguousarray(X0.values.reshape(2, 3).T)).transpose(['r', 'c'])
    if idx % 6 == 5:
        return sc.scalar(float(X0.values[idx % 5]))
    return X0


# --------------------------------------------------------------------------------- name / call events
def model_events(ctx, events, e, idx, probes='all', rng=None):
    """Build the real model for expression e, record names / call / aux / equality observations."""
    rng = rng or ctx.rng
    ev = {'ev': 'names', 'tid': 0, 'model': e, 'out': 'ok', 'names': []}
    try:
        m = build(e, idx)
    except Exception as exc:  # noqa: BLE001
        ev['out'] = 'refused'
        ev['exc'] = type(exc).__name__
        events.append(ev)
        ctx.case(nontrivial_id=('n', json.dumps(e)))
        return None
    try:
        ev['names'] = [toks(n) for n in sorted(m.param_names)]
    except Exception as exc:  # noqa: BLE001
        ctx.violation(f'param_names raised {type(exc).__name__}', {'model': e})
        return None
    events.append(ev)
    ctx.case(nontrivial_id=('n', json.dumps(e)) if (e['kind'] == 'comp' or e['prefix']) else None)
    want = names_of(e)
    if len(set(want)) != len(want):
        return m          # overlapping names: the names event is judged (must have been refused); nothing else to do
    vals = param_values(e, rng)
    base = [n[len(untok(e['prefix'])):] for n in want]
    key_sets = [list(want)]
    if probes != 'exact':
        k = rng.randrange(len(want))
        key_sets.append(want[:k] + want[k + 1:])                                    # one missing
        key_sets.append(want + [rng.choice(['x', 'a', 'a7', 'loc_', 'amplitud', 'Scale'])])   # one unknown
        key_sets.append(base)                                                       # unprefixed
        key_sets.append([rng.choice(['a', '0', '_', 'a0', 'p_', 'q']) + b for b in base])   # other prefix
        key_sets.append([want[0] + 'x'] + want[1:])                                 # one renamed
        if probes == 'all':
            key_sets.append([])
            key_sets.append(want[:1])
            key_sets.append([b + untok(e['prefix']) for b in base])                 # prefix used as a suffix
    xv = x_for(idx)
    for ks in key_sets:
        if len(set(ks)) != len(ks):
            continue
        # the keyword arguments are listed in an arbitrary order (the API names no order)
        args = ordered({k: sc.scalar(float(vals.get(k, 1.0))) for k in ks}, 'shuffled', rng)
        cev = {'ev': 'call', 'tid': 0, 'model': e, 'keys': [toks(k) for k in ks], 'out': 'ok'}
        try:
            before = snapshot([xv, *args.values()])
            res = m(xv, **args)
            if ks == want:
                got = np.array(res.values, copy=True)
                got_bits = bits(res)
                fl = [['value_is_not_finite', bool(np.all(np.isfinite(got)))]]
                ref = declared_value(e, vals, np.asarray(xv.values))
                scale = sum(abs(v) for v in vals.values()) + 1.0
                fl.append(['value_is_not_the_sum_of_the_parts_with_declared_routing',
                           bool(np.all(np.abs(got - ref) <= 1e-12 * (np.abs(ref) + scale)))])
                if e['kind'] == 'comp':
                    left, right = build(e['left'], idx), build(e['right'], idx)
                    p = untok(e['prefix'])
                    la = {n: args[p + n] for n in names_of(e['left'])}
                    ra = {n: args[p + n] for n in names_of(e['right'])}
                    parts = left(xv, **la) + right(xv, **ra)
                    fl.append(['composite_is_not_bitwise_left_plus_right', bool(np.array_equal(parts.values, got)
                                                                                and parts.unit == res.unit)])
                # prefix independence: same model under other prefixes, same values under renamed keys
                for q in ('', 'a', 'a0_', 'é '):
                    m2 = m.with_prefix(q)
                    r2 = m2(xv, **ordered({q + b: args[w] for b, w in zip(base, want, strict=True)}, 'shuffled', rng))
                    fl.append(['result_depends_on_prefix', bool(np.array_equal(r2.values, got) and r2.unit == res.unit)])
                    if not sorted(m2.param_names) == sorted(q + b for b in base):
                        fl.append(['with_prefix_names_differ', False])
                fl.append(['with_prefix_changed_the_original', bool(sorted(m.param_names) == sorted(want))])
                # second use: the objects handed over are what they were; evaluating them again gives the same
                # bits; the first result still holds its values after an evaluation with other parameters
                fl.append(['evaluation_modified_its_arguments', snapshot([xv, *args.values()]) == before])
                again = m(xv, **ordered(args, 'reversed'))
                fl.append(['second_evaluation_with_the_same_objects_differs', bits(again) == got_bits])
                vals2 = param_values(e, random.Random(idx))
                m(xv, **{k: sc.scalar(float(vals2[k])) for k in args})
                fl.append(['earlier_result_changed_by_a_later_evaluation', bits(res) == got_bits])
                events.append({'ev': 'flags', 'tid': 0, 'what': 'routing', 'model': e, 'out': 'ok', 'flags': fl,
                               'types': []})
                ctx.case()
        except Exception as exc:  # noqa: BLE001
            cev['out'] = 'refused'
            cev['exc'] = type(exc).__name__
        events.append(cev)
        ctx.case()
    if bits(X0) != _X0_BITS:
        X0.values = np.array(_X0_VALUES)      # (the modification itself was flagged above) keep later cases meaningful
    return m


def aux_event(ctx, events, e, m, data):
    """guess() and param_bounds: keys are the parameter names; values do not depend on the prefix."""
    p = untok(e['prefix'])
    ev = {'ev': 'aux', 'tid': 0, 'model': e, 'guess_keys': [], 'bounds_keys': [], 'guess_same': True,
          'bounds_same': True}
    try:
        g = m.guess(data)
        b = m.param_bounds
        m0 = m.with_prefix('')
        g0 = m0.guess(data)
        b0 = m0.param_bounds
    except Exception as exc:  # noqa: BLE001
        ctx.violation(f'guess/param_bounds raised {type(exc).__name__}', {'model': e, 'exc': repr(exc)[:200]})
        return
    try:
        ev['guess_keys'] = [toks(k) for k in sorted(g)]
        ev['bounds_keys'] = [toks(k) for k in sorted(b)]
        ev['guess_same'] = bool(set(g) == {p + k for k in g0} and all(sc.identical(g[p + k], v, equal_nan=True)
                                                                       for k, v in g0.items() if p + k in g))
        ev['bounds_same'] = bool(set(b) == {p + k for k in b0} and all(tuple(b[p + k]) == tuple(v) for k, v in b0.items()
                                                                        if p + k in b))
    except Exception as exc:  # noqa: BLE001   (a guess / bounds object that cannot even be read)
        ctx.violation(f'guess/param_bounds returned a malformed object ({type(exc).__name__})', {'model': e})
        return
    events.append(ev)
    ctx.case()


# --------------------------------------------------------------------------------- polynomials
def coefficient_types(pd, n):
    """Element type wanted for a_0 .. a_{n-1} under the typing `pd` (PeakModelsDefs.Typings)."""
    if pd == 'int_leading':
        return ['float64'] * (n - 1) + ['int64']
    if pd == 'float_leading':
        return ['int64'] * (n - 1) + ['float64']
    if pd == 'int_loc':                       # for a polynomial: only the constant term integer-typed
        return ['int64'] + ['float64'] * (n - 1)
    return [pd] * n


def poly_case(ctx, events, coefs, k, variant):
    """One integer polynomial evaluated in one variant; all values are integers that every element type used
    holds exactly (|value| < 2^22), so TLC compares them with sum a_i x^i exactly."""
    from scippneutron.peaks.model import PolynomialModel

    deg = len(coefs) - 1
    prefix = ('', 'a', 'bkg_', 'a0')[k % 4]
    xs = list(range(-8, 9))
    xvals, xd = typed_values(xs, variant['xd'], exact=True)
    # in a variant every floating-point coefficient is c + 1/2 (a coefficient truncated into an integer buffer
    # shows); the event carries den * coefficients and den * values, exact integers for TLC (the polynomial is
    # linear in its coefficients)
    den = 2 if variant != {**BASE_VARIANT, 'xd': variant['xd'], 'pd': variant['xd']} or variant['xd'] not in ('int64', 'float64') else 1
    params, cds, nums = {}, [], []
    for i, (c, want) in enumerate(zip(coefs, coefficient_types(variant['pd'], deg + 1), strict=True)):
        half = 0.5 if (den == 2 and not is_int_type(want)) else 0.0
        v, d, actual = typed_scalar(c + half, want, sc.Unit('K') / sc.Unit('m') ** i, exact=True)
        params[f'{prefix}a{i}'] = v
        cds.append(d)
        nums.append(int(round(den * actual)))
    other = {name: typed_scalar(float(v.value) + 1, str(v.dtype), v.unit, exact=True)[0] for name, v in params.items()}
    params = ordered(params, variant['order'])
    xlist, flat = lay_out(xvals, variant['layout'], 'm')
    n = min(len(xs), 4) if variant['layout'] == '0d' else len(xs)
    ev = {'ev': 'poly', 'tid': 0, 'coefs': nums, 'den': den, 'xs': xs[:n], 'got': [], 'out': 'ok', 'xd': xd, 'cds': cds,
          'layout': variant['layout'], 'order': variant['order'], 'prefix': prefix, 'args_same': True,
          'again_same': True, 'kept': True}
    try:
        m = PolynomialModel(degree=deg, prefix=prefix)
        before = snapshot([*xlist, *params.values()])
        rs = [m(x, **params) for x in xlist]
        first = [bits(r) for r in rs]
        vals = [den * float(v) for v in flat(rs)]
        if len(vals) != n:
            ev['out'] = 'shape'
        elif not all(math.isfinite(v) for v in vals):
            ev['out'] = 'nonfinite'
            ev['values'] = [repr(v) for v in vals]
        elif not all(v.is_integer() and abs(v) < 2**31 for v in vals):
            ev['out'] = 'not_integer'
            ev['values'] = vals
        else:
            ev['got'] = [int(v) for v in vals]
        if any(r.unit != sc.Unit('K') for r in rs):
            ctx.violation('polynomial: result unit is not the unit of a0', {'coefs': coefs, 'unit': str(rs[0].unit)})
        ev['args_same'] = bool(snapshot([*xlist, *params.values()]) == before)
        ev['again_same'] = bool([bits(r) for r in [m(x, **params) for x in xlist]] == first)
        for x in xlist:
            m(x, **other)
        ev['kept'] = bool([bits(r) for r in rs] == first)
    except Exception as exc:  # noqa: BLE001
        ev['out'] = 'refused'
        ev['exc'] = type(exc).__name__
        ev['exc_detail'] = repr(exc)[:200]
    events.append(ev)
    ctx.case(nontrivial_id=('p', tuple(coefs), xd, tuple(cds), variant['layout'], variant['order']))


def poly_vectors(ctx):
    import itertools

    rng = ctx.rng
    vectors = []
    for deg in (1, 2):
        vectors += [list(c) for c in itertools.product(range(-2, 3), repeat=deg + 1)]
    for deg in range(1, 7):
        for _ in range(60 if ctx.thorough else 15):
            vectors.append([rng.randrange(-9, 10) for _ in range(deg + 1)])
        vectors.append([9] * (deg + 1))
        vectors.append([-9 if i % 2 else 9 for i in range(deg + 1)])
    return vectors


# --------------------------------------------------------------------------------- units
def U(t):
    p, i, j = t
    u = sc.Unit('m') ** i * sc.Unit('s') ** j
    if p:
        u = u * sc.Unit(f'1e{p}')
    return u


def unit_to_triple(u):
    """scipp unit -> (p, i, j) by trial over the small range used here; None if not of that form."""
    for p in range(-12, 7):
        for i in range(-6, 7):
            for j in range(-6, 7):
                if u == U((p, i, j)):
                    return [p, i, j]
    return None


_UNIT_CACHE: dict = {}


def unit_triple_cached(u):
    key = repr(u)
    if key not in _UNIT_CACHE:
        _UNIT_CACHE[key] = unit_to_triple(u)
    return _UNIT_CACHE[key]


def unit_event(ctx, events, kind, pu, ux, idx):
    from scippneutron.peaks import model as M

    prefix = ('', 'u_', 'a')[idx % 3]
    if kind.startswith('poly'):
        deg = int(kind[4:])
        m = M.PolynomialModel(degree=deg, prefix=prefix)
        names = [f'a{i}' for i in range(deg + 1)]
        vals = [1.5, -0.5, 0.25, 2.0, 1.0, -1.0, 0.5][: deg + 1]
    else:
        m = getattr(M, KIND_CLASS[kind])(prefix=prefix)
        names = list(BASE[kind])
        vals = [2.0, 0.5, 1.25, 0.5][: len(names)]
    x = sc.array(dims=['x'], values=[0.0, 1.0, 2.5], unit=U(ux))
    params = {prefix + n: sc.scalar(v, unit=U(u)) for n, v, u in zip(names, vals, pu, strict=True)}
    ev = {'ev': 'unit', 'tid': 0, 'kind': kind, 'pu': [list(u) for u in pu], 'ux': list(ux), 'out': [0, 0, 0, 0],
          'idx': idx}
    try:
        res = m(x, **params)
        t = unit_triple_cached(res.unit)
        if t is None:
            ev['out'] = [1, 99, 99, 99]
            ev['unit'] = str(res.unit)
        else:
            ev['out'] = [1, *t]
    except Exception as exc:  # noqa: BLE001
        ev['exc'] = type(exc).__name__
    events.append(ev)
    return ev


def units_part(ctx, events, ucases):
    rng = ctx.rng
    if not ctx.thorough:
        ucases = rng.sample(ucases, 500)
    for k, c in enumerate(ucases):
        unit_event(ctx, events, c['kind'], [tuple(u) for u in c['pu']], tuple(c['ux']), k)
        ctx.case(nontrivial_id=('u', k))
    # perturbed and random assignments (code -> spec)
    kinds = ['poly1', 'poly2', 'poly3', 'poly4', 'poly5', 'poly6', 'gauss', 'lorentz', 'pvoigt']
    npar = {'gauss': 3, 'lorentz': 3, 'pvoigt': 4}

    def ru():
        return (rng.choice([0, 0, -3]), rng.randrange(-1, 2), rng.randrange(-1, 2))

    for k in range(4000 if ctx.thorough else 700):
        kind = rng.choice(kinds)
        n = npar.get(kind) or int(kind[4:]) + 1
        ux, uy = ru(), ru()
        # start from the canonical assignment, perturb 0..2 parameters
        if kind.startswith('poly'):
            pu = [(uy[0] - i * ux[0], uy[1] - i * ux[1], uy[2] - i * ux[2]) for i in range(n)]
        else:
            pu = [(uy[0] + ux[0], uy[1] + ux[1], uy[2] + ux[2]), ux, ux] + ([(0, 0, 0)] if n == 4 else [])
        for _ in range(rng.choice([0, 1, 1, 2])):
            pu[rng.randrange(n)] = ru()
        if any(abs(c) > 6 for u in pu for c in u[1:]) or any(abs(u[0]) > 12 for u in pu):
            continue
        unit_event(ctx, events, kind, pu, ux, k)
        ctx.case(nontrivial_id=('ur', k))
    # composite: the parts must agree
    from scippneutron.peaks import model as M

    for k in range(300 if ctx.thorough else 80):
        ux, ya, yb = ru(), ru(), ru()
        if rng.random() < 0.5:
            yb = ya
        comp = M.PolynomialModel(degree=1, prefix='b_') + M.GaussianModel(prefix='g_')
        x = sc.array(dims=['x'], values=[0.0, 1.0], unit=U(ux))
        params = {'b_a0': sc.scalar(1.0, unit=U(ya)), 'b_a1': sc.scalar(1.0, unit=U(ya) / U(ux)),
                  'g_amplitude': sc.scalar(1.0, unit=U(yb) * U(ux)), 'g_loc': sc.scalar(0.5, unit=U(ux)),
                  'g_scale': sc.scalar(1.0, unit=U(ux))}
        ev = {'ev': 'sum', 'tid': 0, 'a': [1, *ya], 'b': [1, *yb], 'out': [0, 0, 0, 0]}
        try:
            t = unit_triple_cached(comp(x, **params).unit)
            ev['out'] = [1, *(t or [99, 99, 99])]
        except Exception as exc:  # noqa: BLE001
            ev['exc'] = type(exc).__name__
        events.append(ev)
        ctx.case(nontrivial_id=('us', k))


# --------------------------------------------------------------------------------- closed forms
_GL_X, _GL_W = np.polynomial.legendre.leggauss(24)
_EDGES = np.concatenate([[0.0], 2.0 ** np.arange(-2, 21)])      # 0, 1/4, 1/2, 1, ..., 2^20  (units of scale)


def _quad_nodes():
    us, ws = [], []
    for a, b in zip(_EDGES[:-1], _EDGES[1:], strict=True):
        us.append(0.5 * (b - a) * _GL_X + 0.5 * (b + a))
        ws.append(0.5 * (b - a) * _GL_W)
    u, w = np.concatenate(us), np.concatenate(ws)
    return np.concatenate([-u[::-1], u]), np.concatenate([w[::-1], w])


_QU, _QW = _quad_nodes()


def grid_values(g):
    """(A, mu, s, f) of a grid record: A * 10^ea, mu * 10^em, 10^e, f/4 (fe: moved 2^-30 into (0, 1))."""
    def scaled(mant, ex):
        return float(mant * 10**ex) if ex >= 0 else float(mant) * 10.0**ex

    f = g['f'] / 4.0
    if g.get('fe'):
        f = f + 2.0**-30 if f < 0.5 else f - 2.0**-30
    return scaled(g['A'], g.get('ea', 0)), scaled(g['mu'], g.get('em', 0)), 10.0 ** g['e'], f


def point_tolerance(kind, xv, mu, s, eps):
    """Relative tolerance of one point value: 16 roundings of the evaluation plus, for the Gaussian part, the
    conditioning of exp(-q) on its exponent q (which carries about four roundings)."""
    sg = s / math.sqrt(2 * lp.LN2) if kind == 'pvoigt' else s
    q = (xv - mu) ** 2 / (2 * sg * sg) if kind != 'lorentz' else 0.0
    return max(1e-13 if eps == EPS else 0.0, (4 * q + 16) * eps)


def numeric_event(ctx, events, kind, g, idx, variant=None):
    from scippneutron.peaks import model as M

    mpmath.mp.dps = 60
    lpk = KIND_LP[kind]
    A, mu, s, f = grid_values(g)
    prefix = ('', 'peak_', 'a', 'a0')[idx % 4]
    m = getattr(M, KIND_CLASS[kind])(prefix=prefix)
    xu, yu = ('angstrom', 'counts') if idx % 2 else ('us', 'K')
    params = {prefix + 'amplitude': sc.scalar(A, unit=sc.Unit(yu) * sc.Unit(xu)), prefix + 'loc': sc.scalar(mu, unit=xu),
              prefix + 'scale': sc.scalar(s, unit=xu)}
    if kind == 'pvoigt':
        params[prefix + 'fraction'] = sc.scalar(f)
    params = ordered(params, ('declared', 'reversed', 'rotated')[idx % 3])
    fr = f if kind == 'pvoigt' else None
    ev = {'ev': 'flags', 'tid': 0, 'what': 'closed_form', 'kind': kind, 'grid': g, 'out': 'ok', 'flags': [],
          'types': ['float64']}

    def call(xv):
        return m(sc.array(dims=['x'], values=np.asarray(xv, dtype='float64'), unit=xu), **params)

    try:
        before = snapshot(list(params.values()))
        # ---- point values at the floats actually handed over
        ts = np.array([0.0, 0.25, -0.25, 0.5, -0.5, 1.0, -1.0, 2.0, -2.0, 5.0, -5.0])
        xs = mu + s * ts
        x0 = sc.array(dims=['x'], values=xs, unit=xu)
        x0_bits = bits(x0)
        res = m(x0, **params)
        res_bits = bits(res)
        got = res.values
        ok = res.unit == sc.Unit(yu)
        detail = []
        for xv, gv in zip(xs, got, strict=True):
            want = lp.mp_peak(lpk, xv, A, mu, s, fr)
            tol = point_tolerance(kind, xv, mu, s, EPS)
            err = float(abs((mpmath.mpf(float(gv)) - want) / want)) if math.isfinite(float(gv)) else math.inf
            if not err <= tol:
                ok = False
                detail.append([float(xv), repr(float(gv)), float(want), err, tol])
        ev['flags'].append(['point_values_differ_from_closed_form', bool(ok)])
        if detail:
            ev['detail'] = detail
        # ---- the same parameter objects, another x of the same shape (asked after the first)
        xs2 = mu + s * (0.75 * ts + 0.0625)
        got2 = m(sc.array(dims=['x'], values=xs2, unit=xu), **params).values
        ok = True
        for xv, gv in zip(xs2, got2, strict=True):
            want = lp.mp_peak(lpk, xv, A, mu, s, fr)
            err = float(abs((mpmath.mpf(float(gv)) - want) / want)) if math.isfinite(float(gv)) else math.inf
            if not err <= point_tolerance(kind, xv, mu, s, EPS):
                ok = False
                ev['detail2'] = [float(xv), repr(float(gv)), float(want), err]
        ev['flags'].append(['point_values_at_another_x_of_the_same_shape_differ_from_closed_form', bool(ok)])
        # ---- symmetry at exactly representable mirror points
        ok = True
        for t in (0.3, 1.0, 2.7):
            d0 = s * t
            k2 = math.floor(math.log2(d0)) - 4
            d = math.ldexp(round(d0 / 2.0**k2), k2)
            xp, xm = mu + d, mu - d
            if Fraction(xp) != Fraction(mu) + Fraction(d) or Fraction(xm) != Fraction(mu) - Fraction(d):
                continue
            v = call([xp, xm]).values
            if not abs(v[0] - v[1]) <= 4 * EPS * abs(v[0]):
                ok = False
        ev['flags'].append(['not_symmetric_about_loc', bool(ok)])
        # ---- half maximum at loc +/- FWHM/2 with the FWHM the model reports
        fw = m.fwhm(params)
        ok = fw.unit == sc.Unit(xu)
        h = float(fw.value) / 2
        v = call([mu, mu + h, mu - h]).values
        for xv, hv in ((mu + h, v[1]), (mu - h, v[2])):
            cond = 1.39 * abs(xv) / s          # |f'/f| <= 1.39/scale at the half-maximum points
            tol = 1e-13 + 4 * EPS * cond + 20 * EPS
            if not abs(hv - v[0] / 2) <= tol * abs(v[0] / 2):
                ok = False
                ev['half_detail'] = [repr(float(v[0])), repr(float(hv)), tol]
        # the reported FWHM against the closed form (informative part of the same clause)
        if not abs(float(fw.value) - float(lp.mp_fwhm(lpk, s))) <= 8 * EPS * float(fw.value):
            ok = False
        ev['flags'].append(['half_maximum_is_not_at_loc_plus_minus_reported_fwhm_half', bool(ok)])
        # ---- the FWHM asked with the parameters of a whole fit (what fit_peaks does: peak.fwhm(popt)): the dict also
        # holds a background and ANOTHER peak whose prefix has the same length; a refusal (KeyError / ValueError) is
        # no verdict, an answer must be this model's own width
        if prefix:
            twin = prefix[:-1] + ('b' if prefix[-1] != 'b' else 'c')
            other = {twin + 'amplitude': sc.scalar(2 * A, unit=sc.Unit(yu) * sc.Unit(xu)), twin + 'loc': sc.scalar(mu + 1, unit=xu),
                     twin + 'scale': sc.scalar(7 * s, unit=xu), 'bkg_a0': sc.scalar(1.0, unit=yu)}
            ok = True
            for sup in ({**other, **params}, {**params, **other}):
                try:
                    fws = m.fwhm(sup)
                except (KeyError, ValueError):
                    continue
                if not (fws.unit == fw.unit and float(fws.value) == float(fw.value)):
                    ok = False
            ev['flags'].append(['fwhm_from_the_parameters_of_a_whole_fit_is_not_the_models_own', bool(ok)])
        # ---- integral of the implementation's values + analytic Lorentzian tail
        vals = call(mu + s * _QU).values
        integral = float(np.sum(vals * _QW) * s)
        lor_frac = {'gauss': 0.0, 'lorentz': 1.0, 'pvoigt': f}[kind]
        tail = A * lor_frac * (2 / math.pi) * math.atan(1.0 / _EDGES[-1])
        tol = 1e-8 + 4 * EPS * 1.39 * abs(mu) / s
        okint = abs(integral + tail - A) <= tol * abs(A)
        ev['flags'].append(['integral_is_not_the_amplitude', bool(okint)])
        ev['integral_rel_err'] = abs(integral + tail - A) / abs(A) if math.isfinite(integral) else repr(integral)
        # ---- second use of the same objects (after evaluations and fwhm in between)
        ev['flags'].append(['evaluation_modified_its_arguments',
                            bool(snapshot(list(params.values())) == before and bits(x0) == x0_bits)])
        ev['flags'].append(['second_evaluation_with_the_same_objects_differs', bool(bits(m(x0, **params)) == res_bits)])
        ev['flags'].append(['earlier_result_changed_by_a_later_evaluation', bool(bits(res) == res_bits)])
    except Exception as exc:  # noqa: BLE001
        ev['out'] = 'refused'
        ev['exc'] = type(exc).__name__
        ev['exc_detail'] = repr(exc)[:200]
    events.append(ev)
    ctx.case(nontrivial_id=('g', kind, json.dumps(g)))
    if variant is not None and variant != BASE_VARIANT:
        variant_event(ctx, events, kind, g, idx, variant)


PEAK_TYPINGS = {   # typing -> element type wanted for (amplitude, loc, scale, fraction)
    'int_loc': ('float64', 'int64', 'float64', 'float64'),
    'int_leading': ('int64', 'float64', 'int64', 'float64'),
    'float_leading': ('float64', 'int64', 'int64', 'int64'),
}


def _variant_run(kind, g, idx, variant):
    """Point values (and the reported FWHM) of one grid point in one evaluation variant against the closed form
    at the values actually handed over.  -> dict(out, flags, types, detail...)."""
    from scippneutron.peaks import model as M

    lpk = KIND_LP[kind]
    A, mu, s, f = grid_values(g)
    prefix = ('', 'peak_', 'a', 'a0')[idx % 4]
    xu, yu = ('angstrom', 'counts') if idx % 2 else ('us', 'K')
    names = list(BASE[kind])
    if not 1e-30 < abs(A) < 1e30:
        # a float32 operand makes (parts of) the evaluation single precision, which cannot hold such values
        variant = {k: ('float64' if v == 'float32' else v) for k, v in variant.items()}
    if is_int_type(variant['xd']) and variant['pd'] == 'float32':
        # an integer x would be converted to single precision before loc is subtracted: the difference then
        # carries the rounding of x itself, not of an evaluation step - not a case with a usable tolerance
        variant = {**variant, 'pd': 'float64'}
    wants = PEAK_TYPINGS.get(variant['pd'], (variant['pd'],) * 4)
    if variant['xd'] == 'float32' and wants[1] == 'float64':
        # a double-precision location that single precision cannot hold, next to a single-precision x: x is
        # promoted and the difference is exact - unless the location is narrowed to the precision of x
        mu = mu + s / 3
    units = {'amplitude': sc.Unit(yu) * sc.Unit(xu), 'loc': sc.Unit(xu), 'scale': sc.Unit(xu), 'fraction': sc.Unit('one')}
    held, params, pds = {}, {}, []
    for name, value, want in zip(('amplitude', 'loc', 'scale', 'fraction'), (A, mu, s, f), wants, strict=True):
        if name not in names:
            continue
        v, d, actual = typed_scalar(value, want, units[name], exact=False)
        params[prefix + name], held[name] = v, actual
        pds.append(d)
    params = ordered(params, variant['order'])
    # points: integer multiples of the scale for integer-typed x (possible for scales >= 1 at integer locations)
    int_x = is_int_type(variant['xd']) and s >= 1 and float(mu).is_integer()
    ts = np.array([0.0, 1.0, -1.0, 2.0, -2.0, 5.0, -5.0, 3.0, -3.0] if int_x
                  else [0.0, 0.25, -0.25, 0.5, -0.5, 1.0, -1.0, 2.0, -2.0, 5.0, -5.0, 0.125])
    xvals, xd = typed_values(mu + s * ts, variant['xd'] if (int_x or not is_int_type(variant['xd'])) else 'float64',
                             exact=False)
    xlist, flat = lay_out(xvals, variant['layout'], xu)
    xa = [float(v) for v in xvals]
    if variant['layout'] == '0d':
        xa = xa[:4]
    types = [xd, *pds]
    eps = EPS32 if 'float32' in types else EPS
    out = {'out': 'ok', 'flags': [], 'types': types, 'held': held, 'actual_variant': {**variant, 'xd': xd}}
    try:
        m = getattr(M, KIND_CLASS[kind])(prefix=prefix)
        before = snapshot([*xlist, *params.values()])
        rs = [m(x, **params) for x in xlist]
        first = [bits(r) for r in rs]
        got = [float(v) for v in flat(rs)]
        ok = all(r.unit == sc.Unit(yu) for r in rs) and len(got) == len(xa)
        detail = []
        fh = held.get('fraction') if kind == 'pvoigt' else None
        for xv, gv in zip(xa, got, strict=False):
            want = lp.mp_peak(lpk, xv, held['amplitude'], held['loc'], held['scale'], fh)
            tol = point_tolerance(kind, xv, held['loc'], held['scale'], eps)
            err = float(abs((mpmath.mpf(gv) - want) / want)) if math.isfinite(gv) else math.inf
            if not err <= tol:
                ok = False
                detail.append([xv, repr(gv), float(want), err, tol])
        out['flags'].append(['point_values_differ_from_closed_form', bool(ok)])
        if detail:
            out['detail'] = detail[:4]
        fw = m.fwhm(params)
        out['flags'].append(['reported_fwhm_differs_from_closed_form', bool(
            fw.unit == sc.Unit(xu)
            and abs(float(fw.value) - float(lp.mp_fwhm(lpk, held['scale']))) <= 8 * eps * abs(float(fw.value)))])
        out['flags'].append(['evaluation_modified_its_arguments', bool(snapshot([*xlist, *params.values()]) == before)])
        out['flags'].append(['second_evaluation_with_the_same_objects_differs',
                             bool([bits(r) for r in [m(x, **params) for x in xlist]] == first)])
    except Exception as exc:  # noqa: BLE001
        out['out'] = 'refused'
        out['exc'] = type(exc).__name__
        out['exc_detail'] = repr(exc)[:200]
    return out


def unsupported(e):
    """A scipp DTypeError for a call with at least one integer-typed operand: accepted as "unsupported"."""
    types = e.get('types') if e.get('ev') != 'poly' else [e['xd'], *e['cds']]
    return e.get('out') == 'refused' and e.get('exc') == 'DTypeError' and any(map(is_int_type, types or []))


def _bad(r):
    return (r['out'] != 'ok' and not unsupported(r)) or not all(fl[1] for fl in r['flags'])


def variant_event(ctx, events, kind, g, idx, variant):
    """One grid point in one evaluation variant.  When it fails, the variant is reduced to the single dimension
    (element types / layout / order) that fails on its own, so that the violation key names the cause."""
    mpmath.mp.dps = 60
    r = _variant_run(kind, g, idx, variant)
    blame = ''
    if _bad(r):
        singles = {'types': {**BASE_VARIANT, 'xd': variant['xd'], 'pd': variant['pd']},
                   'layout': {**BASE_VARIANT, 'layout': variant['layout']},
                   'order': {**BASE_VARIANT, 'order': variant['order']}}
        for dim, v1 in singles.items():
            if v1 != BASE_VARIANT and _bad(_variant_run(kind, g, idx, v1)):
                blame = dim
                break
    ev = {'ev': 'flags', 'tid': 0, 'what': 'variant', 'kind': kind, 'grid': g, 'variant': r.pop('actual_variant'),
          'blame': blame, **r}
    events.append(ev)
    ctx.case(nontrivial_id=('gv', kind, json.dumps(g), json.dumps(variant, sort_keys=True)))


def typing_label(types):
    """Coarse, stable description of the element types of (x, amplitude, loc, scale[, fraction]) for keys."""
    x, p = types[0], types[1:]
    parts = []
    if is_int_type(x):
        parts.append('integer-typed x')
    elif x == 'float32':
        parts.append('float32 x')
    ints = [n for n, d in zip(('amplitude', 'loc', 'scale', 'fraction'), p, strict=False) if is_int_type(d)]
    if ints:
        parts.append('integer-typed ' + '/'.join(ints))
    if 'float32' in p:
        parts.append('float32 parameters')
    return ', '.join(parts) or 'float64 operands'


# --------------------------------------------------------------------------------- random expressions
ALPHABET = ['a', '0', '_', 'p', 'peak_', 'bkg_', 'a0', 'am', 'loc', 'é', ' ', 'λ_', 'x1', 'scale', '.']


def random_expr(rng, n_leaves):
    def leaf():
        k = rng.choice(['poly', 'gauss', 'lorentz', 'pvoigt'])
        pre = ''.join(rng.choice(ALPHABET) for _ in range(rng.choice([0, 1, 1, 2])))
        return {'kind': k, 'deg': rng.randrange(1, 7) if k == 'poly' else 0, 'prefix': toks(pre)}

    if n_leaves == 1:
        return leaf()
    k = rng.randrange(1, n_leaves)
    pre = ''.join(rng.choice(ALPHABET) for _ in range(rng.choice([0, 0, 1])))
    return {'kind': 'comp', 'deg': 0, 'prefix': toks(pre), 'left': random_expr(rng, k), 'right': random_expr(rng, n_leaves - k)}


def well_formed_inner(e):
    """All proper sub-expressions are free of clashes (so that only the top composition can be refused)."""
    if e['kind'] != 'comp':
        return True
    for sub in (e['left'], e['right']):
        if not well_formed_inner(sub):
            return False
        n = names_of(sub)
        if len(set(n)) != len(n):
            return False
    return True


# --------------------------------------------------------------------------------- run
def single_precision_first():
    """Hostile history of this driver's own cases (HARDENING item 6): before anything is judged, every model is
    used once with float32 operands in the very units the judged cases use, then with integer operands.  Nothing
    is judged here, exceptions are ignored; a correct implementation keeps nothing from these calls."""
    from scippneutron.peaks import model as M

    n = 0
    for xu, yu in (('angstrom', 'counts'), ('us', 'K'), ('one', 'one'), ('m', 'K')):
        for dt in ('float32', 'int64'):
            x = sc.array(dims=['x'], values=np.array([0, 1, 3], dtype=dt), unit=xu)
            pk = {'amplitude': sc.scalar(2, dtype=dt, unit=sc.Unit(yu) * sc.Unit(xu)), 'loc': sc.scalar(1, dtype=dt, unit=xu),
                  'scale': sc.scalar(2, dtype=dt, unit=xu)}
            calls = [(M.GaussianModel(), pk), (M.LorentzianModel(), pk),
                     (M.PseudoVoigtModel(), {**pk, 'fraction': sc.scalar(1, dtype=dt)}),
                     (M.PolynomialModel(degree=2), {f'a{i}': sc.scalar(1 + i, dtype=dt, unit=sc.Unit(yu) / sc.Unit(xu) ** i)
                                                   for i in range(3)})]
            for m, p in calls:
                for f in (lambda m=m, p=p: m(x, **p), lambda m=m, p=p: m.fwhm(p), lambda m=m, p=p: m.with_prefix('w_')):
                    try:
                        f()
                    except Exception:  # noqa: BLE001
                        pass
                    n += 1
    return n


KEEP = ('ev', 'tid', 'model', 'out', 'names', 'keys', 'guess_keys', 'bounds_keys', 'guess_same', 'bounds_same',
        'coefs', 'xs', 'got', 'kind', 'pu', 'ux', 'a', 'b', 'flags', 'types', 'xd', 'cds', 'layout', 'order',
        'args_same', 'again_same', 'kept', 'same', 'second', 'what', 'variant', 'blame', 'exc')


def kept(e):
    return {k: v for k, v in e.items() if k in KEEP}


def big_integer_x_events(ctx, events):
    """Polynomials at integer-typed x whose powers exceed the int64 range (|x|^degree > 2^63): integer time
    stamps, event indices.  The value must still be sum a_i x^i (the exact rational, compared at
    1e-12 relative with the condition of the sum) - a silent wrap-around of an integer power is a wrong
    answer, not a refusal.  Too large for TLC's integers, so the verdict is a flag judged by the
    harness' exact arithmetic."""
    from fractions import Fraction

    from scippneutron.peaks import model as M

    cases = [(2, 3_100_000_000, [1.0, -2.0, 0.5]), (4, 58_000, [0.5, 1.0, -3.0, 2.0, 1.5]),
             (5, 7_000, [1.0, 0.0, 2.0, -1.0, 0.25, 3.0]), (6, 1_500, [2.0, 1.0, 0.0, 0.5, -1.0, 1.0, 0.75]),
             (3, -2_200_000, [4.0, 1.0, -2.0, 0.5])]
    for deg, xbig, coefs in cases:
        for prefix in ('', 'bkg_'):
            m = M.PolynomialModel(degree=deg, prefix=prefix)
            xs = [xbig, xbig + 1, -xbig, 3]
            x = sc.array(dims=['x'], values=xs, unit='us', dtype='int64')
            params = {f'{prefix}a{i}': sc.scalar(c, unit=sc.Unit('K') / sc.Unit('us') ** i) for i, c in enumerate(coefs)}
            ev = {'ev': 'flags', 'tid': 0, 'what': 'big_integer_x', 'kind': 'poly', 'out': 'ok', 'flags': [],
                  'types': ['int64', 'float64']}
            try:
                got = m(x, **params).values
                ok = True
                for xv, gv in zip(xs, got, strict=True):
                    terms = [Fraction(c) * Fraction(xv) ** i for i, c in enumerate(coefs)]
                    want = sum(terms)
                    cond = sum(abs(t) for t in terms)
                    if not math.isfinite(float(gv)) or abs(Fraction(float(gv)) - want) > cond * Fraction(1, 10**12):
                        ok = False
                ev['flags'].append(['polynomial_is_not_sum_a_i_x_i_for_large_integer_x', bool(ok)])
            except Exception as exc:  # noqa: BLE001
                ev['out'] = 'refused'
                ev['exc'] = type(exc).__name__
            events.append(ev)
            ctx.case(nontrivial_id=('bigx', deg, xbig, prefix))


def run(ctx):
    import warnings
    from concurrent.futures import ThreadPoolExecutor

    warnings.simplefilter('ignore')     # numpy's RankWarning of polynomial guesses on few points is not a verdict
    ctx.rule = RULE
    ctx.assume('any exception raised by a model counts as refusal (the property names no exception class)')
    ctx.assume('normalisation, half maximum and symmetry of the transcendental closed forms are compared numerically '
               '(mpmath, 60 digits) at the enumerated grid; TLC decides the name/refusal/polynomial/Lorentzian/unit algebra')
    ctx.assume('units: powers of two base units and of ten; scipp performs no implicit conversion between m and mm')
    ctx.assume('a scipp DTypeError for a call with at least one integer-typed operand is accepted as "unsupported element '
               'types" (the quantifier names no element types; weakest reading as for C07); whatever is returned for '
               'integer operands is judged; an operation on a float32 operand may round to single precision (tolerance '
               '(4q+16) 2^-23)')
    ctx.extra['single_precision_first_calls'] = single_precision_first()
    # ---- 1. design (the negative controls run beside the main model)
    pool = ThreadPoolExecutor(max_workers=4)
    negs = [pool.submit(ctx.tlc, 'peaks/MC_PeakModels.tla', f'Neg_PeakModels_{neg}.cfg', expect_error=True, timeout=300,
                        workers=2) for neg in ('clash', 'subset', 'horner', 'fwhm', 'types', 'reuse')]
    if ctx.thorough:
        res = ctx.tlc('peaks/MC_PeakModels.tla', 'MC_PeakModels_thorough.cfg', timeout=1500, workers=WORKERS)
        require_ok(ctx, res, 'PeakModels model (thorough)')
        res = ctx.tlc('peaks/MC_PeakModels.tla', 'MC_PeakModels_deep.cfg', timeout=1500, workers=WORKERS)
        require_ok(ctx, res, 'PeakModels model (3 leaves)')
    else:
        res = ctx.tlc('peaks/MC_PeakModels.tla', 'MC_PeakModels.cfg', timeout=600, workers=WORKERS)
        require_ok(ctx, res, 'PeakModels model')
    # ---- 2. enumerated cases
    mf, gf, uf, vf = (ctx.tmp / f'{n}.ndjson' for n in ('models', 'grid', 'units', 'variants'))
    gen = ctx.tlc('peaks/Gen_PeakModels.tla', workers=1, timeout=600, count=False,
                  env={'MODEL_FILE': str(mf), 'GRID_FILE': str(gf), 'UNIT_FILE': str(uf), 'VARIANT_FILE': str(vf)})
    require_ok(ctx, gen, 'Gen_PeakModels')
    for fut in negs:
        fut.result()            # a negative control that was not rejected raises MachineryError
    pool.shutdown()

    def load(p):
        return [json.loads(line) for line in p.read_text().splitlines() if line.strip()]

    models, grid, ucases, variants = load(mf), load(gf), load(uf), load(vf)
    g = gen.tagged('GEN')
    if not g or g[0][1:] != [len(models), len(grid), len(ucases), len(variants)]:
        raise MachineryError(f'case generation incomplete: {g}')
    ctx.extra['enumerated_model_expressions'] = len(models)
    ctx.extra['enumerated_grid_points'] = len(grid)
    ctx.extra['enumerated_unit_cases'] = len(ucases)
    ctx.extra['enumerated_evaluation_variants'] = len(variants)
    events: list = []
    recipes: list = []          # (first event index, one-past-last, function(events)) for the replay pass
    rng = ctx.rng
    variants = [v for v in sorted(variants, key=lambda v: json.dumps(v, sort_keys=True)) if v != BASE_VARIANT]
    rng.shuffle(variants)
    vcount = [0]

    def next_variant():
        vcount[0] += 1
        return variants[vcount[0] % len(variants)]

    def record(fn):
        start = len(events)
        fn(events)
        recipes.append((start, len(events), fn))

    # data for guess()
    xg = np.linspace(0.0, 10.0, 61)
    yg = 2.0 + 0.3 * xg + lp.np_gaussian(xg, 12.0, 4.5, 0.8)
    gdata = sc.DataArray(sc.array(dims=['x'], values=yg, unit='counts'), coords={'x': sc.array(dims=['x'], values=xg, unit='angstrom')})

    def model_case(e, idx, probes, aux):
        seed = rng.getrandbits(48)

        def fn(evs):
            m = model_events(ctx, evs, e, idx, probes=probes, rng=random.Random(seed))
            if m is not None and aux and len(set(names_of(e))) == len(names_of(e)):
                aux_event(ctx, evs, e, m, gdata)
        return fn

    leaves = [e for e in models if e['kind'] != 'comp']
    comps = [e for e in models if e['kind'] == 'comp']
    if not ctx.thorough:
        comps = rng.sample(comps, 1200)
    for k, e in enumerate(leaves + comps):
        record(model_case(e, k, 'all' if (e['kind'] != 'comp' or not ctx.thorough) else 'some',
                          k % (3 if ctx.thorough else 6) == 0))
    # random deeper expressions
    n_rand = 2500 if ctx.thorough else 500
    made = 0
    while made < n_rand:
        e = random_expr(rng, rng.choice([1, 2, 2, 3, 3, 4, 5]))
        if not well_formed_inner(e):
            continue
        made += 1
        record(model_case(e, made, 'some', made % 5 == 0))
    # ---- polynomials, units, closed forms
    plain = {'layout': '1d', 'order': 'declared'}
    for k, coefs in enumerate(poly_vectors(ctx)):
        for v in ({**plain, 'xd': 'int64', 'pd': 'int64'}, {**plain, 'xd': 'float64', 'pd': 'float64'}, next_variant()):
            record(lambda evs, coefs=coefs, k=k, v=v: poly_case(ctx, evs, coefs, k, v))
    big_integer_x_events(ctx, events)
    ustart = len(events)
    units_part(ctx, events, ucases)
    for i in range(ustart, len(events)):
        if events[i]['ev'] == 'unit':
            ue = events[i]
            recipes.append((i, i + 1, lambda evs, ue=ue: unit_event(ctx, evs, ue['kind'], [tuple(u) for u in ue['pu']],
                                                                    tuple(ue['ux']), ue['idx'])))
    if not ctx.thorough:
        # every scale and every amplitude, a third of the (loc, fraction) combinations
        key = lambda r: (r['ea'], r['em'], r['e'], r['A'], r['mu'], r['f'], r['fe'])      # noqa: E731
        grid = [g_ for i, g_ in enumerate(sorted(grid, key=key)) if i % 3 == 0]
    for k, g_ in enumerate(grid):
        for kind in ('gauss', 'lorentz', 'pvoigt'):
            if kind != 'pvoigt' and g_['f'] not in (0, 3):
                continue
            record(lambda evs, kind=kind, g_=g_, k=k, v=next_variant(): numeric_event(ctx, evs, kind, g_, k, v))
    # ---- 3. replay: a sample of all kinds of cases again, in another order (HARDENING item 6)
    n_first = len(events)
    by_kind: dict = {}
    for rec in recipes:
        if rec[1] > rec[0]:
            by_kind.setdefault(events[rec[0]]['ev'] + ':' + events[rec[0]].get('what', ''), []).append(rec)
    sample = []
    for recs in by_kind.values():
        sample += rng.sample(recs, min(len(recs), 120 if ctx.thorough else 40))
    rng.shuffle(sample)
    n_replayed = 0
    for start, stop, fn in sample:
        second: list = []
        fn(second)
        firsts = events[start:stop]
        if len(second) != len(firsts):
            events.append({'ev': 'replay', 'tid': 0, 'what': firsts[0]['ev'], 'same': False, 'second': kept(firsts[0]),
                           'first': kept(firsts[0]), 'note': f'{len(firsts)} events first, {len(second)} on replay'})
            continue
        for e1, e2 in zip(firsts, second, strict=True):
            same = json.dumps(kept(e1), sort_keys=True) == json.dumps(kept(e2), sort_keys=True)
            events.append({'ev': 'replay', 'tid': 0, 'what': e1['ev'], 'same': bool(same), 'second': kept(e2),
                           **({} if same else {'first': kept(e1)})})
            n_replayed += 1
    ctx.extra['replayed_in_another_order'] = n_replayed
    ctx.extra['first_pass_events'] = n_first
    for i, e in enumerate(events):
        e['tid'] = i
    kinds = {}
    for e in events:
        kinds[e['ev']] = kinds.get(e['ev'], 0) + 1
        if kinds[e['ev']] == 1:
            ctx.sample(e)
    ctx.extra['events_by_kind'] = kinds
    ctx.extra['integer_operands_refused_with_DTypeError'] = sum(1 for e in events if unsupported(e))
    worst = max((e['integral_rel_err'] for e in events if isinstance(e.get('integral_rel_err'), float)), default=0.0)
    ctx.extra['worst_integral_relative_error'] = worst
    # ---- TLC judges every event
    tf = ctx.tmp / 'c16.ndjson'
    write_ndjson(tf, [kept(e) for e in events])
    tr = ctx.tlc('peaks/Trace_PeakModels.tla', workers=1, env={'TRACE_FILE': str(tf)}, timeout=1500)
    require_ok(ctx, tr, 'Trace_PeakModels')
    done = tr.tagged('DONE')
    if not done or done[0][1] != len(events):
        raise MachineryError(f'trace validation incomplete: {done} vs {len(events)} events')
    ctx.traces(len(events))
    rejected_lines = {r[1] for r in tr.tagged('REJECT')}
    for _, line, _tid, clause in tr.tagged('REJECT'):
        ctx.violation(violation_key(events[line - 1], clause),
                      {'event': {k: v for k, v in events[line - 1].items() if k not in ('xs',)}})
    # the control corrupts events the judge ACCEPTED (so its outcome cannot depend on the code under test)
    _judge_control(ctx, [e for i, e in enumerate(events) if i + 1 not in rejected_lines])


def violation_key(e, clause):
    """Stable, specific signature: event kind, failing clause, model kind and - for evaluation variants and
    refusals - the operand typing / layout / order that is responsible."""
    if e['ev'] == 'replay':
        inner = e['second']
        if clause == 'replayed_case_differs_from_its_first_evaluation':
            what = inner.get('kind') or (inner.get('model') or {}).get('kind') or inner['ev']
            return f'replay: {clause} ({inner["ev"]} {what})'
        # the second observation fails the judge on its own: the key of that failure (shared with the first
        # observation if that failed alike)
        return violation_key(inner, clause) + ('' if e['same'] else ' [second evaluation only]')
    what = e.get('kind') or (e.get('model') or {}).get('kind') or e.get('what', '')
    if e['ev'] == 'flags' and e.get('what') == 'routing':
        what = 'composite' if e['model']['kind'] == 'comp' else e['model']['kind']
    if e['ev'] == 'poly':
        what = 'polynomial'
        if clause.startswith('polynomial_refused'):
            what = f'{e.get("exc", "")}; x {e["layout"]}' if e['layout'] != '1d' else e.get('exc', '')
        elif e['layout'] != '1d' or e['order'] != 'declared' or e['xd'] != e['cds'][-1] or len(set(e['cds'])) > 1:
            what = 'polynomial, variant'
    if e['ev'] == 'flags' and e.get('what') in ('variant', 'closed_form') and e.get('types'):
        t = e['types']
        if clause.startswith('evaluation_refused'):
            what += f'; {e.get("exc", "")}' + ('; integer-typed operands' if any(map(is_int_type, t)) else '')
            if e.get('what') == 'variant' and e.get('blame') in ('layout', 'order'):
                what += f'; {e["blame"]} {e["variant"][e["blame"]]}'
        elif e.get('what') == 'variant':
            blame = e.get('blame')
            v = e['variant']
            label = {'types': 'element types: ' + ('float32' if 'float32' in t else 'integer' if any(map(is_int_type, t))
                                                   else 'float64'),
                     'layout': f'x {v["layout"]}', 'order': 'keyword order'}.get(blame, 'combined variant')
            what += f'; {label}'
    return f'{e["ev"]}: {clause} ({what})'


def _judge_control(ctx, events):
    """Negative control of the judge: corrupted copies of accepted events (one field each) must be rejected."""
    import copy

    bad = []
    ne = next((e for e in events if e['ev'] == 'names' and e['out'] == 'ok' and len(e['names']) > 1), None)
    if ne:
        b = copy.deepcopy(ne)
        b['names'] = b['names'][1:]
        bad.append(b)
    ce = next((e for e in events if e['ev'] == 'call' and e['out'] == 'refused'), None)
    if ce:
        b = copy.deepcopy(ce)
        b['out'] = 'ok'
        bad.append(b)
    pe = next((e for e in events if e['ev'] == 'poly' and e['out'] == 'ok' and e['got']), None)
    if pe:
        b = copy.deepcopy(pe)
        b['got'][-1] += 1
        bad.append(b)
        b = copy.deepcopy(pe)
        b['kept'] = False
        bad.append(b)
        b = copy.deepcopy(pe)
        b.update(out='refused', exc='ValueError')          # any exception other than DTypeError is a refusal
        bad.append(b)
    pf = next((e for e in events if e['ev'] == 'poly' and e['out'] == 'ok' and not any(map(is_int_type, [e['xd'], *e['cds']]))), None)
    if pf:
        b = copy.deepcopy(pf)
        b.update(out='refused', exc='DTypeError')          # "unsupported" needs an integer-typed operand
        bad.append(b)
    ue = next((e for e in events if e['ev'] == 'unit' and e['out'][0] == 1), None)
    if ue:
        b = copy.deepcopy(ue)
        b['out'][2] += 1
        bad.append(b)
    fe = next((e for e in events if e['ev'] == 'flags' and e.get('what') == 'variant' and e['flags']), None)
    if fe:
        b = copy.deepcopy(fe)
        b['flags'][-1][1] = False
        bad.append(b)
    re_ = next((e for e in events if e['ev'] == 'replay' and e['same']), None)
    if re_:
        b = copy.deepcopy(re_)
        b['same'] = False
        bad.append(b)
    if not bad:
        ctx.extra['judge_control'] = 'no accepted event to corrupt (everything was rejected)'
        return
    tf = ctx.tmp / 'c16-control.ndjson'
    write_ndjson(tf, [kept(e) for e in bad])
    tr = ctx.tlc('peaks/Trace_PeakModels.tla', workers=1, env={'TRACE_FILE': str(tf)}, timeout=300, count=False)
    require_ok(ctx, tr, 'Trace_PeakModels (control)')
    if len(tr.tagged('REJECT')) != len(bad):
        raise MachineryError(f'judge control: {len(bad)} corrupted events, rejected {tr.tagged("REJECT")}')
    ctx.extra['judge_control'] = f'{len(bad)} corrupted events rejected'


META = {
    'design_ref': 'DESIGN.md §5 C16',
    'technique': 'TLA+ state machines (PeakModels: names / horner / lorentz / units) model-checked by TLC with negative '
                 'controls; TLC-enumerated model expressions, unit cases and parameter grid replayed into the real '
                 'models; every observation validated by TLC (Trace_PeakModels); transcendental closed forms '
                 'compared numerically against mpmath at the enumerated grid',
    'text': 'TLC decides the parameter-name algebra (prefix, composite union/disjointness, with_prefix, acceptance iff '
            'the keys are exactly the names, routing of every value to its declared leaf parameter) for all model '
            'expressions within the bounds, Horner = sum a_i x^i over the integers, the Lorentzian as an exact rational '
            'multiple of 1/pi (symmetry, half maximum at loc +/- scale, FWHM 2 scale) and the unit algebra; the real '
            'models are built for every enumerated expression and random deeper ones and TLC judges names, '
            'acceptance/refusal, integer polynomial values (bit-exact) and result units; point values, symmetry, half '
            'maximum at the reported FWHM and normalisation of Gaussian/Lorentzian/pseudo-Voigt are compared with '
            '60-digit closed forms on the enumerated grid (scales 1e-6..1e6, both amplitude signs, fractions 0..1).',
    'note': 'The transcendental sub-claims (normalisation, half maximum, symmetry of Gaussian and pseudo-Voigt) are '
            'decided numerically on finitely many enumerated points, not by TLC (DESIGN §6). Trusted: TLC, scipp, numpy, '
            'mpmath. Any exception counts as refusal. Hardening round: TLC also decides the typed Horner evaluation '
            '(never refused, nothing narrowed) and the reuse of parameter objects (arguments unchanged, repeatable); the '
            'real models are evaluated with integer / float32 / mixed operands, scalar / strided / 2-d / transposed x, '
            'shuffled keyword order, twice with the same objects, and a sample of all cases again at the end in another '
            'order (replay events judged by TLC).',
}
