"""Growth module G08: scippneutron.instrument_view (src/scippneutron/instrument_view.py).
Deviations are reported with ctx.growth_finding (GROWTH-FINDING lines), never as violations of a host check.

Specification: spec/view/Growth_InstrumentView.tla - WHAT SCENE a call describes, written from the docstring and the
lead's reading of it, in exact integer arithmetic on a lattice of 1 mm.  State = the set of objects in the scene; actions
Plot(data, pixel_size), AddComponent(name, settings) once per entry of the `components` dict (any order), Return.  Every
component = exactly one shape of the requested type (box / cylinder / disk) centred at `center` expressed in the unit of
the pixel positions (center and size may come in m, cm or mm; a scalar size is a cube), with the requested bounding box
(box: x / y / z extents; cylinder: diameter = size x, height = size y along y; disk: diameter = size x, thin, axis along
the beam = a coordinate axis of largest distance between the component and the mean pixel position - every maximal axis
is accepted in a tie, any axis exactly at the detector centre), requested colour (default #808080), wireframe or solid
(default solid), and exactly one text label carrying the name at centre + (0, 0.8 size y, 0).  An unknown type is refused
and nothing is drawn for it.  TLC checks (Growth_MC_InstrumentView.cfg, _thorough.cfg): one shape + one label per
component and nothing else, type and place (unit conversion stated the other way round), bounding boxes, the disk faces
the beam, label above, styles, one pixel cloud with the pixel-size guess = distance of the first two pixels, the far
plane covers every component, nothing without components, refusal (last entry, named, scene as before), the scene is a
function of the SET of components (every dict order arrives at it); action properties: earlier objects are kept and
what is new belongs to the component just added, far monotone, input unchanged, refusal leaves the scene.  Seven
negative controls (Bug constant: center_raw, size_raw, label_x, disk_min, reach_min, skip_unknown, order).

spec -> code: TLC prints complete calls with the exact expected scene (integers in mm; label positions in fifths):
every call with <= 1 component of the full grid (_emit.cfg), every call with <= 2 components - both dict orders - of a
near / far / tied grid (_pairs.cfg), and random calls with up to 5 components, random detectors and lattice numbers far
beyond the grids (_sim.cfg, -simulate, seeded).  Each call is replayed into the real `instrument_view` and the scene
(`fig.canvas.scene.children`) is read back.

Refinement mapping.  A lattice value v mm is the float v / Scale(unit) in the unit of the positions (m: 1000, cm: 10,
mm: 1); center / size are handed over as the specification's whole numbers in the specification's unit (float64 vectors,
python-int lists, int64 or float64 scalars for a scalar size; optional keys absent when the style says "none"; the keys
of a settings dict in random order).  The data array has the model's pixels first, followed by pairs of pixels placed
symmetrically around the model's detector centre (up to ~300 pixels: the mean and the first two pixels are those of the
model), under the name `position` or under a custom name handed over with `positions=` (then a decoy `position`
coordinate with other values is present), optionally with a mask, optionally with an extra data dimension.
Objects: a Mesh (solid; `material.wireframe` counts as wireframe) or LineSegments / Line over an Edges- / WireframeGeometry
(wireframe) with a BoxGeometry (extents = |R| (width, height, depth), R the rotation of the object's quaternion, so a
turned box does not pass as the requested bounding box) or a CylinderGeometry (radiusTop = radiusBottom = diameter / 2,
height; its construction axis (0, 1, 0) turned by R must be +-y for a cylinder and +- an expected beam axis for a disk;
"thin" is only judged as height < radius, the ratio is recorded); a Sprite is a label, its text is
`material.map.string`.  Shapes are matched to components by their attributes (labels by text), never by the order of
the children.  Numbers are compared to 1e-12 relative to the magnitude of the terms involved (lattice numbers; the only
roundings are v / Scale, the mean of the pixels - irrelevant for the argmax because exact ties accept every tied axis -
and 0.8 * size y; the pixel-size guess is a difference of two rounded coordinates, so it is allowed to be off by
8 ulp of the coordinates if that is more).  Colours are compared as hexadecimal strings, case-insensitively.
Pixel cloud: the oracle for "what the plot of the pixels is" is plopp itself: `plopp.scatter3d(data, pos=<name>,
pixel_size=<expected>, cbar=...)`, the documented delegate.  The first children of the scene must be of the same types,
the points at the same positions (also compared with the lattice numbers as float32), and the marker size the same as in
that reference (this is how the pixel-size guess is observed; the `pixel_size` received by plopp.scatter3d is recorded
through a recording wrapper around `plopp.scatter3d`, which also keeps the figure so that the objects can still be read
when the call raises after drawing).  Camera: never judged by the factor 5 of the source (not documented; recorded in
the evidence); a finding only if the far plane is nearer than in the reference plot of the same data (shrinks), nearer
than a component is from the detector centre, or nearer than a component is from the camera (the component is clipped,
i.e. not displayed).  The same set of components in another dict order must give the same far.
Refusal: ValueError whose text contains the name (lead's reading; the repository's own test asks for the same); if the
figure was captured, no label of the refused component may be in it.  Whether components added BEFORE the refused one
are already in the (never returned) scene is not judged (assumption recorded).  An exception where a figure is
documented is a finding keyed by the exception class and the input class; the captured scene is still compared.
Where the docstring is silent only an observation is recorded in the evidence (`ctx.extra['instrument_view']`): thickness
of the disk, far / (5 x distance), a single pixel, coincident first pixels, whether the components dict is untouched.
Docstring sentence "Sliders are added to navigate extra dimensions": checked on data with an extra dimension (a slider
widget anywhere in the returned figure, one point per pixel).
"""

from __future__ import annotations

import itertools
import json
import math
import threading
import time
from fractions import Fraction

import numpy as np
import scipp as sc

from .core import MachineryError
from .tlc import require_ok

PRE = 'instrument_view'
SPEC = 'view/Growth_MC_InstrumentView.tla'
SCALE = {'m': 1000, 'cm': 10, 'mm': 1}
REL = 1e-12
_TOKEN = itertools.count(1)
NEGS = {'center_raw': 'TypeAndPlace', 'size_raw': 'BoundingBox', 'label_x': 'LabelAbove', 'disk_min': 'DiskFacesBeam',
        'reach_min': 'FarReaches', 'skip_unknown': 'UnknownRefused', 'order': 'OrderIndependent'}
QUICK_NEGS = ('center_raw', 'disk_min', 'skip_unknown')
JAVA_ENV = {'_JAVA_OPTIONS': '-XX:ParallelGCThreads=1'}


# ============================================================================ TLC jobs in threads (<= 4 cores in total)
class _Par:
    def __init__(self, ctx):
        self.ctx, self.jobs = ctx, []

    def start(self, fn):
        job = {'res': None, 'exc': None}

        def wrap():
            try:
                job['res'] = fn()
            except BaseException as e:  # noqa: BLE001
                job['exc'] = e

        job['t'] = threading.Thread(target=wrap, daemon=True)
        job['t'].start()
        self.jobs.append(job)
        time.sleep(0.03)
        return job

    @staticmethod
    def join(job):
        job['t'].join()
        if job['exc'] is not None:
            raise job['exc']
        return job['res']

    def join_all(self):
        first = None
        for j in self.jobs:
            try:
                self.join(j)
            except BaseException as e:  # noqa: BLE001
                first = first or e
        if first is not None:
            raise first


# ============================================================================ the specification's calls
class Call:
    def __init__(self, rec, source):
        _, det, ps, order, phase, refused, scene, reach, centre = rec
        self.source = source
        self.unit = det['unit']
        self.pix = [tuple(p) for p in det['pix']]
        self.ps = ps
        self.order = [(n, s) for n, s in order]
        self.phase, self.refused, self.reach, self.centre = phase, refused, reach, tuple(centre)
        objs = scene['$set']
        self.shapes = {o['of']: o for o in objs if o['kind'] == 'shape'}
        self.labels = {o['of']: o for o in objs if o['kind'] == 'label'}
        self.cloud = [o for o in objs if o['kind'] == 'cloud'][0]
        self.known = [(n, s) for n, s in self.order if n in self.shapes]
        if len(self.shapes) != len(self.labels) or len(objs) != 1 + 2 * len(self.shapes):
            raise MachineryError('exported scene is not cloud + shape/label pairs')

    def det_key(self):
        return json.dumps([self.unit, self.pix, self.ps])

    def set_key(self):
        return json.dumps([self.unit, self.pix, self.ps, sorted(json.dumps([n, s], sort_keys=True) for n, s in self.order)])


def _frac(mm, den, unit):
    return Fraction(mm, den * SCALE[unit])


# ============================================================================ refinement mapping: inputs
VARIANTS = (
    {'name': 'position', 'extras': 0, 'mask': False, 'data2d': False},
    {'name': 'pixpos', 'extras': 60, 'mask': False, 'data2d': False},
    {'name': 'position', 'extras': 150, 'mask': True, 'data2d': False},
    {'name': 'position', 'extras': 4, 'mask': False, 'data2d': True},
)


def build_data(rng, call, variant):
    """The data array of a model detector: model pixels first, then pairs symmetric about the model's centre."""
    scale = SCALE[call.unit]
    c = call.centre
    pts = list(call.pix)
    spread = max(1, max(abs(p[i] - c[i]) for p in call.pix for i in range(3)))
    for _ in range(variant['extras']):
        e = tuple(rng.randint(-spread, spread) for _ in range(3))
        pts.append(tuple(c[i] + e[i] for i in range(3)))
        pts.append(tuple(c[i] - e[i] for i in range(3)))
    vals = np.array([[float(Fraction(x, scale)) for x in p] for p in pts])
    n = len(pts)
    pos = sc.vectors(dims=['pix'], values=vals, unit=call.unit)
    if variant['data2d']:
        data = sc.array(dims=['pix', 'tof'], values=np.array([[rng.random() + 0.1 for _ in range(3)] for _ in range(n)]), unit='counts')
    else:
        data = sc.array(dims=['pix'], values=np.array([rng.random() + 0.1 for _ in range(n)]), unit='counts')
    da = sc.DataArray(data, coords={variant['name']: pos})
    if variant['data2d']:
        da.coords['tof'] = sc.arange('tof', 3.0, unit='us')
    if variant['name'] != 'position':
        decoy = vals[::-1] + np.array([7.0, 9000.0, -3.0])       # far away along y: a disk facing IT would be turned to y
        da.coords['position'] = sc.vectors(dims=['pix'], values=decoy, unit=call.unit)
    if variant['mask']:
        da.masks['m'] = sc.array(dims=['pix'], values=np.array([i % 7 == 3 for i in range(n)]))
    return da, vals, next(_TOKEN)


def build_components(rng, call, flav):
    comps = {}
    for name, s in call.order:
        cu, cv = s['center']
        su, sk, sv = s['size']
        as_int = flav['ints']
        center = sc.vector(value=[int(x) for x in cv] if as_int else [float(x) for x in cv], unit=cu)
        if sk == 'scalar':
            size = sc.scalar(int(sv[0]), unit=su, dtype='int64') if as_int else sc.scalar(float(sv[0]), unit=su)
        else:
            size = sc.vector(value=[int(x) for x in sv] if as_int else [float(x) for x in sv], unit=su)
        items = [('center', center), ('size', size), ('type', s['type'])]
        col, wire = s['style']
        if col != 'none':
            items.append(('color', col.upper() if flav['upper'] else col))
        if wire != 'none':
            items.append(('wireframe', wire == 'yes'))
        rng.shuffle(items)
        comps[name] = dict(items)
    return comps


# ============================================================================ refinement mapping: reading the scene back
class Recorder:
    """Stands in for plopp.scatter3d while the module runs: forwards to the real function, keeps the keyword
    arguments and the figure of the last call."""

    def __init__(self, real):
        self.real = real
        self.kwargs = None
        self.fig = None
        self.ncalls = 0

    def reset(self):
        self.kwargs, self.fig = None, None

    def __call__(self, *a, **kw):
        self.ncalls += 1
        self.kwargs = dict(kw)
        self.fig = None
        self.fig = self.real(*a, **kw)
        return self.fig


def _rot(q):
    x, y, z, w = (float(v) for v in q)
    n = math.sqrt(x * x + y * y + z * z + w * w) or 1.0
    x, y, z, w = x / n, y / n, z / n, w / n
    return np.array([[1 - 2 * (y * y + z * z), 2 * (x * y - z * w), 2 * (x * z + y * w)],
                     [2 * (x * y + z * w), 1 - 2 * (x * x + z * z), 2 * (y * z - x * w)],
                     [2 * (x * z - y * w), 2 * (y * z + x * w), 1 - 2 * (x * x + y * y)]])


def describe(p3, child):
    """One child of the scene -> what it is, in the vocabulary of the specification."""
    if isinstance(child, p3.Sprite):
        text = None
        try:
            text = child.material.map.string
        except Exception:  # noqa: BLE001
            pass
        return {'kind': 'label', 'text': text, 'at': tuple(float(v) for v in child.position)}
    if isinstance(child, (p3.Mesh, p3.LineSegments, p3.Line)):
        g = child.geometry
        wire = isinstance(child, (p3.LineSegments, p3.Line))
        if isinstance(g, (p3.EdgesGeometry, p3.WireframeGeometry)):
            g = g.geometry
            wire = True
        mat = child.material
        if bool(getattr(mat, 'wireframe', False)):
            wire = True
        scale = np.array([float(v) for v in child.scale])
        R = _rot(child.quaternion)
        o = {'kind': 'shape', 'at': tuple(float(v) for v in child.position), 'wire': wire,
             'colour': str(getattr(mat, 'color', None)), 'geom': type(g).__name__, 'axis': R @ np.array([0.0, 1.0, 0.0])}
        boxes = tuple(getattr(p3, n) for n in ('BoxGeometry', 'BoxBufferGeometry') if hasattr(p3, n))
        cyls = tuple(getattr(p3, n) for n in ('CylinderGeometry', 'CylinderBufferGeometry') if hasattr(p3, n))
        if isinstance(g, boxes):
            o['type'] = 'box'
            o['extents'] = np.abs(R) @ (np.array([float(g.width), float(g.height), float(g.depth)]) * scale)
        elif isinstance(g, cyls):
            o['type'] = 'cyl'
            o['rt'], o['rb'] = float(g.radiusTop) * scale[0], float(g.radiusBottom) * scale[0]
            o['h'] = float(g.height) * scale[1]
            o['theta'] = float(g.thetaLength)
            o['uniform'] = bool(scale[0] == scale[2])
        else:
            o['type'] = 'other'
        return o
    return {'kind': 'other', 'cls': type(child).__name__}


def _hex(c):
    c = str(c).strip().lower()
    if len(c) == 4 and c.startswith('#'):
        c = '#' + ''.join(ch * 2 for ch in c[1:])
    return c


def _close(got, want, mag):
    return abs(got - want) <= REL * mag


def _walk_widgets(w, p3, seen):
    seen.append(type(w).__name__)
    for c in getattr(w, 'children', ()) or ():
        if not isinstance(c, p3.Object3D) and hasattr(c, 'comm'):
            _walk_widgets(c, p3, seen)


# ============================================================================ the judge of one replayed call
class Judge:
    def __init__(self, ctx, p3, rec, view):
        self.ctx, self.p3, self.rec, self.view = ctx, p3, rec, view
        self.obs = {'calls': 0, 'components_compared': 0, 'refusals': 0, 'far_below_5x_distance': 0,
                    'disk_thickness_over_diameter': set(), 'far_over_5x_distance_min': None,
                    'components_dict_modified': 0, 'pixel_size_received': 0, 'scene_read_after_exception': 0,
                    'cylinder_theta_not_full': 0}
        self.refs = {}
        self.far_by_set = {}
        self.nfig = 0

    def find(self, key, detail):
        self.ctx.growth_finding(f'{PRE}: {key}', detail)

    # -------------------------------------------------------------- reference: plopp on the same data
    def reference(self, call, da, variant, cbar):
        ps = self.expected_ps(call)
        kw = {'pos': variant['name'], 'pixel_size': ps, 'cbar': True if cbar is None else cbar}
        fig = self.rec.real(da, **kw)
        children = list(fig.canvas.scene.children)
        ref = {'types': [type(c).__name__ for c in children]}
        pts = [c for c in children if isinstance(c, self.p3.Points)]
        cam = [c for c in children if isinstance(c, self.p3.PerspectiveCamera)]
        if len(pts) != 1 or len(cam) != 1:
            raise MachineryError('plopp.scatter3d does not give one Points object and one camera')
        ref['points'] = np.array(pts[0].geometry.attributes['position'].array)
        ref['size'] = float(pts[0].material.size)
        ref['far'] = float(cam[0].far)
        ref['cam'] = np.array([float(v) for v in cam[0].position])
        self.done(fig)
        return ref

    def done(self, fig):
        try:
            fig.close()
        except Exception:  # noqa: BLE001
            pass
        self.nfig += 1
        if self.nfig % 20 == 0:
            import ipywidgets

            ipywidgets.Widget.close_all()

    @staticmethod
    def expected_ps(call):
        psq = call.cloud['psq']
        r = math.isqrt(psq)
        root = Fraction(r) if r * r == psq else Fraction(math.sqrt(psq))
        return float(root / SCALE[call.unit])

    # -------------------------------------------------------------- one call
    def replay(self, call, variant, data=None, cbar=False, tag=''):
        ctx, rng = self.ctx, self.ctx.rng
        da, vals, token = data if data is not None else build_data(rng, call, variant)
        flav = {'ints': rng.random() < 0.3, 'upper': rng.random() < 0.2}
        comps = build_components(rng, call, flav)
        kw = {}
        if variant['name'] != 'position':
            kw['positions'] = variant['name']
        if call.ps != 0:
            kw['pixel_size'] = float(Fraction(call.ps, SCALE[call.unit]))
        if cbar is not None:
            kw['cbar'] = cbar
        if comps:
            kw['components'] = comps
        else:
            how = rng.choice(('absent', 'none', 'empty'))         # components = None / {} adds nothing
            if how != 'absent':
                kw['components'] = None if how == 'none' else {}
        rkey = (call.det_key(), token, cbar)
        if rkey not in self.refs:
            self.refs[rkey] = self.reference(call, da, variant, cbar)
        ref = self.refs[rkey]
        if data is None:
            del self.refs[rkey]                                   # data built for this call only
        self.token = token
        before = da.copy(deep=True)
        comps_before = {n: {k: (v.copy() if isinstance(v, sc.Variable) else v) for k, v in d.items()} for n, d in comps.items()}
        self.rec.reset()
        fig, exc = None, None
        try:
            fig = self.view(da, **kw)
        except Exception as e:  # noqa: BLE001
            exc = e
        self.obs['calls'] += 1
        ctx.case(nontrivial_id=('iv', call.set_key(), tuple(n for n, _ in call.order), variant['name'], variant['extras']))
        pos_unit = call.unit
        other_c = [n for n, s in call.order if s['center'][0] != pos_unit]
        other_s = [n for n, s in call.order if s['size'][0] != pos_unit]
        klass = []
        if other_c:
            klass.append('a centre in another length unit than the positions')
        if other_s:
            klass.append('a size in another length unit than the positions')
        if variant['data2d']:
            klass.append('data with an extra dimension')
        if variant['name'] != 'position':
            klass.append('positions under a custom name')
        if flav['ints'] and call.order:
            klass.append('integer-typed numbers')
        detail = {'unit': call.unit, 'pixels': call.pix, 'pixel_size': call.ps, 'components': call.order,
                  'variant': variant, 'source': call.source, 'kwargs': sorted(kw)}
        try:
            self.judge(call, variant, da, vals, before, comps, comps_before, kw, fig, exc, ref, klass, detail, flav)
        finally:
            for f in {id(x): x for x in (fig, self.rec.fig) if x is not None}.values():
                self.done(f)
            self.rec.reset()

    def judge(self, call, variant, da, vals, before, comps, comps_before, kw, fig, exc, ref, klass, detail, flav):
        p3, obs = self.p3, self.obs
        pos_unit = call.unit
        # ---- the input is not modified
        try:
            same = sc.identical(da, before)
        except Exception:  # noqa: BLE001
            same = False
        if not same:
            self.find('the input data array is modified by the call', detail)
        for n, d in comps.items():
            b = comps_before[n]
            if list(d) != list(b) or any(not (sc.identical(d[k], b[k]) if isinstance(b[k], sc.Variable) else d[k] == b[k]) for k in b):
                obs['components_dict_modified'] += 1
        # ---- outcome class
        if call.phase == 'refused':
            obs['refusals'] += 1
            where = 'first entry' if len(call.order) == 1 else 'after other components'
            if exc is None:
                self.find(f'a component of unknown type is accepted, no exception [{where}]', detail)
            elif not isinstance(exc, ValueError):
                self.find(f'a component of unknown type raises {type(exc).__name__} instead of ValueError [{where}]',
                          {**detail, 'exception': repr(exc)[:300]})
            elif call.refused not in str(exc):
                self.find('the ValueError for an unknown type does not name the component', {**detail, 'exception': str(exc)[:300]})
            shown = fig if fig is not None else self.rec.fig
            if shown is not None:
                added = list(shown.canvas.scene.children)[len(ref['types']):]
                texts = [describe(p3, c).get('text') for c in added if isinstance(c, p3.Sprite)]
                if call.refused in texts:
                    self.find('a label of the refused component is in the scene', detail)
                if exc is None:
                    # the call went on: what was drawn for the refused component?  (only count objects)
                    nknown = len(call.known)
                    if len(added) != 2 * nknown:
                        self.find('objects are drawn for a component of unknown type', {**detail, 'added': len(added)})
            return
        shown = fig
        if exc is not None:
            if isinstance(exc, sc.UnitError) and any(s['center'][0] != pos_unit for _, s in call.order):
                k = 'a component centre is given in another length unit than the pixel positions'
            else:
                k = ', '.join(klass) or ('no components' if not call.order else 'centres and sizes in the unit of the positions')
            self.find(f'raised {type(exc).__name__} where a figure is documented [{k}]', {**detail, 'exception': repr(exc)[:300]})
            shown = self.rec.fig
            if shown is None:
                return
            obs['scene_read_after_exception'] += 1
        try:
            children = list(shown.canvas.scene.children)
        except Exception as e:  # noqa: BLE001
            self.find('the returned object has no canvas.scene.children', {**detail, 'exception': repr(e)[:200]})
            return
        # ---- the pixel plot: as plopp.scatter3d draws the same data
        nref = len(ref['types'])
        head = children[:nref]
        if [type(c).__name__ for c in head] != ref['types']:
            self.find('the objects of the pixel plot differ from plopp.scatter3d of the same data', {**detail,
                      'got': [type(c).__name__ for c in children][:12], 'reference': ref['types']})
            return
        pts = [c for c in head if isinstance(c, p3.Points)][0]
        arr = np.array(pts.geometry.attributes['position'].array)
        if arr.shape != ref['points'].shape or not np.array_equal(arr, ref['points']):
            self.find('pixel positions in the scene differ from plopp.scatter3d at the positions coordinate'
                      + (' [positions under a custom name]' if variant['name'] != 'position' else ''), detail)
        if not variant['data2d']:
            want32 = vals.astype('float32')
            if arr.shape != want32.shape or not np.allclose(arr, want32, rtol=1e-6, atol=1e-6 * float(np.abs(want32).max() or 1.0)):
                self.find('pixel positions in the scene differ from the positions coordinate'
                          + (' [positions under a custom name]' if variant['name'] != 'position' else ''), detail)
        else:
            names = []
            _walk_widgets(shown, p3, names)
            slider = any('slider' in n.lower() for n in names)
            if not slider and arr.shape[0] != vals.shape[0]:
                self.find('(data with an extra dimension) no slider is added to navigate the extra dimension; '
                          'every pixel is drawn once per element of that dimension', {**detail, 'points': int(arr.shape[0]),
                                                                                       'pixels': int(vals.shape[0])})
            elif not slider:
                self.find('(data with an extra dimension) no slider is added to navigate the extra dimension', detail)
        want_size = ref['size']
        # the guess is a difference of two rounded positions: up to 2 ulp of the coordinates are lost in it
        want_ps = self.expected_ps(call)
        loose = max(1.0, 8 * 2.0 ** -52 * float(np.abs(vals[:2]).max()) / (want_ps * REL)) if (call.ps == 0 and want_ps > 0) else 1.0
        if not _close(float(pts.material.size), want_size, abs(want_size) * loose):
            given = 'pixel_size given' if call.ps else 'pixel_size not given'
            self.find(f'marker size differs from plopp.scatter3d with the documented pixel size [{given}]',
                      {**detail, 'got': float(pts.material.size), 'want': want_size})
        if self.rec.kwargs is not None and 'pixel_size' in self.rec.kwargs:
            obs['pixel_size_received'] += 1
            got_ps = self.rec.kwargs['pixel_size']
            try:
                ok = got_ps is not None and _close(float(got_ps), want_ps, abs(want_ps) * loose)
            except Exception:  # noqa: BLE001
                ok = False
            if not ok:
                given = 'pixel_size given' if call.ps else 'pixel_size not given'
                self.find(f'pixel size handed to plopp.scatter3d differs from the documented one [{given}]',
                          {**detail, 'got': repr(got_ps), 'want': want_ps})
        # ---- the added objects
        added = [describe(p3, c) for c in children[nref:]]
        labels = [o for o in added if o['kind'] == 'label']
        shapes = [o for o in added if o['kind'] == 'shape']
        others = [o for o in added if o['kind'] == 'other']
        if others or len(labels) != len(call.known) or len(shapes) != len(call.known):
            self.find('the scene does not gain exactly one shape and one label per component',
                      {**detail, 'shapes': len(shapes), 'labels': len(labels), 'others': [o['cls'] for o in others],
                       'components': len(call.known)})
        self.match(call, shapes, labels, detail)
        obs['components_compared'] += len(call.known)
        # ---- the camera
        if exc is None and call.known:
            cam = [c for c in head if isinstance(c, p3.PerspectiveCamera)][0]
            far = float(cam.far)
            campos = np.array([float(v) for v in cam.position])
            if far < ref['far'] * (1 - REL):
                self.find('the far plane of the camera comes closer when components are added', {**detail, 'far': far, 'plot': ref['far']})
            dmax = math.sqrt(call.reach) / SCALE[pos_unit]
            if far < dmax * (1 - REL):
                self.find('the far plane of the camera does not reach the furthest component', {**detail, 'far': far, 'distance': dmax})
            else:
                for n, _ in call.known:
                    c = np.array([float(_frac(v, 1, pos_unit)) for v in call.shapes[n]['at']])
                    if float(np.linalg.norm(c - campos)) > far * (1 + REL):
                        self.find('a component lies beyond the far plane of the camera (it is not displayed)',
                                  {**detail, 'far': far, 'component': n})
                        break
            if dmax > 0:
                ratio = far / (5 * dmax)
                if ratio < 1 - REL:
                    obs['far_below_5x_distance'] += 1
                m = obs['far_over_5x_distance_min']
                obs['far_over_5x_distance_min'] = ratio if m is None else min(m, ratio)
            self.far_by_set.setdefault((call.set_key(), self.token), []).append((far, [n for n, _ in call.order]))

    # -------------------------------------------------------------- shapes and labels of the components
    def tags(self, call, s):
        cu = 'centre in the unit of the positions' if s['center'][0] == call.unit else 'centre in another length unit'
        su = ('scalar' if s['size'][1] == 'scalar' else 'vector') + ' size in ' + (
            'the unit of the positions' if s['size'][0] == call.unit else 'another length unit')
        return cu, su

    def shape_checks(self, call, name, s, o):
        """Attribute by attribute: does the observed shape o show component `name`?"""
        e = call.shapes[name]
        unit = call.unit
        at = [float(_frac(v, 1, unit)) for v in e['at']]
        dims = [float(_frac(v, 1, unit)) for v in e['dims']]
        mag = max(max(abs(v) for v in at), 0.0)
        res = {}
        res['place'] = all(_close(o['at'][i], at[i], mag) for i in range(3)) if mag > 0 else all(v == 0.0 for v in o['at'])
        t = s['type']
        res['type'] = (o['type'] == 'box') if t == 'box' else (o['type'] == 'cyl')
        dm = max(dims)
        if not res['type']:
            res['box'] = res['turn'] = False
        elif t == 'box':
            res['box'] = all(_close(float(o['extents'][i]), dims[i], dm) for i in range(3))
            res['turn'] = True
        else:
            ok = _close(2 * o['rt'], dims[0], dm) and _close(2 * o['rb'], dims[0], dm) and o['uniform']
            if t == 'cylinder':
                ok = ok and _close(o['h'], dims[1], dm)
            else:
                ok = ok and o['h'] < o['rt']          # "thin": only judged as flatter than its radius
            res['box'] = ok
            axes = e['axes']['$set']
            res['turn'] = any(abs(abs(float(o['axis'][a - 1])) - 1.0) <= REL for a in axes)
        res['colour'] = _hex(o['colour']) == _hex(e['colour'])
        res['wire'] = bool(o['wire']) == bool(e['wire'])
        return res

    def beam_tag(self, call, name):
        e = call.shapes[name]
        axes = e['axes']['$set']
        delta = [e['at'][i] - call.centre[i] for i in range(3)]
        if all(d == 0 for d in delta):
            return 'component exactly at the detector centre'
        if len(axes) > 1:
            return 'two or three axes equally distant'
        a = axes[0] - 1
        return f'beam along {"-" if delta[a] < 0 else "+"}{"xyz"[a]}'

    def match(self, call, shapes, labels, detail):
        obs = self.obs
        settings = dict(call.known)
        # labels: by text
        for name, s in call.known:
            cu, su = self.tags(call, s)
            mine = [l for l in labels if l['text'] == name]
            if len(mine) != 1:
                self.find('no text label carries the name of a component' if not mine else 'more than one label for a component',
                          {**detail, 'component': name, 'texts': [l['text'] for l in labels]})
                continue
            e = call.labels[name]
            want = [float(_frac(v, e['den'], call.unit)) for v in e['at']]
            c = [float(_frac(v, 1, call.unit)) for v in call.shapes[name]['at']]
            up = abs(want[1] - c[1])
            mag = max(max(abs(v) for v in c), up)
            got = mine[0]['at']
            okx = _close(got[0], want[0], mag) and _close(got[2], want[2], mag)
            oky = _close(got[1], want[1], mag)
            if not okx:
                self.find(f'the label is not above its component (x / z differ from the centre) [{cu}]',
                          {**detail, 'component': name, 'got': got, 'want': want})
            elif not oky:
                self.find(f'the label is not 0.8 x size y above the centre of its component [{su}]',
                          {**detail, 'component': name, 'got': got, 'want': want})
        # shapes: perfect matches first, the rest by the number of agreeing attributes
        todo = list(call.known)
        free = list(shapes)
        rest = []
        for name, s in todo:
            hit = None
            for o in free:
                if o['kind'] == 'shape' and all(self.shape_checks(call, name, s, o).values()):
                    hit = o
                    break
            if hit is not None:
                free.remove(hit)
                self.observe_shape(s, hit)
            else:
                rest.append((name, s))
        for name, s in rest:
            cu, su = self.tags(call, s)
            if not free:
                self.find('no shape object for a component', {**detail, 'component': name})
                continue
            scored = [(self.shape_checks(call, name, s, o), o) for o in free]
            scored.sort(key=lambda r: (-int(r[0]['place']), -sum(r[0].values())))
            res, o = scored[0]
            free.remove(o)
            t = s['type']
            e = call.shapes[name]
            info = {**detail, 'component': name, 'observed': {k: (v.tolist() if isinstance(v, np.ndarray) else v) for k, v in o.items()},
                    'expected_mm': {'at': e['at'], 'dims': e['dims'], 'axes': e['axes']['$set'], 'colour': e['colour'], 'wire': e['wire']}}
            if not res['place']:
                self.find(f'the {t} is not centred at the requested center expressed in the unit of the positions [{cu}]', info)
            if not res['type']:
                self.find(f'the shape object is not a {t}', info)
            elif not res['box']:
                self.find(f'the {t} does not have the requested bounding box [{su}]', info)
            if res['type'] and not res['turn']:
                if t == 'disk':
                    self.find(f'the axis of the disk is not along the beam (coordinate axis of largest distance to the '
                              f'detector centre) [{self.beam_tag(call, name)}]', info)
                else:
                    self.find('the axis of the cylinder is not along y', info)
            if not res['colour']:
                self.find(f'the colour of the shape differs from the request [{"default" if s["style"][0] == "none" else "color given"}]', info)
            if not res['wire']:
                w = {'none': 'default', 'yes': 'True', 'no': 'False'}[s['style'][1]]
                self.find(f'wireframe / solid differs from the request [wireframe {w}]', info)
            if all(res.values()):
                raise MachineryError('shape matching is inconsistent')

    def observe_shape(self, s, o):
        if s['type'] == 'disk' and o['rt'] > 0:
            self.obs['disk_thickness_over_diameter'].add(round(o['h'] / (2 * o['rt']), 6))
        if s['type'] == 'cylinder' and abs(o['theta'] - 2 * math.pi) > 1e-9:
            self.obs['cylinder_theta_not_full'] += 1

    # -------------------------------------------------------------- the same set in another dict order
    def judge_orders(self):
        for (key, _), runs in self.far_by_set.items():
            fars = [f for f, _ in runs]
            if len(runs) > 1 and max(fars) - min(fars) > REL * max(fars):
                self.find('the far plane of the camera depends on the order of the components dict', {'set': key, 'runs': runs})


# ============================================================================ directed probes (docstring sentences)
def probes(ctx, judge, view, p3):
    """Sentences of the docstring that the state machine does not cover, and observations where it is silent."""
    pos = sc.vectors(dims=['pix'], values=np.array([[0.0, 0.0, 0.0], [0.5, 0.0, 0.0], [1.0, 0.0, 0.0]]), unit='m')
    da = sc.DataArray(sc.array(dims=['pix'], values=[1.0, 2.0, 3.0], unit='counts'), coords={'position': pos})
    comp = {'sample': {'center': sc.vector([0.5, 0.0, -2.0], unit='m'), 'size': sc.scalar(0.25, unit='m'), 'type': 'box'}}
    obs = judge.obs
    # "this can be changed to automatic scaling using aspect="equal""
    for kw, what in (({'aspect': 'equal'}, 'aspect="equal" (offered by the docstring)'), ({}, 'default colour bar'),
                     ({'cbar': False, 'cmap': 'magma', 'norm': 'log'}, 'keyword arguments of plopp.scatter3d')):
        try:
            fig = view(da, components=comp, **kw)
            n = len(list(fig.canvas.scene.children))
            judge.done(fig)
            if n < 2:
                judge.find(f'empty scene [{what}]', {})
        except Exception as e:  # noqa: BLE001
            judge.find(f'raised {type(e).__name__} where a figure is documented [{what}]', {'exception': repr(e)[:300]})
        ctx.case(nontrivial_id=('iv-probe', what))
    # observations only: one pixel (no second pixel to guess from), coincident first pixels
    for label, d in (('single_pixel', da['pix', 0:1]),
                     ('coincident_first_pixels', sc.DataArray(da.data, coords={'position': sc.vectors(
                         dims=['pix'], values=np.array([[0.0, 0, 0], [0.0, 0, 0], [1.0, 0, 0]]), unit='m')}))):
        try:
            judge.rec.reset()
            fig = view(d, cbar=False)
            obs[label] = {'outcome': 'figure', 'pixel_size_received': repr((judge.rec.kwargs or {}).get('pixel_size'))}
            judge.done(fig)
        except Exception as e:  # noqa: BLE001
            obs[label] = {'outcome': type(e).__name__}


# ============================================================================ entry point
def _sample_emit(rng, calls, n):
    """A sample that covers every (type, centre) and every (type, size) of the grid, then random."""
    idx = list(range(len(calls)))
    rng.shuffle(idx)
    seen, pick = set(), []
    for i in idx:
        c = calls[i]
        if not c.order:
            k = [('empty', c.unit)]
        else:
            s = c.order[0][1]
            k = [(s['type'], json.dumps(s['center'])), (s['type'], json.dumps(s['size']), c.unit),
                 (s['type'], json.dumps(s['style']))]
        if any(x not in seen for x in k):
            seen.update(k)
            pick.append(i)
    chosen = set(pick)
    for i in idx:
        if len(pick) >= n:
            break
        if i not in chosen:
            pick.append(i)
    return [calls[i] for i in pick]


def run(ctx):
    rng = ctx.rng
    par = _Par(ctx)
    seed = ctx.seed * 7919 + 11
    nsim = 260 if ctx.thorough else 12

    done_runs = []

    def tlc(cfg, **kw):
        kw.setdefault('workers', 1)
        kw.setdefault('timeout', 600)
        r = ctx.tlc(SPEC, cfg, env=JAVA_ENV, count=False, **kw)
        if not kw.get('expect_error'):
            done_runs.append(r)
        return r

    j_emit = par.start(lambda: tlc('Growth_MC_InstrumentView_emit.cfg'))
    j_pairs = par.start(lambda: tlc('Growth_MC_InstrumentView_pairs.cfg'))
    j_sim = par.start(lambda: tlc('Growth_MC_InstrumentView_sim.cfg', simulate=f'num={nsim}', depth=12,
                                  extra=['-seed', str(seed)]))

    def checks():
        # the model itself (after the exports; next to it one negative control at a time: <= 4 busy threads)
        for j in (j_emit, j_pairs, j_sim):
            j['t'].join()
        main_cfg = 'Growth_MC_InstrumentView_thorough.cfg' if ctx.thorough else 'Growth_MC_InstrumentView.cfg'
        res = tlc(main_cfg, workers=3 if ctx.thorough else 2)
        require_ok(ctx, res, f'InstrumentView model ({main_cfg})')
        if ctx.thorough:
            require_ok(ctx, tlc('Growth_MC_InstrumentView.cfg', workers=2), 'InstrumentView model (quick grid)')
        return res

    def negatives():
        for j in (j_emit, j_pairs, j_sim):
            j['t'].join()
        for bug in (NEGS if ctx.thorough else QUICK_NEGS):
            r = tlc(f'Growth_Neg_InstrumentView_{bug}.cfg', expect_error=True)
            if NEGS[bug] not in r.error:
                raise MachineryError(f'negative control {bug}: expected {NEGS[bug]} to be violated, TLC says: {r.error}')

    j_checks = par.start(checks)
    par.start(negatives)

    try:
        import plopp
        import pythreejs as p3
        from scippneutron.instrument_view import instrument_view
    except Exception as e:  # noqa: BLE001
        ctx.growth_finding(f'{PRE}: the module cannot be imported ({type(e).__name__})', {'exception': repr(e)[:300]})
        par.join_all()
        return

    rec = Recorder(plopp.scatter3d)
    judge = Judge(ctx, p3, rec, instrument_view)
    plopp.scatter3d = rec
    try:
        probes(ctx, judge, instrument_view, p3)          # (while TLC is still writing the calls)
        data_cache = {}

        def data_for(call, vi):
            k = (call.det_key(), vi)
            if k not in data_cache:
                data_cache[k] = build_data(rng, call, VARIANTS[vi])
            return data_cache[k]

        # ---- random calls beyond the grids
        res = par.join(j_sim)
        require_ok(ctx, res, 'InstrumentView random calls')
        sim = [Call(r, 'sim') for r in res.tagged('CALL')]
        if len(sim) < nsim:
            raise MachineryError(f'only {len(sim)} random calls exported')
        for i, call in enumerate(sim):
            vi = rng.choice((0, 0, 1, 2, 2, 3))
            v = dict(VARIANTS[vi])
            v['extras'] = rng.choice((0, 1, 5, 40, 149)) if not v['data2d'] else v['extras']
            judge.replay(call, v, cbar=False)
        # ---- single-component calls of the full grid
        res = par.join(j_emit)
        require_ok(ctx, res, 'InstrumentView export of single-component calls')
        emit = [Call(r, 'emit') for r in res.tagged('CALL')]
        if len(emit) < 1000:
            raise MachineryError(f'only {len(emit)} single-component calls exported')
        chosen = emit[::2] if ctx.thorough else _sample_emit(rng, emit, 36)
        for i, call in enumerate(chosen):
            vi = i % len(VARIANTS)
            judge.replay(call, VARIANTS[vi], data=data_for(call, vi), cbar=None if i % 40 == 7 else False)
        ctx.sample({'single_component_call': {'unit': chosen[0].unit, 'pixels_mm': chosen[0].pix, 'components': chosen[0].order,
                                              'expected_shapes_mm': list(chosen[0].shapes.values())}})
        n_emit = len(chosen)

        # ---- pairs: both dict orders of the same set on the same data
        res = par.join(j_pairs)
        require_ok(ctx, res, 'InstrumentView export of two-component calls')
        pairs = [Call(r, 'pairs') for r in res.tagged('CALL')]
        groups = {}
        for c in pairs:
            groups.setdefault(c.set_key(), []).append(c)
        keys = sorted(groups)
        rng.shuffle(keys)
        two = [k for k in keys if len(groups[k][0].order) == 2]
        if len(two) < 100:
            raise MachineryError(f'only {len(two)} two-component sets exported')
        # near + far sets first (all lengths in the unit of the positions): they decide whether the far plane follows
        # the FURTHEST component
        def spread(k):
            c = groups[k][0]
            d = [sum((a - b) ** 2 for a, b in zip(c.shapes[n]['at'], c.centre)) for n, _ in c.known]
            plain = all(s['center'][0] == c.unit for _, s in c.order)
            ext = max(sum((a - b) ** 2 for a, b in zip(p, c.centre)) for p in c.pix)       # small detector: near far plane
            return (not plain, -Fraction(max(d) - min(d), ext) if len(d) == 2 else 0)
        lead = sorted(two, key=spread)[:6]
        take = two[::3] if ctx.thorough else lead[:4] + [k for k in two if k not in lead][:3]
        n_pairs = 0
        for gi, k in enumerate(take):
            vi = (0, 2, 1)[gi % 3]
            for call in groups[k]:
                judge.replay(call, VARIANTS[vi], data=data_for(call, vi), cbar=False)
                n_pairs += 1
        judge.judge_orders()

        ctx.traces(n_emit + n_pairs + len(sim))
    finally:
        plopp.scatter3d = rec.real
        try:
            import ipywidgets

            ipywidgets.Widget.close_all()
        except Exception:  # noqa: BLE001
            pass
    par.join(j_checks)
    par.join_all()
    for r in done_runs:
        ctx.states += r.generated
        ctx.distinct_states += r.distinct
        ctx.transitions += max(r.generated - 1, 0)
    if rec.ncalls == 0:
        ctx.assume('instrument_view did not go through plopp.scatter3d: the pixel size it uses was observed only through the marker size')
    obs = dict(judge.obs)
    obs['disk_thickness_over_diameter'] = sorted(obs['disk_thickness_over_diameter'])[:8]
    obs.update({'single_component_calls_replayed': n_emit, 'two_component_calls_replayed': n_pairs, 'random_calls_replayed': len(sim)})
    ctx.extra['instrument_view'] = obs
    ctx.assume('instrument_view: whether components listed before a refused one are already in the (never returned) scene is not judged')
    ctx.assume('instrument_view: the pixel plot is compared with plopp.scatter3d(data, pos=..., pixel_size=...) of the same data '
               '(plopp is the documented delegate and is not under test)')
    ctx.assume('instrument_view: the factor 5 between the far plane and the furthest component is not documented; only '
               '"never closer than before, never nearer than a component" is judged')
