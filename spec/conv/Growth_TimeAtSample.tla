------------------------- MODULE Growth_TimeAtSample -------------------------
(* Growth module: scippneutron.conversion.tof.time_at_sample_from_tof                     *)
(*     t_sample = t_pulse + tof - L2 / v,      v = h / (m_n lambda)                        *)
(* as a state machine of one neutron flight in natural units (h = m_n = 1, so that        *)
(* v = 1 / lambda): the neutron is emitted at t_pulse with speed v, flies L1 to the         *)
(* sample and L2 to the detector.  The kernel is given the detection-side quantities       *)
(* (tof, L2, lambda) and must return the moment the neutron actually passed the sample.    *)
(* Rationals are pairs <<num, den>> with den > 0.                                          *)
EXTENDS Integers, Sequences, TLC

CONSTANTS TPulse,     \* set of integer pulse times
          L1s, L2s,   \* sets of positive integer path lengths
          Speeds,     \* set of rational speeds <<n, d>>
          Bug         \* "none" | "l1" (negative control: subtracts the L1 leg) | "plus"

VARIABLES phase, tp, l1, l2, v, now, passed, answer
vars == <<phase, tp, l1, l2, v, now, passed, answer>>

RAdd(a, b) == <<a[1] * b[2] + b[1] * a[2], a[2] * b[2]>>
RSub(a, b) == <<a[1] * b[2] - b[1] * a[2], a[2] * b[2]>>
RMul(a, b) == <<a[1] * b[1], a[2] * b[2]>>
RDiv(a, b) == <<a[1] * b[2], a[2] * b[1]>>
REq(a, b) == a[1] * b[2] = b[1] * a[2]
RInt(n) == <<n, 1>>
NoAnswer == <<0, 0>>

Init == /\ phase = "source" /\ tp \in TPulse /\ l1 \in L1s /\ l2 \in L2s /\ v \in Speeds
        /\ now = RInt(tp) /\ passed = NoAnswer /\ answer = NoAnswer

ReachSample == /\ phase = "source"
               /\ now' = RAdd(now, RDiv(RInt(l1), v))
               /\ passed' = now'
               /\ phase' = "sample"
               /\ UNCHANGED <<tp, l1, l2, v, answer>>

Detect == /\ phase = "sample"
          /\ now' = RAdd(now, RDiv(RInt(l2), v))
          /\ phase' = "detector"
          /\ UNCHANGED <<tp, l1, l2, v, passed, answer>>

(* what the detector side knows *)
Tof == RSub(now, RInt(tp))
Lambda == RDiv(RInt(1), v)                      \* h / (m_n v) with h = m_n = 1

Kernel(pulse, tof, L2, lam) ==
    LET leg == RMul(RInt(IF Bug = "l1" THEN l1 ELSE L2), lam)     \* L2 / v = L2 * lambda * m_n / h
    IN IF Bug = "plus" THEN RAdd(RAdd(RInt(pulse), tof), leg)
       ELSE RSub(RAdd(RInt(pulse), tof), leg)

Convert == /\ phase = "detector"
           /\ answer' = Kernel(tp, Tof, l2, Lambda)
           /\ phase' = "converted"
           /\ UNCHANGED <<tp, l1, l2, v, now, passed>>

Next == ReachSample \/ Detect \/ Convert
Spec == Init /\ [][Next]_vars

-----------------------------------------------------------------------------
(* the kernel reports the moment the neutron passed the sample *)
AnswerIsPassage == phase = "converted" => REq(answer, passed)
(* equivalently: pulse time + tof * L1 / (L1 + L2), and it lies between emission and detection *)
Interpolation == phase = "converted" =>
    REq(answer, RAdd(RInt(tp), RMul(Tof, <<l1, l1 + l2>>)))
Between == phase = "converted" =>
    /\ answer[1] * 1 >= tp * answer[2]
    /\ answer[1] * now[2] <= now[1] * answer[2]

(* export for the replay into the implementation *)
Emit == phase = "converted" => PrintT(<<"FLIGHT", tp, l1, l2, v, Tof, Lambda, answer>>)
=============================================================================
