---------------------- MODULE Growth_MC_Emit_FrameBounds ----------------------
EXTENDS Growth_Emit_FrameBounds

MC_Pulses == { [t0 |-> 0, t1 |-> 4, w0 |-> 0, w1 |-> 4],
               [t0 |-> 1, t1 |-> 3, w0 |-> 1, w1 |-> 4],
               [t0 |-> 2, t1 |-> 7, w0 |-> 2, w1 |-> 4] }

Single(E) == { <<w>> : w \in { x \in E \X E : x[1] < x[2] } }
Double(E) == { <<a, b>> : a \in { x \in E \X E : x[1] < x[2] }, b \in { x \in E \X E : x[1] < x[2] } }
Disjoint2(E) == { s \in Double(E) : s[1][2] < s[2][1] }
WinSets == Single({0, 4, 8, 12, 16, 20, 24, 28}) \cup Single({3, 7, 10, 13, 17, 22})
           \cup Disjoint2({0, 4, 8, 13, 17, 24})
WinSetsQ == Single({0, 8, 16, 24}) \cup Single({3, 10, 17}) \cup Single({4, 12}) \cup Disjoint2({0, 4, 13, 20})
                                \cup Disjoint2({4, 8, 13, 24})
MC_ChoppersQ == { [d |-> d, win |-> w] : d \in {2, 4, 6}, w \in WinSetsQ }
MC_PulsesQ == { [t0 |-> 0, t1 |-> 4, w0 |-> 0, w1 |-> 4], [t0 |-> 1, t1 |-> 3, w0 |-> 1, w1 |-> 4] }
MC_Choppers == { [d |-> d, win |-> w] : d \in {2, 4, 6}, w \in WinSets }
MC_Deltas == <<0, 1, 2, 5, -1, -2>>
=============================================================================
