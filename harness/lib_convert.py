"""Shared helpers for the convert() checks (C02, C06).

* builds real DataArrays / Datasets for an abstract configuration [o, t, s, m, x] of
  spec/conv/ConvertGraphDefs.tla with random, *mutually inconsistent* supplied coordinates;
* independent reference formulas (numpy float64, written from the physics: lambda = h t / (m L),
  E = m L^2 / (2 t^2), d = lambda / (2 sin theta), Q = 4 pi sin theta / lambda, ...), one per
  documented kernel, with the constants of harness/refmap.py;  they never call scippneutron;
* `run_cases` executes the real API for a chunk of emitted cases (used through multiprocessing).

Everything a worker returns is plain Python (picklable, JSON-able).
"""

from __future__ import annotations

import inspect
import zlib

import numpy as np

GEO11 = ('position', 'source_position', 'sample_position', 'incident_beam', 'scattered_beam',
         'L1', 'L2', 'Ltotal', 'two_theta', 'incident_energy', 'final_energy')
AUX = ('pulse_time', 'u_matrix', 'b_matrix', 'sample_rotation')
ORIGINS = ('tof', 'wavelength', 'energy', 'Q')
ORIGIN_UNIT = {'tof': 'us', 'wavelength': 'angstrom', 'energy': 'meV', 'Q': '1/angstrom'}
# documented output units (canonical input units: m, us, meV, angstrom, rad)
OUT_UNIT = {
    'incident_beam': 'm', 'scattered_beam': 'm', 'L1': 'm', 'L2': 'm', 'Ltotal': 'm',
    'two_theta': 'rad', 'wavelength': 'angstrom', 'energy': 'meV', 'dspacing': 'angstrom',
    'Q': '1/angstrom', 'Qx': '1/angstrom', 'Qy': '1/angstrom', 'Qz': '1/angstrom',
    'Q_vec': '1/angstrom', 'energy_transfer': 'meV', 'time_at_sample': 'us',
    'ub_matrix': '1/angstrom', 'hkl_vec': 'dimensionless', 'h': 'dimensionless',
    'k': 'dimensionless', 'l': 'dimensionless',
}
VALUE_RTOL = 1e-9  # DESIGN 5/C02: the value flag uses 1e-9 relative (rounding itself is C01/C03)


def supplied(mask: int):
    return [GEO11[i] for i in range(11) if (mask >> i) & 1]


def _consts():
    from .refmap import E_CHARGE, H, MN

    h, mn = float(H), float(MN)
    mev = float(E_CHARGE) * 1e-3  # J per meV
    return h, mn, mev


# --------------------------------------------------------------------------- data construction
def case_seed(seed, c):
    key = f"{seed}|{c['o']}|{c['t']}|{int(c['s'])}|{c['m']}|{int(c['x'])}"
    return zlib.crc32(key.encode()) + (seed << 32)


def _unit_vec_box(rng, shape=()):
    return rng.uniform(-4.0, 4.0, size=(*shape, 3))


def _rot(rng):
    q, r = np.linalg.qr(rng.normal(size=(3, 3)))
    q = q * np.sign(np.diag(r))
    if np.linalg.det(q) < 0:
        q[:, 0] = -q[:, 0]
    return q


def build_coords(c, rng):
    """Random coordinate values for configuration c (dict o,t,s,m,x).

    Returns (coords: name -> scipp Variable, S, T).  Supplied values are independent random numbers,
    so e.g. a supplied L1 differs from |incident_beam| and from |sample - source|: which of them the
    implementation used is visible in the result.
    Ranges (soundness): lengths 0.5..14 m, tof 1e4..5e4 us (so that t - t0 >= 2.9 ms for every
    admissible L and E >= 20 meV: the NaN region of energy_transfer is never touched),
    two_theta in [0.2, 2.9] rad, all other quantities positive and O(1..100)."""
    import scipp as sc

    o = c['o']
    S = int(rng.integers(2, 4))
    T = int(rng.integers(2, 4))
    edges = bool(rng.integers(0, 2))
    n_o = T + 1 if edges else T
    lo, hi = {'tof': (1.0e4, 5.0e4), 'wavelength': (0.5, 6.0), 'energy': (5.0, 100.0),
              'Q': (0.5, 10.0)}[o]
    two_d = (not edges) and rng.integers(0, 4) == 0
    if two_d:
        ov = np.sort(rng.uniform(lo, hi, size=(S, n_o)), axis=1)
        origin = sc.array(dims=['spectrum', o], values=ov, unit=ORIGIN_UNIT[o])
    else:
        origin = sc.array(dims=[o], values=np.sort(rng.uniform(lo, hi, size=n_o)), unit=ORIGIN_UNIT[o])
    coords = {o: origin}

    def far(make, ref, dmin=0.5):
        for _ in range(100):
            v = make()
            if np.all(np.linalg.norm(v - ref, axis=-1) >= dmin):
                return v
        raise RuntimeError('could not draw separated positions')

    sample = _unit_vec_box(rng)
    source = far(lambda: _unit_vec_box(rng), sample)
    pos = far(lambda: _unit_vec_box(rng, (S,)), sample)
    vals = {
        'position': lambda: sc.vectors(dims=['spectrum'], values=pos, unit='m'),
        'source_position': lambda: sc.vector(source, unit='m'),
        'sample_position': lambda: sc.vector(sample, unit='m'),
        'incident_beam': lambda: sc.vector(far(lambda: _unit_vec_box(rng), np.zeros(3)), unit='m'),
        'scattered_beam': lambda: sc.vectors(dims=['spectrum'],
                                             values=far(lambda: _unit_vec_box(rng, (S,)), np.zeros(3)),
                                             unit='m'),
        'L1': lambda: sc.scalar(float(rng.uniform(2.0, 10.0)), unit='m'),
        'L2': lambda: sc.array(dims=['spectrum'], values=rng.uniform(0.5, 4.0, size=S), unit='m'),
        'Ltotal': lambda: sc.array(dims=['spectrum'], values=rng.uniform(3.0, 14.0, size=S), unit='m'),
        'two_theta': lambda: sc.array(dims=['spectrum'], values=rng.uniform(0.2, 2.9, size=S), unit='rad'),
        'incident_energy': lambda: sc.scalar(float(rng.uniform(20.0, 100.0)), unit='meV'),
        'final_energy': lambda: sc.array(dims=['spectrum'], values=rng.uniform(20.0, 100.0, size=S),
                                         unit='meV'),
    }
    for name in GEO11:  # draw in fixed order so that values do not depend on the mask
        v = vals[name]()
        if (c['m'] >> GEO11.index(name)) & 1:
            coords[name] = v
    if c['x']:
        coords['pulse_time'] = sc.scalar(float(rng.uniform(0.0, 100.0)), unit='us')
        coords['u_matrix'] = sc.spatial.linear_transform(value=_rot(rng))
        b = np.triu(rng.uniform(0.05, 0.2, size=(3, 3))) + np.diag(rng.uniform(0.2, 0.5, size=3))
        coords['b_matrix'] = sc.spatial.linear_transform(value=b, unit='1/angstrom')
        coords['sample_rotation'] = sc.spatial.linear_transform(value=_rot(rng))
    return coords, S, T


def build_containers(c, seed):
    import scipp as sc

    rng = np.random.default_rng(case_seed(seed, c))
    coords, S, T = build_coords(c, rng)
    o = c['o']
    data = sc.array(dims=['spectrum', o], values=rng.uniform(0.0, 10.0, size=(S, T)), unit='counts')
    da = sc.DataArray(data, coords=coords)
    ds = sc.Dataset({'a': da, 'b': da * sc.scalar(2.0)})
    return da, ds


# --------------------------------------------------------------------------- numpy normal form
def to_np(var, o):
    """scipp Variable -> float64 array of shape (s, t, *elem) with s, t in {1, size}; the dimension
    that is not 'spectrum' is the origin / target dimension (transform_coords may have renamed it)."""
    dims = list(var.dims)
    v = np.asarray(var.values, dtype='float64')
    nd = len(dims)
    elem = v.shape[nd:]
    other = [d for d in dims if d != 'spectrum']
    if len(other) > 1:
        raise ValueError(f'unexpected dims {dims}')
    order = ([dims.index('spectrum')] if 'spectrum' in dims else []) + [dims.index(d) for d in other]
    v = np.transpose(v, order + list(range(nd, v.ndim)))
    s = var.sizes['spectrum'] if 'spectrum' in dims else 1
    t = var.sizes[other[0]] if other else 1
    return v.reshape(s, t, *elem)


def _norm(v):
    return np.sqrt(np.sum(v * v, axis=-1))


def _angle(a, b):
    cr = np.cross(a, b)
    return np.arctan2(_norm(cr), np.sum(a * b, axis=-1))


def reference_kernels():
    """kernel name -> f(**inputs as normal-form arrays) -> dict of outputs (normal form).
    Units: m, us, meV, angstrom, 1/angstrom, rad."""
    h, mn, mev = _consts()
    k_lt = h / mn * 1e-6 * 1e10  # lambda[A] = k_lt * t[us] / L[m]

    def e_of_v(L, t_us):  # kinetic energy in meV of a neutron covering L metres in t_us microseconds
        v = L / (t_us * 1e-6)
        return 0.5 * mn * v * v / mev

    def lam_from_e(E):  # angstrom
        return h / np.sqrt(2.0 * mn * E * mev) * 1e10

    def t0_us(L, E):
        return L * np.sqrt(mn / (2.0 * E * mev)) * 1e6

    def q_elements(wavelength, incident_beam, scattered_beam):
        ei = incident_beam / _norm(incident_beam)[..., None]
        ef = scattered_beam / _norm(scattered_beam)[..., None]
        q = 2.0 * np.pi / wavelength[..., None] * (ei - ef)
        return {'Qx': q[..., 0], 'Qy': q[..., 1], 'Qz': q[..., 2]}

    def hkl(Q_vec, ub_matrix, sample_rotation):
        m = np.linalg.inv(sample_rotation @ ub_matrix)
        return {'hkl_vec': np.einsum('...ij,...j->...i', m, Q_vec) / (2.0 * np.pi)}

    return {
        'straight_incident_beam': lambda source_position, sample_position:
            {'incident_beam': sample_position - source_position},
        'straight_scattered_beam': lambda position, sample_position:
            {'scattered_beam': position - sample_position},
        'L1': lambda incident_beam: {'L1': _norm(incident_beam)},
        'L2': lambda scattered_beam: {'L2': _norm(scattered_beam)},
        'two_theta': lambda incident_beam, scattered_beam:
            {'two_theta': _angle(incident_beam, scattered_beam)},
        'total_beam_length': lambda L1, L2: {'Ltotal': L1 + L2},
        'total_straight_beam_length_no_scatter': lambda source_position, position:
            {'Ltotal': _norm(position - source_position)},
        'wavelength_from_tof': lambda tof, Ltotal: {'wavelength': k_lt * tof / Ltotal},
        'energy_from_tof': lambda tof, Ltotal: {'energy': e_of_v(Ltotal, tof)},
        'dspacing_from_tof': lambda tof, Ltotal, two_theta:
            {'dspacing': k_lt * tof / Ltotal / (2.0 * np.sin(two_theta / 2.0))},
        'time_at_sample_from_tof': lambda pulse_time, tof, L2, wavelength:
            {'time_at_sample': pulse_time + tof - L2 * wavelength / k_lt},
        'Q_from_wavelength': lambda wavelength, two_theta:
            {'Q': 4.0 * np.pi * np.sin(two_theta / 2.0) / wavelength},
        'Q_elements_from_wavelength': q_elements,
        'Q_vec_from_Q_elements': lambda Qx, Qy, Qz:
            {'Q_vec': np.stack(np.broadcast_arrays(Qx, Qy, Qz), axis=-1)},
        'ub_matrix_from_u_and_b': lambda u_matrix, b_matrix: {'ub_matrix': u_matrix @ b_matrix},
        'hkl_vec_from_Q_vec': hkl,
        'hkl_elements_from_hkl_vec': lambda hkl_vec:
            {'h': hkl_vec[..., 0], 'k': hkl_vec[..., 1], 'l': hkl_vec[..., 2]},
        'energy_from_wavelength': lambda wavelength:
            {'energy': h * h / (2.0 * mn * (wavelength * 1e-10) ** 2) / mev},
        'dspacing_from_wavelength': lambda wavelength, two_theta:
            {'dspacing': wavelength / (2.0 * np.sin(two_theta / 2.0))},
        'wavelength_from_energy': lambda energy: {'wavelength': lam_from_e(energy)},
        'dspacing_from_energy': lambda energy, two_theta:
            {'dspacing': lam_from_e(energy) / (2.0 * np.sin(two_theta / 2.0))},
        'wavelength_from_Q': lambda Q, two_theta:
            {'wavelength': 4.0 * np.pi * np.sin(two_theta / 2.0) / Q},
        'energy_transfer_direct_from_tof': lambda tof, L1, L2, incident_energy:
            {'energy_transfer': incident_energy - e_of_v(L2, tof - t0_us(L1, incident_energy))},
        'energy_transfer_indirect_from_tof': lambda tof, L1, L2, final_energy:
            {'energy_transfer': e_of_v(L1, tof - t0_us(L2, final_energy)) - final_energy},
    }


_REF = None
# inputs of every kernel in documented order (mirrors the rule tables of ConvertGraphDefs.tla; used
# only to evaluate the provenance tree in dependency order)
_ELEM = {'position': 1, 'source_position': 1, 'sample_position': 1, 'incident_beam': 1,
         'scattered_beam': 1, 'Q_vec': 1, 'hkl_vec': 1, 'u_matrix': 2, 'b_matrix': 2,
         'sample_rotation': 2, 'ub_matrix': 2}


def _close(got, want, nelem):
    """norm-wise relative comparison over the element axes; shapes must broadcast to each other and
    `got` must carry at least the dimensions of `want`."""
    try:
        g, w = np.broadcast_arrays(got, want)
    except ValueError:
        return False, float('inf')
    if g.shape != got.shape:
        return False, float('inf')  # result lacks a dimension the formula depends on
    d = g - w
    if nelem:
        ax = tuple(range(-nelem, 0))
        num = np.sqrt(np.sum(d * d, axis=ax))
        den = np.sqrt(np.sum(w * w, axis=ax))
    else:
        num, den = np.abs(d), np.abs(w)
    if not (np.all(np.isfinite(g)) and np.all(np.isfinite(w))):
        return False, float('inf')
    with np.errstate(divide='ignore', invalid='ignore'):
        rel = np.where(den > 0, num / den, np.where(num == 0, 0.0, np.inf))
    worst = float(np.max(rel)) if rel.size else 0.0
    return worst <= VALUE_RTOL, worst


def evaluate_provenance(prov: dict, inputs: dict, result_coords, o):
    """Evaluate the spec's provenance tree (node -> kernel) with the reference formulas on the
    supplied values and compare every computed node that exists in `result_coords`.

    Returns (all_ok, worst_relative_error, first_bad_node)."""
    import scipp as sc

    global _REF
    if _REF is None:
        _REF = reference_kernels()
    have = {n: to_np(v, o) for n, v in inputs.items()}
    todo = dict(prov)
    ok, worst, bad = True, 0.0, None
    guard = 0
    while todo:
        guard += 1
        if guard > 50:
            return False, float('inf'), 'provenance tree not evaluable'
        for node, kernel in list(todo.items()):
            f = _REF.get(kernel)
            if f is None:
                return False, float('inf'), f'unknown kernel {kernel}'
            args = list(inspect.signature(f).parameters)
            if not all(a in have for a in args):
                continue
            out = f(**{a: have[a] for a in args})
            for k, v in out.items():
                have[k] = v
                todo.pop(k, None)
            todo.pop(node, None)
    for node in prov:
        if node not in result_coords:
            continue
        var = result_coords[node]
        try:
            if str(var.unit) != str(sc.Unit(OUT_UNIT[node])):
                var = var.to(unit=OUT_UNIT[node])
            got = to_np(var, o)
        except Exception:  # noqa: BLE001
            ok, worst, bad = False, float('inf'), bad or node
            continue
        good, rel = _close(got, have[node], _ELEM.get(node, 0))
        worst = max(worst, rel)
        if not good:
            ok, bad = False, bad or node
    return ok, worst, bad


# --------------------------------------------------------------------------- graph observation
def describe_graph(graph):
    """Canonical, hashable description of a conversion graph: sorted tuple of
    (outs, kernel, ins) with kernel = __name__ (prefixed by the module when it is not one of the
    two documented kernel modules)."""
    rules = []
    for key, f in graph.items():
        outs = (key,) if isinstance(key, str) else tuple(key)
        mod = getattr(f, '__module__', '?')
        name = getattr(f, '__name__', repr(f))
        if mod not in ('scippneutron.conversion.beamline', 'scippneutron.conversion.tof'):
            name = f'{mod}.{name}'
        try:
            sig = inspect.signature(f)
            ins = tuple(getattr(f, '__transform_coords_input_keys__', tuple(sig.parameters)))
        except (TypeError, ValueError):
            ins = ('?',)
        rules.append((outs, name, ins))
    return tuple(sorted(rules))


def _classify(exc):
    return 'RuntimeError' if type(exc) is RuntimeError else f'other:{type(exc).__name__}'


def _same_supplied(inp_coords, out_coords):
    """every supplied coordinate is still there with the supplied unit, dtype and values (dimension
    *names* may change: transform_coords renames the origin dimension)."""
    for n in inp_coords:
        if n not in out_coords:
            return False
        a, b = inp_coords[n], out_coords[n]
        if str(a.unit) != str(b.unit) or a.dtype != b.dtype:
            return False
        if not np.array_equal(np.asarray(a.values), np.asarray(b.values)):
            return False
    return True


def _observe_convert(obj, c, prov):
    import scippneutron as scn

    inp = {n: obj.coords[n] for n in obj.coords}
    try:
        out = scn.convert(obj, origin=c['o'], target=c['t'], scatter=c['s'])
    except Exception as e:  # noqa: BLE001
        return {'out': _classify(e), 'added': (), 'val': True, 'same': True, 'has': False,
                'worst': 0.0, 'bad': None, 'exc': repr(e)[:200]}
    added = tuple(sorted(set(out.coords) - set(inp)))
    val, worst, bad = evaluate_provenance(prov, inp, out.coords, c['o'])
    return {'out': 'ok', 'added': added, 'val': bool(val), 'same': _same_supplied(inp, out.coords),
            'has': c['t'] in out.coords, 'worst': worst, 'bad': bad, 'exc': None}


def run_case(c, seed):
    """Execute the real API for one emitted case; returns a plain dict (see c02.py)."""
    import scippneutron as scn

    da, ds = build_containers(c, seed)
    prov = c['prov'] if isinstance(c['prov'], dict) else {}
    res = {'c': {k: c[k] for k in ('o', 't', 's', 'm', 'x')}, 'prov': tuple(sorted(prov.items()))}
    # the reported graph, and that it is a private copy
    try:
        g = scn.deduce_conversion_graph(da, origin=c['o'], target=c['t'], scatter=c['s'])
        desc = describe_graph(g)
        g.clear()
        g2 = scn.deduce_conversion_graph(ds, origin=c['o'], target=c['t'], scatter=c['s'])
        res['dg'] = 'ok'
        res['graph'] = desc
        res['copy'] = describe_graph(g2) == desc
    except Exception as e:  # noqa: BLE001
        res['dg'] = _classify(e)
        res['graph'] = None
        res['copy'] = True
        res['dg_exc'] = repr(e)[:200]
    res['da'] = _observe_convert(da, c, prov)
    res['ds'] = _observe_convert(ds, c, prov)
    return res


def run_cases(args):
    cases, seed = args
    import warnings

    warnings.simplefilter('ignore')
    out = []
    for c in cases:
        try:
            out.append(run_case(c, seed))
        except Exception as e:  # noqa: BLE001  (harness problem, not a verdict)
            out.append({'c': {k: c[k] for k in ('o', 't', 's', 'm', 'x')}, 'harness_error': repr(e)[:300]})
    return out
