SPECIFICATION Spec
CONSTANTS
  MaxEvents = 6
  Shapes <- MC_ShapesThorough
  FullPermBins = 4
  MaxCalls = 2
  Bug = "none"
INVARIANT LayoutWellFormed
INVARIANT ResultPerEvent
INVARIANT MembershipPreserved
INVARIANT OrderPreserved
INVARIANT WeightsUntouched
INVARIANT EdgesSameFunction
INVARIANT InputUntouched
INVARIANT Repeatable
