"""C10 — disk-chopper open/close times are exactly the openings of the rotating disk.

Spec: spec/chopper/DiskChopperDefs.tla (simulated disk + documented formulas), DiskChopper.tla
(state machine AddSlit / Construct / Reject / Direct / Refuse / Expand with the invariants),
Emit_DiskChopper.tla (spec -> code), Trace_DiskChopper.tla (code -> spec).

1. TLC, exhaustive (K = 12 ticks per turn, all slit sets of <= 2 (quick) / <= 3 (thorough) slits incl.
   slits across top-dead-centre, multi-turn phases of either sign, both senses, ratios 1/4..8 and
   out-of-phase ratios, 1..3(4) pulses): the pairs given by the documented formulas are exactly the
   maximal open intervals of the simulated disk inside the covered span (open < close, open
   throughout, closed one tick outside, duration = width, nothing twice, nothing missing), for the
   direct query and for the expansion over pulses (= the disk rotating for np pulse periods); the
   sort-and-compare slit validation with wrap-around equals disjointness on the circle; in-phase.
   Thorough adds random walks (-simulate) on a 360-tick disk with up to 6 slits.
   Eight negative controls (no wrap-around, wrap-around on the listed order, one offset per pulse, open/close
   swapped, phase sign, a missing turn, one rotation too few, rotations remembered from the first question) must
   be rejected.  In the quick model Expand(1) is left to the invariant ExpandOnePulse (= the direct answer).
2. spec -> code (M1): TLC writes every Stride-th configuration of that model with the expected pairs,
   all slit sets with the declarative validity verdict and all ratios n/d (n, d <= 9) with the in-phase
   verdict.  Each is replayed into DiskChopper / time_offset_open / time_offset_close / open_duration /
   Chopper.from_disk_chopper with deg|rad angles, Hz|kHz|1/min frequencies and permuted slit order.
3. code -> spec (M2): the same calls on seeded random configurations far beyond the exhaustive bounds
   (K up to 360, 1..6 slits, 1..4 pulses).  Every call of 2. and 3. becomes one NDJSON event in integer
   ticks and Trace_DiskChopper.tla judges it with the *simulated disk only*.

Hardening round (HARDENING.md; what was added and why it cannot alarm on correct code):
 * the same configuration is handed over in different spellings (choose_how / lib_chopper.make_disk): slit edges,
   beam position, phase as int64 or float32 where that is exact (whole degrees / dyadic degrees), integer-typed
   chopper and pulse frequency in one unit, beam position / phase in the other angle unit than the slits, slit
   arrays as strided views of one interleaved array, construction through DiskChopper.from_nexus (slit_edges or
   slit_begin/slit_end + slit_height + radius), beam positions before top-dead-centre and beyond one turn.  None
   of this changes which disk is described, so the simulated disk judges the event unchanged.  A dtype error for
   an integer / single-precision spelling counts as "unsupported" (counter `refused_for_dtype_only`), never a wrong
   answer as accepted.
 * second use: the same chopper object is asked again with another pulse frequency (its ratio changes), then again
   with the first; chopper objects kept from the run are asked once more at the end in reverse order; every ninth
   task of a worker process is replayed at its end in reverse order (keys get a suffix); the first call of a worker
   process is never a judged one.  Model side: action AskAgain + invariant SecondAnswerIsFresh
   (MC_DiskChopper_again.cfg), negative control "stalefactor".
 * listing order of the slits in the model: Reject / Construct see the slits in every order (Orders / Listed),
   invariant ValidationIgnoresListingOrder, negative control "wraplisted" (= the seeded change).
 * the perturbed-frequency and mixed-unit variants now also go through Chopper.from_disk_chopper; in-phase probes at
   a slow (0.5 Hz) and a fast (400 Hz) source as well.
 * integer-typed pulse frequency in ANOTHER unit than the chopper frequency (INT_PULSE_PROBES): the code converted
   it in integer arithmetic - a genuine defect, one key per call site (mutants/C10/PROPOSED_FIX_int_pulse_*.diff).
 * results that are not finite times on the tick grid (wrong unit, NaN, absurdly large, open/close of different
   length) become verdicts (`time_not_on_the_tick_grid`, `... differ in number`), not crashes.

Numeric step outside TLC (stated once): a returned time t is mapped to ticks = t[s]*K*|f|[Hz] and must
lie within 1e-9 rotation periods of an integer tick (lib_chopper.TICK_TOL); the integer goes into the
event, the boolean `ongrid` says whether all times of the call did.  In-phase probes: the actual float
ratio is classified with exact rational arithmetic as "near" (<= 1e-10 relative from the nominal ratio)
or "far" (>= 1e-6 relative away from every multiple and divisor); nothing in between is generated.
Comparison of the code's pairs with the pairs of the documented formulas is recorded as evidence
(`direct_equal_documented_formula`); the verdicts come from the simulated disk, which is what the
property states.
"""

from __future__ import annotations

import json
import os
import time
from fractions import Fraction

import scipp as sc

from ..core import MachineryError
from ..lib_chopper import (ANGLE_UNITS, Background, Collector, chunked, exact_in, merge_results, run_chunks, FREQ_UNITS,
                           freq_value, make_disk, random_valid_slits, spans_tdc, to_ticks, touching_only)
from ..tlc import require_actions, require_ok, write_ndjson

W = int(os.environ.get('VERIF_TLC_WORKERS', '16'))
PROCS = int(os.environ.get('VERIF_PROCS', '6'))

RULE = ('configuration = slit set on a K-tick disk (begin on the first turn, begin < end < begin + K) x '
        'beam position x phase (several turns, either sign) x sense x ratio in {1/4,1/3,1/2,1,2,3,4,8} x '
        'angle unit x frequency unit x number of pulses; non-trivial = a slit spans top-dead-centre, or '
        'the phase exceeds one turn or is negative, or ratio != 1, or npulses > 1, or the slit set is '
        'invalid only across top-dead-centre')

PULSE_HZ = (Fraction(14), Fraction(10), Fraction(60), Fraction(25))
# the in-phase test is relative: the same relative deviations at a slow and at a fast source (HARDENING 4)
RATIO_PULSE_HZ = (Fraction(14), Fraction(400), Fraction(10), Fraction(1, 2), Fraction(60), Fraction(25))


def _ratio_class(num, den):
    return 'ratio>=1' if num >= den else 'ratio<1'


def _call(ctx, what, key_ctx, fn):
    """Run one call into scippneutron; an exception is reported by the caller."""
    try:
        return fn(), None
    except Exception as e:  # noqa: BLE001
        return None, e


def _pairs_event(cfg, api, np_, pairs, durs, ongrid):
    return {'ev': 'pairs', 'api': api, 'K': cfg['K'], 'slits': cfg['slits'], 'bp': cfg['bp'], 'ph': cfg['ph'],
            'cw': bool(cfg['cw']), 'num': cfg['num'], 'den': cfg['den'], 'np': np_, 'pairs': pairs,
            'durs': durs, 'ongrid': bool(ongrid)}


PLAIN = {'bp_unit': None, 'ph_unit': None, 'adtype': 'float64', 'sdtype': 'float64', 'fdtype': 'float64',
         'layout': 'plain', 'pf_int': False, 'bp_dtype': None, 'ph_dtype': None}


def choose_how(i, cfg, aunit, funit, f_hz, fp_hz):
    """How configuration number i is handed over (HARDENING 1, 2, 5, 7, 8): dtypes of the operands, units that
    differ between the operands of one call, memory layout of the slit arrays, constructor.  Every choice is
    a different spelling of the same disk; integer / single-precision spellings only where they are exact."""
    K = cfg['K']
    how = dict(PLAIN)
    other = 'rad' if aunit == 'deg' else 'deg'
    how['layout'] = ('plain', 'strided', 'plain', 'nexus', 'nexus2')[i % 5]
    edges = [x for s in cfg['slits'] for x in s]
    if aunit == 'deg' and i % 7 == 3 and all(exact_in(x, K, 'int64') for x in edges):
        how['adtype'] = 'int64'
    elif aunit == 'deg' and i % 7 == 5 and all(exact_in(x, K, 'float32') for x in edges):
        how['adtype'] = 'float32'
    if aunit == 'deg' and i % 7 in (3, 4) and exact_in(cfg['bp'], K, 'int64') and exact_in(cfg['ph'], K, 'int64'):
        how['sdtype'] = 'int64'
    elif i % 7 == 6 and exact_in(cfg['bp'], K, 'int64'):
        # an integer-typed beam position in whole degrees next to a float phase in radians (two operands of one sum
        # in different units and dtypes)
        how['bp_dtype'], how['bp_unit'] = 'int64', 'deg'
        how['ph_unit'] = 'rad'
    elif i % 7 == 2 and exact_in(cfg['ph'], K, 'int64'):
        how['ph_dtype'], how['ph_unit'] = 'int64', 'deg'
        how['bp_unit'] = 'rad'
    elif i % 6 == 1:
        how['bp_unit'] = other
    elif i % 6 == 4:
        how['ph_unit'] = other
    elif i % 6 == 5:
        how['bp_unit'] = how['ph_unit'] = other
    whole = {'Hz': f_hz.denominator == 1, '1/min': (f_hz * 60).denominator == 1, 'kHz': False}[funit]
    if whole and i % 4 == 1:
        how['fdtype'] = 'int64'
    pf_whole = {'Hz': fp_hz.denominator == 1, '1/min': (fp_hz * 60).denominator == 1, 'kHz': False}[funit]
    if pf_whole and i % 4 in (1, 2):
        how['pf_int'] = True            # integer-typed pulse frequency IN THE UNIT OF the chopper frequency
    return how


def pulse_var(fp_hz, unit, as_int=False):
    v = freq_value(fp_hz, unit)
    if as_int:
        if v != int(v):
            raise AssertionError('pulse frequency is not whole in its unit')
        return sc.scalar(int(v), unit=unit, dtype='int64')
    return sc.scalar(v, unit=unit)


def _is_dtype_refusal(exc, how):
    """An implementation may refuse integer / single-precision operands with a dtype error (weakest reading:
    the property names units, not dtypes); it must not answer wrongly."""
    exotic = (how['adtype'] != 'float64' or how['sdtype'] != 'float64' or how['fdtype'] != 'float64' or how['pf_int']
              or how.get('bp_dtype') or how.get('ph_dtype'))
    return exotic and isinstance(exc, (sc.DTypeError, TypeError))


def ask_direct(ctx, rec, disk, pfv, cfg, f_ticks, label, rc, desc, how, durations=True, expected=None):
    """time_offset_open / time_offset_close (/ open_duration) of one chopper object -> one event."""
    K = cfg['K']

    def call():
        o, c = disk.time_offset_open(pulse_frequency=pfv), disk.time_offset_close(pulse_frequency=pfv)
        return o, c, (disk.open_duration(pulse_frequency=pfv) if durations else None)

    res, exc = _call(ctx, 'direct', None, call)
    if exc is not None:
        if _is_dtype_refusal(exc, how):
            rec.count('dtype_refused')
            return
        ctx.violation(f'{label} raised {type(exc).__name__} for a valid in-phase configuration, {rc}',
                      {**desc, 'exc': repr(exc)})
        return
    to, tc, du = res
    o, ok1 = to_ticks(to, K, f_ticks)
    c, ok2 = to_ticks(tc, K, f_ticks)
    d, ok3 = to_ticks(du, K, f_ticks) if durations else ([], True)
    if len(o) != len(c):
        ctx.violation(f'{label}: open and close times differ in number, {rc}', desc)
        return
    pairs = [[o[i], c[i]] for i in range(len(o))]
    times = {}
    try:
        times = {'open': to.to(unit='s').values.tolist(), 'close': tc.to(unit='s').values.tolist()}
    except Exception:  # noqa: BLE001
        pass
    rec.add(_pairs_event(cfg, 'direct', 1, pairs, d, ok1 and ok2 and ok3),
            {'api': label, 'rc': rc, 'desc': desc, 'times_s': times})
    if expected is not None:
        rec.count('direct')
        rec.count('direct_equal', int(sorted(map(tuple, pairs)) == sorted(map(tuple, expected))))


def ask_expand(ctx, rec, disk, pfv, np_, cfg, f_ticks, label, rc, desc, how, expected=None):
    """Chopper.from_disk_chopper of one chopper object -> one event."""
    from scippneutron.tof.chopper_cascade import Chopper

    K = cfg['K']
    ch, exc = _call(ctx, 'expand', None, lambda: Chopper.from_disk_chopper(disk, pfv, np_))
    api = label.replace('(npulses)', '(npulses=1)' if np_ == 1 else '(npulses>1)')
    if exc is not None:
        if _is_dtype_refusal(exc, how):
            rec.count('dtype_refused')
            return
        ctx.violation(f'{api} raised {type(exc).__name__} for a valid in-phase configuration, {rc}',
                      {**desc, 'npulses': np_, 'exc': repr(exc)})
        return
    o, ok1 = to_ticks(getattr(ch, 'time_open', None), K, f_ticks)
    c, ok2 = to_ticks(getattr(ch, 'time_close', None), K, f_ticks)
    if len(o) != len(c):
        ctx.violation(f'{api}: open and close times differ in number, {rc}', {**desc, 'npulses': np_})
        return
    pairs = [[o[i], c[i]] for i in range(len(o))]
    times = {}
    try:
        times = {'open': ch.time_open.to(unit='s').values.tolist(), 'close': ch.time_close.to(unit='s').values.tolist()}
    except Exception:  # noqa: BLE001
        pass
    rec.add(_pairs_event(cfg, 'expand', np_, pairs, [], ok1 and ok2),
            {'api': api, 'rc': rc, 'desc': {**desc, 'npulses': np_}, 'times_s': times})
    if expected is not None and np_ <= len(expected):
        rec.count('exp')
        rec.count('exp_equal', int(sorted(map(tuple, pairs)) == sorted(map(tuple, expected[np_ - 1]))))


INPHASE = [(1, 4), (1, 3), (1, 2), (1, 1), (2, 1), (3, 1), (4, 1), (8, 1)]


def replay_config(ctx, rec, cfg, aunit, funit, fp_hz, nps, order, expected=None, mixed_units=False, how=None,
                  idx=0, keep=None):
    """One model configuration -> real DiskChopper -> events."""
    how = how or PLAIN
    K = cfg['K']
    rho = Fraction(cfg['num'], cfg['den'])
    f_hz = rho * fp_hz
    rc = _ratio_class(cfg['num'], cfg['den'])
    desc = {'config': cfg, 'angle_unit': aunit, 'frequency_unit': funit, 'pulse_frequency_Hz': str(fp_hz),
            'slit_order': order, 'handed_over_as': {k: v for k, v in how.items() if v != PLAIN[k]}}
    mk = {k: how[k] for k in ('bp_unit', 'ph_unit', 'adtype', 'sdtype', 'fdtype', 'layout', 'bp_dtype', 'ph_dtype')}
    disk, exc = _call(ctx, 'DiskChopper', None,
                      lambda: make_disk(K, cfg['slits'], cfg['bp'], cfg['ph'], cfg['cw'], f_hz, aunit, funit, order, **mk))
    if exc is not None:
        if _is_dtype_refusal(exc, how):
            rec.count('dtype_refused')
            return
        rec.add({'ev': 'slits', 'K': K, 'slits': cfg['slits'], 'accepted': False},
                {'api': 'DiskChopper()', 'desc': desc, 'exc': repr(exc)})
        return
    pf = pulse_var(fp_hz, funit, how['pf_int'])
    # ---- direct query, expansion over pulses
    ask_direct(ctx, rec, disk, pf, cfg, f_hz, 'time_offset_open/close', rc, desc, how,
               expected=expected['direct'] if expected else None)
    for np_ in nps:
        ask_expand(ctx, rec, disk, pf, np_, cfg, f_hz, 'from_disk_chopper(npulses)', rc, desc, how,
                   expected=expected['exp'] if expected else None)
    # ---- second use (HARDENING 6): the SAME chopper object is asked with another pulse frequency - its own
    # frequency stays, so the ratio changes - and then once more with the first one
    if idx % 3 == 0:
        alt = [r for r in INPHASE if r != (cfg['num'], cfg['den'])]
        num2, den2 = alt[(idx // 3) % len(alt)]
        cfg2 = {**cfg, 'num': num2, 'den': den2}
        pf2 = sc.scalar(freq_value(f_hz * Fraction(den2, num2), funit), unit=funit)
        rc2 = _ratio_class(num2, den2)
        d2 = {**desc, 'second_pulse_frequency_ratio': f'{num2}/{den2}'}
        ask_direct(ctx, rec, disk, pf2, cfg2, f_hz, 'time_offset_open/close, same chopper asked again with another '
                   'pulse frequency', rc2, d2, how, durations=False)
        if num2 * 2 <= 8 * den2:
            ask_expand(ctx, rec, disk, pf2, 2, cfg2, f_hz, 'from_disk_chopper(npulses), same chopper asked again with '
                       'another pulse frequency', rc2, d2, how)
        ask_direct(ctx, rec, disk, pf, cfg, f_hz, 'time_offset_open/close, same chopper asked again with the first '
                   'pulse frequency', rc, desc, how, durations=False)
    # ---- the same query with the pulse frequency in another unit than the chopper frequency, and with a
    # chopper frequency 1e-9 (relative) below / above the nominal one: both are inside the documented
    # in-phase tolerance, the quotient |f| / f_pulse (and f_pulse / |f|) then lands just below / above the
    # integer in floating point, and the result must still cover the pulse periods (times within 1e-8).
    if mixed_units:
        np_ = nps[-1] if nps else 1
        if funit != 'Hz':
            pf_hz = sc.scalar(float(fp_hz), unit='Hz')
            ask_direct(ctx, rec, disk, pf_hz, cfg, f_hz, 'time_offset_open/close, pulse frequency in Hz', rc,
                       {**desc, 'variant': 'pulse frequency in Hz'}, how, durations=False)
            ask_expand(ctx, rec, disk, pf_hz, np_, cfg, f_hz, 'from_disk_chopper(npulses), mixed frequency units', rc,
                       {**desc, 'variant': 'pulse frequency in Hz'}, how)
        for sgn in (-1, 1):
            word = 'below' if sgn < 0 else 'above'
            d2, e2 = _call(ctx, 'DiskChopper', None,
                           lambda sgn=sgn: make_disk(K, cfg['slits'], cfg['bp'], cfg['ph'], cfg['cw'], f_hz, aunit, funit,
                                                     order, scale=1.0 + sgn * 1e-9,
                                                     **{**mk, 'fdtype': 'float64'}))
            if e2 is not None:
                continue
            # the tick grid of *this* disk: one tick = 1 / (K |f|) of its own frequency
            f_own = f_hz * Fraction(1.0 + sgn * 1e-9)
            dv = {**desc, 'variant': f'frequency {word} nominal by 1e-9'}
            ask_direct(ctx, rec, d2, pf, cfg, f_own, f'time_offset_open/close, frequency {word} nominal', rc, dv, how,
                       durations=False)
            ask_expand(ctx, rec, d2, pf, np_, cfg, f_own, f'from_disk_chopper(npulses), frequency {word} nominal', rc,
                       dv, how)
    if keep is not None:
        keep.append((disk, pf, cfg, f_hz, rc, desc, how, nps[-1] if nps else 1))


def ask_kept(ctx, rec, kept):
    """HARDENING 6: chopper objects of this process asked once more at the end, in the reverse order."""
    for disk, pf, cfg, f_hz, rc, desc, how, np_ in reversed(kept):
        ask_direct(ctx, rec, disk, pf, cfg, f_hz, 'time_offset_open/close, asked again at the end of the run', rc, desc,
                   how)
        ask_expand(ctx, rec, disk, pf, np_, cfg, f_hz, 'from_disk_chopper(npulses), asked again at the end of the run',
                   rc, desc, how)


# Integer-typed pulse frequency in ANOTHER unit than the chopper frequency (HARDENING 1 + 5).  The quotient
# |f| / f_pulse needs both in one unit; converting an integer-typed Variable keeps the integer dtype, so
# 500 Hz -> kHz and 850 / min -> Hz are rounded to whole numbers unless the code asks for a float.
# (chopper frequency [Hz], its unit, pulse frequency as an integer, its unit, |f| / f_pulse or None = out of phase)
INT_PULSE_PROBES = [
    (Fraction(1000), 'kHz', 500, 'Hz', (2, 1), 3),
    (Fraction(1500), 'kHz', 500, 'Hz', (3, 1), 3),
    (Fraction(28), 'kHz', 14, 'Hz', (2, 1), 3),
    (Fraction(250), 'kHz', 500, 'Hz', (1, 2), 3),       # pulses per rotation 4 instead of 2 (from_disk_chopper)
    (Fraction(125), 'kHz', 500, 'Hz', (1, 4), 5),       # pulses per rotation 8 instead of 4 (from_disk_chopper)
    (Fraction(2500), 'kHz', 2500, 'Hz', (1, 1), 3),
    (Fraction(85, 3), 'Hz', 850, '1/min', (2, 1), 3),
    (Fraction(14), 'Hz', 850, '1/min', None, 2),
    (Fraction(7), 'Hz', 850, '1/min', None, 2),
    (Fraction(1000), 'kHz', 1400, 'Hz', None, 2),
]
INT_PULSE_KEY = ('integer-typed pulse frequency in another unit than the chopper frequency is converted in integer '
                 'arithmetic')


class _Sub:
    """Collects what the probes of one root cause report, so that they can be filed under one key per call site."""

    def __init__(self):
        self.events, self.info, self.viol, self.counters = [], [], [], {}

    def add(self, ev, info):
        self.events.append(ev)
        self.info.append(info)

    def violation(self, key, detail=None):
        self.viol.append((key, detail))

    def count(self, name, inc=1):
        self.counters[name] = self.counters.get(name, 0) + inc


def replay_int_pulse(ctx, rec, j, cw):
    f_hz, funit, pfi, pfunit, ratio, np_ = INT_PULSE_PROBES[j]
    K, slits = 12, [[1, 3]]        # one narrow slit: a missing rotation always shortens the covered span
    pf = sc.scalar(pfi, unit=pfunit, dtype='int64')
    desc = {'chopper_frequency': f'{freq_value(f_hz, funit)} {funit}', 'pulse_frequency': f'{pfi} {pfunit} (int64)',
            'true_ratio': str(f_hz / (Fraction(pfi) * {'Hz': 1, '1/min': Fraction(1, 60)}[pfunit]))}
    disk, exc = _call(ctx, 'DiskChopper', None, lambda: make_disk(K, slits, 0, 0, cw, f_hz, 'deg', funit))
    if exc is not None:
        ctx.violation('DiskChopper() raised for a single valid slit', {'exc': repr(exc)})
        return
    sub = _Sub()
    if ratio is None:
        _, exc = _call(ctx, 'direct', None, lambda: disk.time_offset_open(pulse_frequency=pf))
        if exc is None:
            ctx.violation(f'time_offset_open/close: {INT_PULSE_KEY}', {**desc, 'what': 'out_of_phase_frequency_accepted'})
        _, exc = _call(ctx, 'expand', None, lambda: __import__('scippneutron.tof.chopper_cascade', fromlist=['Chopper'])
                       .Chopper.from_disk_chopper(disk, pf, np_))
        if exc is None:
            ctx.violation(f'from_disk_chopper: {INT_PULSE_KEY}', {**desc, 'what': 'out_of_phase_frequency_accepted'})
        return
    cfg = {'K': K, 'slits': slits, 'bp': 0, 'ph': 0, 'cw': cw, 'num': ratio[0], 'den': ratio[1]}
    rc = _ratio_class(*ratio)
    how = dict(PLAIN)
    ask_direct(sub, sub, disk, pf, cfg, f_hz, 'time_offset_open/close', rc, desc, how, durations=False)
    for key, detail in sub.viol:
        ctx.violation(f'time_offset_open/close: {INT_PULSE_KEY}', {**(detail or {}), 'what': key})
    n1 = len(sub.events)
    sub.viol = []
    ask_expand(sub, sub, disk, pf, np_, cfg, f_hz, 'from_disk_chopper(npulses)', rc, desc, how)
    for key, detail in sub.viol:
        ctx.violation(f'from_disk_chopper: {INT_PULSE_KEY}', {**(detail or {}), 'what': key})
    for k, (ev, inf) in enumerate(zip(sub.events, sub.info)):
        inf['fixed_key'] = f'{"time_offset_open/close" if k < n1 else "from_disk_chopper"}: {INT_PULSE_KEY}'
        rec.add(ev, inf)


def replay_slitset(ctx, rec, K, slits, aunit, order, layout='plain', adtype='float64'):
    _, exc = _call(ctx, 'DiskChopper', None,
                   lambda: make_disk(K, slits, 0, 0, False, Fraction(14), aunit, 'Hz', order, layout=layout, adtype=adtype))
    if exc is not None and adtype != 'float64' and isinstance(exc, (sc.DTypeError, TypeError)):
        rec.count('dtype_refused')
        return
    rec.add({'ev': 'slits', 'K': K, 'slits': slits, 'accepted': exc is None},
            {'api': 'DiskChopper()', 'desc': {'K': K, 'slits': slits, 'angle_unit': aunit, 'slit_order': order,
                                             'layout': layout, 'dtype': adtype,
                                             'exc': repr(exc) if exc is not None else None}})


def _classify_ratio(x: Fraction, num, den):
    """'near' / 'far' / None for the exact ratio x = |f| / f_pulse of the floats handed to the code."""
    nominal = Fraction(num, den)
    if abs(x / nominal - 1) <= Fraction(1, 10**10):
        return 'near'
    for n in range(1, 200):
        if abs(x / n - 1) < Fraction(1, 10**6) or abs(x * n - 1) < Fraction(1, 10**6):
            return None
    return 'far'


def replay_ratio(ctx, rec, num, den, delta: Fraction, funit, cw, fp_hz):
    """Frequency ratio (num/den)*(1+delta): is it accepted by time_offset_open?"""
    f_hz = Fraction(num, den) * fp_hz
    scale = float(1 + delta)
    disk, exc = _call(ctx, 'DiskChopper', None,
                      lambda: make_disk(12, [[1, 3]], 0, 0, cw, f_hz, 'deg', funit, None, scale=scale))
    if exc is not None:
        ctx.violation('DiskChopper() raised for a single valid slit', {'exc': repr(exc)})
        return
    pf = sc.scalar(float(fp_hz), unit='Hz')
    # exact ratio of the floats actually handed over (both converted to Hz exactly)
    unit_factor = {'Hz': Fraction(1), 'kHz': Fraction(1000), '1/min': Fraction(1, 60)}[funit]
    x = abs(Fraction(disk.frequency.value)) * unit_factor / Fraction(pf.value)
    band = _classify_ratio(x, num, den)
    if band is None:
        return
    _, exc = _call(ctx, 'direct', None, lambda: disk.time_offset_open(pulse_frequency=pf))
    rec.add({'ev': 'phase', 'num': num, 'den': den, 'band': band, 'accepted': exc is None},
            {'api': 'time_offset_open', 'desc': {'nominal_ratio': f'{num}/{den}', 'relative_deviation': str(delta),
                                                 'frequency_unit': funit, 'clockwise': cw,
                                                 'exc': repr(exc) if exc is not None else None}})
    ctx.case(nontrivial_id=('ph', num, den, str(delta), funit, cw) if delta != 0 or num % den and den % num else None)
    # the same question through every other entry point that expands the disk over the pulses: "rejects frequencies
    # that are neither" is a statement about the chopper, not about one method
    from scippneutron.tof import chopper_cascade as cc

    for api, fn in (('time_offset_close', lambda: disk.time_offset_close(pulse_frequency=pf)),
                    ('open_duration', lambda: disk.open_duration(pulse_frequency=pf)),
                    ('from_disk_chopper', lambda: cc.Chopper.from_disk_chopper(disk, pulse_frequency=pf, npulses=1 + (num + den) % 3))):
        _, exc2 = _call(ctx, 'direct', None, fn)
        rec.add({'ev': 'phase', 'num': num, 'den': den, 'band': band, 'accepted': exc2 is None},
                {'api': api, 'desc': {'nominal_ratio': f'{num}/{den}', 'relative_deviation': str(delta),
                                      'frequency_unit': funit, 'clockwise': cw,
                                      'exc': repr(exc2) if exc2 is not None else None}})


def _count_simulated(ctx, res):
    """States checked by a -simulate run (tlc.py only parses the summary line of exhaustive runs)."""
    import re

    m = re.findall(r'The number of states generated: (\d+)', res.out)
    if m:
        ctx.extra['simulated_states'] = ctx.extra.get('simulated_states', 0) + int(m[-1])
        ctx.states += int(m[-1])
        ctx.transitions += int(m[-1])


def worker(tasks):
    """Replay a chunk of tasks in this (fresh) process; at the end a sample of them once more, in the reverse
    order, and the chopper objects that were kept are asked again (HARDENING 6)."""
    col = Collector()
    kept = []

    def one(t, again=False):
        if t[0] == 'slits':
            _, K, sl, au, order, nt, layout, adtype = t
            replay_slitset(col, col, K, sl, au, order, layout, adtype)
            col.case(nt if not again else None)
        elif t[0] == 'ratio':
            replay_ratio(col, col, *t[1:])
        elif t[0] == 'intpulse':
            replay_int_pulse(col, col, t[1], t[2])
            col.case(('ip', t[1], t[2]) if not again else None)
        else:
            _, cfg, au, fu, fp, nps, order, expected, mixed, nt, how, idx = t
            replay_config(col, col, cfg, au, fu, fp, nps, order, expected=None if again else expected,
                          mixed_units=mixed and not again, how=how, idx=idx,
                          keep=kept if (not again and idx % 16 == 5) else None)
            col.case(nt if not again else None)

    if tasks:
        # the first use of the library in this process is not one that is judged first (nothing of it is kept)
        keep_col, keep_kept, col, kept = col, kept, Collector(), []
        one(tasks[-1])
        col, kept = keep_col, keep_kept
    for t in tasks:
        one(t)
    n1 = len(col.events)
    for t in reversed(tasks[3::9]):
        one(t, again=True)
    ask_kept(col, col, kept)
    for inf in col.info[n1:]:
        inf['again'] = True
    return col.export()


def _nontrivial(cfg, nps):
    K = cfg['K']
    return (spans_tdc(cfg['slits'], K) or not 0 <= cfg['ph'] < K or cfg['num'] != cfg['den'] or max(nps, default=1) > 1)


def run(ctx):
    ctx.rule = RULE
    ctx.assume('a time returned by the code is identified with a model tick if it lies within 1e-9 rotation '
               'periods of it (float rounding of < 10 operations is < 1e-14 periods)')
    ctx.assume('any exception raised by DiskChopper() / time_offset_open counts as rejection of a slit set / '
               'of an out-of-phase frequency (the property names no exception class)')
    ctx.assume('"about 1e-8": ratios within 1e-10 (relative) of a multiple/divisor must be accepted, ratios at '
               'least 1e-6 away from every multiple/divisor must be rejected, nothing in between is generated')
    ctx.assume('slit sets that are invalid only because two slits touch are replayed in degrees only, where the '
               'tick grid is exact in binary floating point (the code decides this case by float equality)')
    ctx.assume('slits of full-circle width (end - begin >= one turn) are outside the generated inputs')
    ctx.assume('integer-typed / single-precision operands are generated only where they describe the configuration '
               'exactly; a dtype error for them is recorded as unsupported, a result is judged like any other')
    th = ctx.thorough
    # ------------------------------------------------------------------ 1. design (runs while 2. and 3. replay)
    def design():
        res = ctx.tlc('chopper/MC_DiskChopper.tla', 'MC_DiskChopper.cfg', workers=W, timeout=1800, coverage=True)
        require_ok(ctx, res, 'DiskChopper model')
        require_actions(res, ['AddAnySlit', 'Reject', 'ConstructAny', 'Refuse', 'Direct', 'Expand'])
        if th:
            res = ctx.tlc('chopper/MC_DiskChopper.tla', 'MC_DiskChopper_thorough.cfg', workers=W, timeout=2400)
            require_ok(ctx, res, 'DiskChopper model (thorough bounds)')
            # random walks far beyond the exhaustive bounds: 360 ticks per turn, up to 6 slits
            sim = ctx.tlc('chopper/MC_DiskChopper.tla', 'MC_DiskChopper_sim.cfg', workers=W, timeout=900,
                          simulate='num=600', depth=12, extra=['-seed', str(ctx.seed + 10)])
            require_ok(ctx, sim, 'DiskChopper random walks (K = 360)')
            _count_simulated(ctx, sim)

    def controls():
        # second use of one chopper object (asked again with another pulse frequency), small bounds
        res = ctx.tlc('chopper/MC_DiskChopper.tla', 'MC_DiskChopper_again.cfg', workers=2, timeout=900, coverage=True)
        require_ok(ctx, res, 'DiskChopper model (same chopper asked again)')
        require_actions(res, ['AskAgain'])
        for bug in ('nowrap', 'wraplisted', 'perpulse', 'swap', 'phasesign', 'gap', 'truncate', 'stalefactor'):
            ctx.tlc('chopper/MC_DiskChopper.tla', f'Neg_DiskChopper_{bug}.cfg', workers=2, expect_error=True,
                    timeout=600)

    with Background(design), Background(controls):
        # ------------------------------------------------------------------ 2. spec -> code
        out = {k: str(ctx.tmp / f'c10-{k}.ndjson') for k in ('OUT_SLITS', 'OUT_CASES', 'OUT_RATIOS')}
        em = ctx.tlc('chopper/MC_Emit_DiskChopper.tla',
                     'MC_Emit_DiskChopper_thorough.cfg' if th else 'MC_Emit_DiskChopper.cfg',
                     workers=2, env=out, timeout=900, count=False)
        require_ok(ctx, em, 'Emit_DiskChopper')
        emitted = em.tagged('EMITTED')
        if not emitted:
            raise MachineryError('emitter did not report')
        load = lambda p: [json.loads(line) for line in open(p) if line.strip()]  # noqa: E731
        slit_recs, case_recs, ratio_recs = load(out['OUT_SLITS']), load(out['OUT_CASES']), load(out['OUT_RATIOS'])
        if [len(slit_recs), len(case_recs), len(ratio_recs)] != emitted[0][1:4]:
            raise MachineryError(f'emitted files incomplete: {emitted} vs {len(slit_recs)}, {len(case_recs)}, {len(ratio_recs)}')
        ctx.extra['emitted'] = {'slit_sets': len(slit_recs), 'configurations': len(case_recs), 'ratios': len(ratio_recs)}
        rng = ctx.rng
        tasks = []
        # -- slit sets
        for i, r in enumerate(slit_recs):
            sl, K = r['slits'], r['K']
            order = list(range(len(sl)))
            rng.shuffle(order)
            units = ['deg'] if touching_only(sl, K) else (['deg', 'rad'] if (i % 3 == 0 or r['wraponly']) else
                                                          [ANGLE_UNITS[i % 2]])
            for au in units:
                # HARDENING 1, 2, 8: integer / single-precision edges (exact in deg), strided arrays, from_nexus
                adt = {3: 'int64', 5: 'float32'}.get(i % 7, 'float64') if au == 'deg' else 'float64'
                if adt != 'float64' and not all(exact_in(x, K, adt) for s_ in sl for x in s_):
                    adt = 'float64'
                tasks.append(('slits', K, sl, au, order, ('s', i, au) if (spans_tdc(sl, K) or not r['valid']) else None,
                              ('plain', 'strided', 'plain', 'nexus', 'nexus2')[i % 5], adt))
        # -- frequency ratios
        deltas_near = [Fraction(0), Fraction(1, 10**12), Fraction(-1, 10**12), Fraction(9, 10**11), Fraction(-9, 10**11)]
        deltas_far = [Fraction(1, 10**6) * 2, Fraction(-1, 10**6) * 2, Fraction(1, 10**4), Fraction(-3, 10**3),
                      Fraction(1, 50), Fraction(-1, 7), Fraction(3, 10)]
        for i, r in enumerate(ratio_recs):
            for j, d in enumerate(deltas_near + deltas_far):
                if not r['inphase'] and d != 0 and j < len(deltas_near):
                    continue
                fp = RATIO_PULSE_HZ[(i + j) % (len(RATIO_PULSE_HZ) if th else 4)]
                tasks.append(('ratio', r['num'], r['den'], d, FREQ_UNITS[(i + j) % 3], bool((i + j) % 2), fp))
        # -- configurations of the exhaustive model
        nmax = 4 if th else 3
        for i, c in enumerate(case_recs):
            cfg = {k: c[k] for k in ('K', 'slits', 'bp', 'ph', 'cw', 'num', 'den')}
            expected = {'direct': c['direct'], 'exp': c['exp']}
            if i % 5 == 3:
                # the same beam position written one turn lower / higher ("any beam position"): another input,
                # judged by the simulated disk like every other; the emitted answer belongs to the unshifted one
                cfg['bp'] += cfg['K'] * (-1 if i % 2 else 1)
                expected = None
            order = list(range(len(cfg['slits'])))
            rng.shuffle(order)
            nps = list(range(1, nmax + 1)) if th or i % 4 == 0 else [1 + i % nmax]
            au, fu, fp = ANGLE_UNITS[i % 2], FREQ_UNITS[(i // 2) % 3], PULSE_HZ[(i // 6) % 2]
            how = choose_how(i, cfg, au, fu, Fraction(cfg['num'], cfg['den']) * fp, fp)
            tasks.append(('config', cfg, au, fu, fp, nps, order, expected, i % 24 == 2,
                          ('c', i) if _nontrivial(cfg, nps) else None, how, i))
        for j in range(len(INT_PULSE_PROBES)):
            tasks.append(('intpulse', j, bool(j % 2)))
        n_enumerated = len(tasks)
        # -------------------------------------------------------------- 3. code -> spec, random, large
        nrand = 1200 if th else 250
        for t in range(nrand):
            K = rng.choice([24, 48, 72, 120, 360] if th else [24, 48, 72, 120])
            n = rng.randrange(1, 7)
            num, den = rng.choice([(1, 4), (1, 3), (1, 2), (1, 1), (2, 1), (3, 1), (4, 1), (8, 1)])
            cfg = {'K': K, 'slits': random_valid_slits(rng, K, n), 'bp': rng.randrange(-K, 2 * K),
                   'ph': rng.randrange(-3 * K, 3 * K + 1), 'cw': rng.random() < 0.5, 'num': num, 'den': den}
            order = list(range(n))
            rng.shuffle(order)
            nps = [rng.randrange(1, 5)]
            au, fu, fp = rng.choice(ANGLE_UNITS), rng.choice(FREQ_UNITS), rng.choice(PULSE_HZ)
            how = choose_how(rng.randrange(420), cfg, au, fu, Fraction(num, den) * fp, fp)
            tasks.append(('config', cfg, au, fu, fp, nps, order, None, t % 5 == 0,
                          ('r', t) if _nontrivial(cfg, nps) else None, how, n_enumerated + t))
            # a random slit set of the same size (mostly overlapping somewhere; also perturbed valid sets)
            if t % 2 == 0:
                sl = [list(x) for x in cfg['slits']]
                k = rng.randrange(n)
                if rng.random() < 0.5:
                    sl[k][1] = min(sl[k][1] + rng.choice([1, 2, K // 4, K // 2]), sl[k][0] + K - 1)
                else:
                    b = rng.randrange(K)
                    sl[k] = [b, b + rng.randrange(1, K)]
                adt = rng.choice(['float64', 'float64', 'int64', 'float32'])
                if not all(exact_in(x, K, adt) for s_ in sl for x in s_):
                    adt = 'float64'
                tasks.append(('slits', K, sl, 'deg', order, ('rs', t), rng.choice(['plain', 'strided', 'nexus', 'nexus2']), adt))
        # every chunk runs in a fresh process: at most 1000 x 30 new scipp dimension labels per process
        t_rep = time.time()
        results = run_chunks(worker, chunked(tasks, 1000), PROCS)
        events, info, counters = merge_results(ctx, results)
        ctx.extra['replay_wall_s'] = round(time.time() - t_rep, 1)
        ctx.extra['refused_for_dtype_only'] = counters.get('dtype_refused', 0)
        ctx.extra['tasks'] = {'enumerated': n_enumerated, 'random': len(tasks) - n_enumerated}
    # ------------------------------------------------------------------ 4. TLC judges every event
    pe = [e for e in events if e['ev'] == 'pairs']
    for e in events[:1] + pe[:1] + pe[len(pe) // 2:len(pe) // 2 + 1] + events[-2:]:
        ctx.sample(e)
    ctx.extra['direct_equal_documented_formula'] = [counters.get('direct_equal', 0), counters.get('direct', 0)]
    ctx.extra['expansion_equal_rotating_disk_for_np_pulses'] = [counters.get('exp_equal', 0), counters.get('exp', 0)]
    tf = ctx.tmp / 'c10.ndjson'
    write_ndjson(tf, events)
    tr = ctx.tlc('chopper/Trace_DiskChopper.tla', workers=1, env={'TRACE_FILE': str(tf)}, timeout=2400)
    require_ok(ctx, tr, 'Trace_DiskChopper')
    done = tr.tagged('DONE')
    if not done or done[0][1] != len(events):
        raise MachineryError(f'trace validation incomplete: {done} vs {len(events)} events')
    ctx.traces(len(events))
    for _, line, _tid, clause in tr.tagged('REJECT'):
        ev, inf = events[line - 1], info[line - 1]
        if clause.startswith('driver_error') or clause == 'unknown_event':
            raise MachineryError(f'bad event {ev}: {clause}')
        if inf.get('fixed_key'):
            key = inf['fixed_key']                   # probes of one root cause: one key per call site
        elif ev['ev'] == 'pairs':
            key = f'{inf["api"]}: {clause}, {inf["rc"]}'
        elif ev['ev'] == 'slits':
            key = f'DiskChopper(): {clause}'
        else:
            key = f'{inf.get("api", "time_offset_open")}: {clause}'
        if inf.get('again') and not inf.get('fixed_key'):
            key += ' [replayed later in the same process, in another order]'
        inf = {**inf, 'clause': clause}
        ctx.violation(key, {'event': ev, **{k: v for k, v in inf.items() if k not in ('api', 'rc')}})
    # ------------------------------------------------------------------ 5. the judge is sensitive
    rejected = {line for _, line, _t, _c in tr.tagged('REJECT')}
    good = [e for i, e in enumerate(events) if (i + 1) not in rejected and e['ev'] == 'pairs'
            and e['api'] == 'direct' and len(e['pairs']) >= 3 and len(e['durs']) == len(e['pairs'])]
    if good:
        import copy
        a, b = copy.deepcopy(good[0]), copy.deepcopy(good[len(good) // 2])
        a['pairs'][0][1] += 1                                   # closes one tick late
        mid = sorted(b['pairs'])[len(b['pairs']) // 2]
        i = b['pairs'].index(mid)
        del b['pairs'][i], b['durs'][i]                         # an opening inside the span is dropped
        tf2 = ctx.tmp / 'c10-corrupted.ndjson'
        write_ndjson(tf2, [good[0], a, b])
        tr2 = ctx.tlc('chopper/Trace_DiskChopper.tla', workers=1, env={'TRACE_FILE': str(tf2)}, timeout=600, count=False)
        bad = sorted(r[1] for r in tr2.tagged('REJECT'))
        if bad != [2, 3]:
            raise MachineryError(f'trace specification is not sensitive: corrupted events 2, 3 -> rejected {bad}')
        ctx.extra['corrupted_events_rejected'] = [r[3] for r in tr2.tagged('REJECT')]


META = {
    'design_ref': 'DESIGN.md §5 C10',
    'technique': 'TLA+ state machine (DiskChopper) with two independent definitions - simulated rotating disk and '
                 'documented formulas - model-checked by TLC; TLC-enumerated configurations replayed into the real '
                 'DiskChopper / Chopper.from_disk_chopper and every recorded call judged by a TLC trace specification '
                 'that uses the simulated disk only',
    'text': 'TLC proves on a 12-tick disk, for every slit set of up to 3 slits (also across top-dead-centre), '
            'multi-turn phases, both senses, ratios 1/4..8 and 1..4 pulses, that the documented formulas report '
            'exactly the maximal open intervals of the simulated disk (nothing twice, nothing missing), that '
            'sort-and-compare validation with wrap-around equals disjointness on the circle in every listing order, '
            'that a chopper asked again with another pulse frequency answers like a fresh one, and rejects eight wrong '
            'variants.  The real API is then driven with the enumerated configurations (deg/rad, Hz/kHz/1/min, '
            'permuted slits; integer / float32 operands, mixed units between operands, strided arrays, from_nexus, '
            'second use of the same object) and with seeded random ones up to 360 ticks and 6 slits; each call is recorded in '
            'integer ticks and TLC decides it against the simulated disk; slit-set and frequency-ratio rejection '
            'are decided the same way.',
    'note': 'Trusted: TLC, scipp unit conversion, the mapping time -> tick within 1e-9 periods (float comparison '
            'done in the harness, not by TLC).  Tolerance gray zone 1e-10..1e-6 of the in-phase test and '
            'full-circle slits are not tested.',
}
