-------------------------- MODULE Trace_SqwBuilder --------------------------
(* Judges recorded executions of the real SqwBuilder (one NDJSON line per file written).     *)
(* An event holds the builder calls that were made (in order) with their abstract arguments, *)
(* and the layout found in the produced bytes by the independent decoder, what Sqw.open       *)
(* reports, and (for in-memory files) the run-length encoded write log.                       *)
(* The calls are replayed on the specification's operators (ExpectedNames, Kind, PixSize,     *)
(* DndSize, HeaderLen, BatLen, Tiles, DeducedOrder) and every clause of the property is       *)
(* evaluated; the set of failing clauses is printed per rejected event.                       *)
(* Events of one `gid` differ only in the ORDER of the calls and are adjacent in the file:    *)
(* the table order of each must equal that of its predecessor.                                *)
(* `prev` is the length of what existed at the target path before create() (0 = nothing) and  *)
(* `gen` says which create() call of its builder produced the file (1 or 2): the clauses are  *)
(* the same for every file the builder produces, and nothing of an earlier file may survive.  *)
EXTENDS SqwBuilderDefs, TLC, Json, IOUtils

Tr == ndJsonDeserialize(IOEnv.TRACE_FILE)

VARIABLES l, nbad, lastgid, lastnames
tvars == <<l, nbad, lastgid, lastnames>>

NameOf(b) == <<b.n1, b.n2>>
BatNames(e) == [i \in 1..Len(e.bat) |-> NameOf(e.bat[i])]
BatExt(e) == [i \in 1..Len(e.bat) |-> <<e.bat[i].pos, e.bat[i].size>>]
Reg(e) == Range(e.calls)

(* ---- write log: run-length encoded <<pos, n, count>> = count writes of n bytes each,       *)
(*      back to back, starting at pos                                                          *)
LogIv(e) == {<<e.log[i][1], e.log[i][1] + e.log[i][2] * e.log[i][3]>> : i \in 1..Len(e.log)}
(* [a, b) is covered by the union of the intervals: sweep from a *)
RECURSIVE CoveredFrom(_, _, _)
CoveredFrom(S, a, b) ==
    IF a >= b THEN TRUE
    ELSE LET hit == {iv \in S : iv[1] <= a /\ iv[2] > a}
         IN IF hit = {} THEN FALSE
            ELSE LET far == CHOOSE iv \in hit : \A q \in hit : q[2] <= iv[2]
                 IN CoveredFrom(S \ hit, far[2], b)

PixEntries(e) == {i \in 1..Len(e.bat) : KindOfTypeString(e.bat[i].type) = "pix"}

(* ---- the clauses ------------------------------------------------------------------------ *)
Holds(c, e) ==
    CASE c = "header_is_horace_4_0" ->
            e.hdr.name = "horace" /\ e.hdr.v4 /\ e.hdr.len = HeaderLen
      [] c = "file_has_one_byte_order_and_it_is_the_requested_one" -> e.dec_bo = e.bo
      [] c = "reopened_with_written_byte_order" ->
            e.open.out = "ok" => (e.open.bo = e.bo /\ DeducedOrder(e.bo) = e.open.bo)
      [] c = "open_succeeds" -> e.open.out = "ok"
      [] c = "open_reports_the_header" ->
            e.open.out = "ok" => (e.open.name = e.hdr.name /\ e.open.v4 = e.hdr.v4
                                  /\ e.open.type = e.hdr.type /\ e.open.ndims = e.hdr.ndims)
      [] c = "open_lists_the_table_blocks" ->
            e.open.out = "ok" => e.open.names = BatNames(e)
      [] c = "table_parses" -> e.batok
      [] c = "table_length_as_documented" ->
            /\ e.batbegin = HeaderLen
            /\ e.batend = HeaderLen + BatLen(BatNames(e))
            (* the size field counts the table with or without the field itself *)
            /\ e.batsize \in {e.batend - e.batbegin, e.batend - e.batbegin - 4}
      [] c = "each_block_once" ->
            NoDup(BatNames(e)) /\ Range(BatNames(e)) = ExpectedNames(Reg(e))
      [] c = "table_order_independent_of_call_order" ->
            e.gid = lastgid => BatNames(e) = lastnames
      [] c = "declared_type_matches_block" ->
            \A i \in 1..Len(e.bat) :
                NameOf(e.bat[i]) \in AllNames => e.bat[i].type = TypeString(Kind(NameOf(e.bat[i])))
      [] c = "extents_start_after_table" -> StartsAt(BatExt(e), e.batend)
      [] c = "extents_contiguous_disjoint" -> Contiguous(BatExt(e))
      [] c = "extents_end_at_eof" -> EndOf(BatExt(e), e.batend) = e.flen
      [] c = "nothing_survives_of_an_earlier_file" ->
            (e.prev > 0 \/ e.gen > 1) => e.flen = EndOf(BatExt(e), e.batend)
      [] c = "computed_sizes" ->
            \A i \in 1..Len(e.bat) :
                LET k == KindOfTypeString(e.bat[i].type) IN
                /\ (k = "pix" => e.bat[i].size = PixSize(e.npix))
                /\ (k = "dnd" => e.bat[i].size = DndSize(e.shape))
      [] c = "block_decodes_within_extent" ->
            \A i \in 1..Len(e.bat) : e.dec[i].ok /\ e.dec[i].consumed = e.bat[i].size
      [] c = "block_holds_declared_type" ->
            \A i \in 1..Len(e.bat) :
                LET k == KindOfTypeString(e.bat[i].type) IN
                e.dec[i].ok =>
                  /\ (k = "regular" /\ NameOf(e.bat[i]) \in AllNames
                        => e.dec[i].sn = SerialName(NameOf(e.bat[i])))
                  /\ (k = "pix" => e.dec[i].nrows = NRows /\ e.dec[i].npix = e.npix)
                  /\ (k = "dnd" => e.dec[i].shape = e.shape)
      [] c = "log_no_unwritten_holes" ->
            e.haslog => CoveredFrom(LogIv(e), 0, e.flen) /\ \A iv \in LogIv(e) : iv[2] <= e.flen
      [] c = "log_pix_extent_fully_written" ->
            e.haslog => \A i \in PixEntries(e) :
                CoveredFrom(LogIv(e), e.bat[i].pos, e.bat[i].pos + e.bat[i].size)

Clauses == <<"header_is_horace_4_0", "file_has_one_byte_order_and_it_is_the_requested_one",
             "open_succeeds", "reopened_with_written_byte_order", "open_reports_the_header",
             "open_lists_the_table_blocks", "table_parses", "table_length_as_documented",
             "each_block_once", "table_order_independent_of_call_order",
             "declared_type_matches_block", "extents_start_after_table",
             "extents_contiguous_disjoint", "extents_end_at_eof",
             "nothing_survives_of_an_earlier_file", "computed_sizes",
             "block_decodes_within_extent", "block_holds_declared_type",
             "log_no_unwritten_holes", "log_pix_extent_fully_written">>

(* a file that could not be produced / parsed at all is judged on what is available *)
Failing(e) ==
    IF e.out # "ok" THEN <<"builder_raised">>
    ELSE IF ~e.hdrok THEN <<"header_parses">>
    ELSE IF ~e.batok THEN SelectSeq(SubSeq(Clauses, 1, 7), LAMBDA c : ~Holds(c, e))
    ELSE SelectSeq(Clauses, LAMBDA c : ~Holds(c, e))

TInit == l = 1 /\ nbad = 0 /\ lastgid = -1 /\ lastnames = <<>>
TNext == /\ l <= Len(Tr)
         /\ l' = l + 1
         /\ LET e == Tr[l]
                f == Failing(e)
            IN /\ nbad' = IF f = <<>> THEN nbad ELSE nbad + 1
               /\ IF e.out = "ok" /\ e.hdrok /\ e.batok
                  THEN lastgid' = e.gid /\ lastnames' = BatNames(e)
                  ELSE UNCHANGED <<lastgid, lastnames>>
               /\ IF f = <<>> THEN TRUE ELSE PrintT(<<"REJECT", l, e.tid, f>>)
TSpec == TInit /\ [][TNext]_tvars
Done == (l = Len(Tr) + 1) => PrintT(<<"DONE", l - 1, nbad>>)
=============================================================================
