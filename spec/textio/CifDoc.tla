------------------------------- MODULE CifDoc -------------------------------
(* Low-level documents (what cif.Block / cif.Chunk / cif.Loop express): a block grows by *)
(* AddPair and AddLoop with values from a set of awkward strings.  After every step the  *)
(* reference writer's text must lex and parse back to exactly the document (values up   *)
(* to surrounding blanks) and be syntactically valid: a faithful CIF 1.1 encoding exists *)
(* for every document made of representable strings, whatever the neighbours are.        *)
EXTENDS CifDocDefs

CONSTANTS PairVals,   \* values used in tag-value pairs
          LoopVals,   \* values used in loops
          MaxItems,   \* number of items in the block
          MaxCols, MaxRows,
          Bug         \* "none" | "sameline" (negative control: text fields written on the tag's line)

VARIABLE items
vars == <<items>>

TagNo(j, q) == <<116>> \o Digits(j) \o <<99>> \o Digits(q)     \* t<j>c<q>

Init == items = <<>>
AddPair(v) == /\ Len(items) < MaxItems
              /\ items' = Append(items, [k |-> "pair", tags |-> <<TagNo(Len(items) + 1, 1)>>, vals |-> <<v>>])
AddLoop(nc, nr, cells) ==
    /\ Len(items) < MaxItems
    /\ items' = Append(items, [k |-> "loop", tags |-> [q \in 1..nc |-> TagNo(Len(items) + 1, q)],
                               vals |-> cells])
Next == \/ \E v \in PairVals : AddPair(v)
        \/ \E nc \in 1..MaxCols, nr \in 1..MaxRows :
             \E cells \in [1..(nc * nr) -> LoopVals] : AddLoop(nc, nr, cells)
Spec == Init /\ [][Next]_vars

-----------------------------------------------------------------------------
Doc == << [name |-> <<98>>, items |-> items] >>
AsCells(blocks) ==
    [b \in 1..Len(blocks) |->
       [name |-> blocks[b].name,
        items |-> [j \in 1..Len(blocks[b].items) |->
                     [k |-> blocks[b].items[j].k, tags |-> blocks[b].items[j].tags,
                      vals |-> [c \in 1..Len(blocks[b].items[j].vals) |-> SCell(blocks[b].items[j].vals[c])]]]]]

BadWriteItem(it) ==   \* negative control: value always on the tag's line, rows on one line
    IF it.k = "pair" THEN <<US>> \o it.tags[1] \o <<SP>> \o SafeQuote(it.vals[1]).txt \o <<LF>>
    ELSE KwLoop \o <<LF>>
         \o FlattenSeq([q \in 1..Len(it.tags) |-> <<US>> \o it.tags[q] \o <<LF>>])
         \o FlattenSeq([c \in 1..Len(it.vals) |-> SafeQuote(it.vals[c]).txt \o <<SP>>]) \o <<LF>>
Text == IF Bug = "sameline"
        THEN KwData \o <<98, LF>> \o FlattenSeq([j \in 1..Len(items) |-> BadWriteItem(items[j])])
        ELSE WriteDoc(Doc)

RoundTrip == DocVerdict(AsCells(Doc), Read(Text)) = <<"ok", 0, 0, 0>>
Ascii == LET t == Text IN \A i \in 1..Len(t) : IsLegal(t[i])
TypeOK == Len(items) <= MaxItems
=============================================================================
