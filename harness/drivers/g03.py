from .. import lib_growth_absorption

def run(ctx):
    lib_growth_absorption.run(ctx)
