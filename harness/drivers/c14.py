"""C14 — CIF output is valid CIF 1.1 and parses back to exactly what was supplied.

Specs (spec/textio/):
  CifLexerDefs.tla   CIF 1.1 lexical grammar as a state machine over code points, Strip, the reference
                     quoting SafeQuote, Representable
  CifLexer.tla       all strings <= MaxLen over the alphabet  _ # $ ; [ ] ' " SP HT LF a  : SafeQuote
                     round-trips every Representable string (next to a tag and inside loop rows), no
                     text at all yields a value containing LF+';' (so those strings may be refused),
                     comment text never becomes a token            (Neg: naive quoting rule, "all
                     strings representable")
  CifDocDefs.tla     parser tokens -> abstract document, reference writer, comparison supplied/parsed,
                     the document the high-level builder assembles (SaveDoc)
  CifDoc.tla         low-level documents grown by AddPair/AddLoop with awkward values: written and read
                     back unchanged                                (Neg: text field on the tag's line)
  CifDocBuilder.tla  builder call sequences: SaveDoc reads back, every role id is the id of exactly one
                     author, no author lost, content in call order  (Neg: all authors share one id)
  Trace_Cif.tla      judge of text produced by the real code

Conformance (the produced text goes to TLC as code points; Trace_Cif lexes + parses it with the
specification's own operators and compares with the supplied document):
  M1  every string of the exhaustive model (length <= 4 quick / <= 5 thorough), reserved words,
      printable-ASCII / non-ASCII / long / multi-line strings, numbers with and without variances, each
      written through cif.Chunk (pair) and cif.Loop (first and last column) -> Block -> save_cif;
      random blocks of chunks and loops with 1..50 rows x 1..6 columns, several blocks per file,
      comments everywhere, path and file-object targets.
  M2  random programs over cif.CIF (with_authors with/without roles, with_beamline, with_reducers,
      with_reduced_powder_data, with_powder_calibration, copy, save, branching from earlier
      builders); the event carries the *calls*, the expected document is computed by TLC (SaveDoc).

Numbers: TLC cannot compare decimals with doubles.  The harness reads the token that stands where the
number was supplied (helper lexer in lib_textio), compares it numerically (lib_textio.number_ok /
su_ok: half a unit of the last printed digit + 4 ulp; su = sqrt(variance) computed with mpmath) and
puts token + flag into the event; TLC checks that exactly this token stands there and that the flag
holds.  Everything else (token structure, tags, order, loop shapes, strings up to surrounding
blanks, ids, ASCII, syntax) is decided by TLC.
"""

from __future__ import annotations

import io
import itertools
import math
import os
import struct
import threading
import time
from datetime import datetime, timezone

import numpy as np
import scipp as sc

from .. import lib_textio as T
from ..core import MachineryError
from ..tlc import require_ok, write_ndjson

ALPHABET = '_#$;[]\'" \t\na'
RULE = ('one event = one written file; non-trivial = the supplied content contains a string that needs '
        'delimiters or escaping (blank, quote, LF, TAB, leading _ # $ ; [ ], reserved word, non-ASCII, '
        'empty) or a number with variance, or (builder) at least two calls; distinct by content')

_PRINTABLE = [chr(c) for c in range(32, 127)] + ['\t', '\n']
_ORDINARY = [chr(c) for c in range(33, 127) if c not in T.SPECIAL]
_NONASCII = ['\xb5', '\xc5', '\xe9', 'λ', '₂', '日本', '\U0001f600', '\xa0', ' ', '\x85']
KEYWORDS = ['data_', 'data_x', 'DATA_', 'Data_block', 'save_', 'save_frame', 'SAVE_', 'loop_', 'LOOP_', 'Loop_',
            'stop_', 'STOP_', 'global_', 'GLOBAL_', 'Global_']


# ------------------------------------------------------------------------------------------ values
class Val:
    """One supplied value: kind 's' string, 'n' number, 'nv' number with variance, 'dt' datetime."""

    __slots__ = ('kind', 'v', 'var', 'wrap')

    def __init__(self, kind, v, var=None, wrap='raw'):
        self.kind, self.v, self.var, self.wrap = kind, v, var, wrap

    def cls(self):
        if self.kind == 's':
            return T.str_class(self.v)
        return {'n': 'number', 'nv': 'number_with_variance', 'dt': 'number'}[self.kind]

    def py(self):
        if self.kind == 's':
            return self.v if self.wrap == 'raw' else sc.scalar(self.v)
        if self.kind == 'n':
            if self.wrap == 'raw':
                return self.v
            return sc.scalar(self.v, unit='deg' if self.wrap == 'unit' else None)
        if self.kind == 'nv':
            return sc.scalar(float(self.v), variance=float(self.var), unit='deg' if self.wrap == 'unit' else None)
        return self.v

    def nontrivial(self):
        return self.kind == 'nv' or (self.kind == 's' and self.cls() != 'simple')

    def show(self):
        return repr(self.v) if self.var is None else f'{self.v!r} variance {self.var!r}'


def S(v, wrap='raw'):
    return Val('s', v, wrap=wrap)


def _ascii_shadow(v):
    """Code points of v with non-ASCII characters replaced by '?' (lets TLC see LF + ';')."""
    return [ord(c) if ord(c) < 127 else 63 for c in v]


def cell_for(val: Val, tok):
    """Cell of the supplied document (see CifDocDefs); tok = token the helper found there or None."""
    if val.kind == 's':
        if all(ord(c) < 127 for c in val.v):
            return {'t': 's', 's': T.cps(val.v), 'ok': True}
        return {'t': 'x', 's': _ascii_shadow(val.v), 'ok': tok is not None and T.ascii_parts_kept(tok, val.v)}
    if tok is None:
        return {'t': 'n', 's': [], 'ok': False}
    if val.kind == 'dt':
        try:
            ok = datetime.fromisoformat(tok) == val.v
        except ValueError:
            ok = False
        return {'t': 'n', 's': T.cps(tok), 'ok': ok}
    return {'t': 'n', 's': T.cps(tok), 'ok': T.number_ok(tok, val.v, val.var)}


# ------------------------------------------------------------------------------------------ generators
def rand_finite(rng):
    while True:
        x = struct.unpack('<d', struct.pack('<Q', rng.getrandbits(64)))[0]
        if math.isfinite(x):
            return x


_SPECIAL_FLOATS = [0.0, -0.0, 5e-324, 2.2250738585072014e-308, -2.2250738585072014e-308, 1.7976931348623157e308,
                   -1.7976931348623157e308, 1 / 3, math.pi, 1e300, 1e-300, 1e22, 1e-7, 123456789.125, 0.1, -2.5]


def rand_number(rng):
    k = rng.randrange(6)
    if k == 0:
        return Val('n', rand_finite(rng), wrap=rng.choice(['raw', 'scalar', 'unit']))
    if k == 1:
        return Val('n', rng.choice(_SPECIAL_FLOATS), wrap=rng.choice(['raw', 'scalar', 'unit']))
    if k == 2:
        return Val('n', rng.choice([0, 1, -1, 62, 10**18, -(2**63), 2**63 - 1, rng.randrange(-10**9, 10**9)]),
                   wrap=rng.choice(['raw', 'scalar', 'unit']))
    if k == 3:
        return Val('n', rng.uniform(-1000, 1000), wrap=rng.choice(['raw', 'scalar']))
    return rand_number_var(rng)


def rand_number_var(rng):
    """value(su) notation: |x| in {0} u [1e-15, 1e15], su/|x| in [1e-15, 1e6] (see assumptions)."""
    k = rng.randrange(4)
    if k == 0:
        x = rng.choice([-1, 1]) * 10 ** rng.uniform(-15, 15)
    elif k == 1:
        x = rng.uniform(-1000, 1000)
    elif k == 2:
        x = float(rng.randrange(-10**6, 10**6))
    else:
        x = rng.choice([0.0, -0.0, 1 / 3, math.pi, 1e15, -1e-15, 0.1, 2.5, 93.2])
    ax = abs(x) if x else 1.0
    if rng.random() < 0.7:
        su = ax * 10 ** rng.uniform(-15, 6)
    else:
        su = rng.choice([0.0, 1.0, ax, ax / 3, ax * 2.5e-7, 0.95, 0.0949, 0.195, 1.95, 19.5, 9.5, 9.49, 0.0996, 2.1])
    return Val('nv', x, var=su * su, wrap=rng.choice(['scalar', 'unit']))


def rand_string(rng, maxlen=24):
    k = rng.randrange(10)
    n = rng.randrange(1, maxlen + 1)
    if k == 0:
        return ''.join(rng.choice(ALPHABET) for _ in range(rng.randrange(0, 9)))
    if k == 1:
        return ''.join(rng.choice(_PRINTABLE) for _ in range(n))
    if k == 2:   # words with blanks
        return ' '.join(''.join(rng.choice(_ORDINARY) for _ in range(rng.randrange(1, 8))) for _ in range(rng.randrange(1, 5)))
    if k == 3:   # leading special character
        return rng.choice('_#$;[]\'"?.-+') + ''.join(rng.choice(_PRINTABLE[:95]) for _ in range(rng.randrange(0, 8)))
    if k == 4:   # multi-line text, lines may start with anything
        return '\n'.join(''.join(rng.choice(_PRINTABLE[:96]) for _ in range(rng.randrange(0, 12)))
                         for _ in range(rng.randrange(2, 5)))
    if k == 5:
        return rng.choice(KEYWORDS + ['?', '.', '', ' ', '\t', '\n', "'", '"', '1.5', '-3', '1.0(2)', '1e5', "it's", 'a"b',
                                      """'both "kinds"'""", "end'", 'end"', "a' b", 'a" b', """a' b" c"""])
    if k == 6:   # non-ASCII
        return ''.join(rng.choice(_NONASCII + _ORDINARY[:40] + [' ']) for _ in range(rng.randrange(1, 10))) + rng.choice(_NONASCII)
    if k == 7:   # long
        return ''.join(rng.choice(_ORDINARY + [' ']) for _ in range(rng.randrange(80, 300)))
    if k == 8:   # quote followed by blank, both kinds
        return ''.join(rng.choice(['\' ', '" ', '\'', '"', 'a', ' ', '\t']) for _ in range(rng.randrange(1, 8)))
    return ''.join(rng.choice(_ORDINARY) for _ in range(n))


def rand_benign(rng, maxlen=24):
    """A string outside the four input classes of the suspected defects (DESIGN 7 item 5)."""
    for _ in range(200):
        v = rand_string(rng, maxlen)
        if T.str_class(v) not in T.DEFECT_CLASSES and not T.is_ambiguous_keyword_prefix(v):
            return v
    return 'plain'


def rand_any(rng, maxlen=24):
    for _ in range(200):
        v = rand_string(rng, maxlen)
        if not T.is_ambiguous_keyword_prefix(v):
            return v
    return 'plain'


def rand_comment(rng):
    k = rng.randrange(5)
    if k == 0:
        return ''
    if k == 1:
        return 'plain comment'
    if k == 2:
        return rng.choice(['_tag value', 'loop_', 'data_x', ';', ';\n;', "'", '#', 'a\n_b c\nloop_\n_x\n1 2', '\n', 'x\n'])
    if k == 3:
        return rand_string(rng)
    return '\n'.join(rand_string(rng, 10).replace('\n', ' ') for _ in range(rng.randrange(1, 4)))


def rand_name(rng):
    return ''.join(rng.choice(_ORDINARY + list('_#$;[]\'"')) for _ in range(rng.randrange(1, 20)))


# ------------------------------------------------------------------------------------------ low level
class Doc:
    """Plan of a file written through the low-level API: blocks of chunks and loops."""

    def __init__(self, blocks, comment='', target='buffer', special=None, label=''):
        self.blocks, self.comment, self.target, self.special, self.label = blocks, comment, target, special, label

    def expected(self):
        """[(name, [(kind, tags, [Val...])...])] in the abstract-document layout (chunk = its pairs)."""
        out = []
        for b in self.blocks:
            items = []
            for it in b['items']:
                if it['k'] == 'chunk':
                    for tag, val in it['pairs']:
                        items.append(('pair', [tag], [val]))
                else:
                    nrow = len(it['cols'][0])
                    items.append(('loop', it['tags'], [it['cols'][q][r] for r in range(nrow) for q in range(len(it['tags']))]))
            out.append((b['name'], items))
        return out


def _column(vals, rng_unit):
    kind = vals[0].kind
    if kind == 's':
        return sc.array(dims=['row'], values=[v.v for v in vals])
    if kind == 'nv':
        return sc.array(dims=['row'], values=np.array([float(v.v) for v in vals]),
                        variances=np.array([float(v.var) for v in vals]), unit=rng_unit)
    if all(isinstance(v.v, int) for v in vals):
        return sc.array(dims=['row'], values=np.array([v.v for v in vals], dtype='int64'), unit=rng_unit)
    return sc.array(dims=['row'], values=np.array([float(v.v) for v in vals]), unit=rng_unit)


def write_lowlevel(doc: Doc, tmpdir):
    from scippneutron.io import cif

    blocks = []
    for b in doc.blocks:
        content = []
        for it in b['items']:
            if it['k'] == 'chunk':
                pairs = {tag: val.py() for tag, val in it['pairs']}
                content.append(pairs if it.get('as_dict') and not it.get('comment')
                               else cif.Chunk(pairs, comment=it.get('comment', '')))
            else:
                content.append(cif.Loop({tag: _column(col, it.get('unit')) for tag, col in zip(it['tags'], it['cols'], strict=True)},
                                        comment=it.get('comment', '')))
        blocks.append(cif.Block(b['name'], content, comment=b.get('comment', '')))
    arg = blocks[0] if len(blocks) == 1 and doc.target != 'list' else blocks
    if doc.target == 'path':
        p = tmpdir / 'c14-out.cif'
        cif.save_cif(p, arg, comment=doc.comment)
        return p.read_text(encoding='utf-8', errors='surrogateescape')
    if doc.target == 'strpath':
        p = tmpdir / 'c14-out2.cif'
        cif.save_cif(str(p), arg, comment=doc.comment)
        return p.read_text(encoding='utf-8', errors='surrogateescape')
    buf = io.StringIO()
    cif.save_cif(buf, arg, comment=doc.comment)
    return buf.getvalue()


def lowlevel_event(ctx, tid, doc: Doc, tmpdir):
    exp = doc.expected()
    meta = {'api': 'lowlevel', 'doc': doc, 'exp': exp, 'text': None, 'exc': None}
    try:
        text = write_lowlevel(doc, tmpdir)
    except Exception as e:  # noqa: BLE001  (refusal is judged by TLC: allowed only for unrepresentable content)
        meta['exc'] = f'{type(e).__name__}: {e}'[:300]
        meta['exc_type'] = type(e).__name__
        text = None
    meta['text'] = text
    parsed = T.py_read(text)[0] if text is not None else []
    blocks = []
    for bi, (name, items) in enumerate(exp):
        pitems = parsed[bi]['items'] if bi < len(parsed) else []
        eitems = []
        for ji, (kind, tags, vals) in enumerate(items):
            pit = pitems[ji] if ji < len(pitems) else None
            # tokens are resolved position by position as far as the helper's parse goes; where the
            # produced text has fewer values the cell stays unresolved (TLC rejects the shape anyway)
            pv = pit['vals'] if pit is not None and pit['k'] == kind else []
            cells = [cell_for(v, pv[ci] if ci < len(pv) else None) for ci, v in enumerate(vals)]
            eitems.append({'k': kind, 'tags': [T.cps(t) for t in tags], 'vals': cells})
        blocks.append({'name': T.cps(name), 'items': eitems})
    ev = {'tid': tid, 'api': 'lowlevel', 'out': 'text' if text is not None else 'raised',
          'text': T.cps(text) if text is not None else [], 'blocks': blocks, 'name': [], 'calls': []}
    return ev, meta


def single_value_doc(val: Val, rng=None, label=''):
    """The value next to a tag and in the first and the last column of a loop, benign neighbours."""
    z = S('z')
    if val.kind == 's':
        cols = [[val, z], [z, val]]
    else:
        other = Val(val.kind, 1.5 if val.kind != 'nv' else 2.0, var=val.var if val.kind == 'nv' else None, wrap=val.wrap)
        if val.kind == 'n' and isinstance(val.v, int):
            other = Val('n', 7)
        if val.kind == 'dt':
            return Doc([{'name': 'b', 'items': [{'k': 'chunk', 'pairs': [('c14.t', val), ('c14.u', z)], 'as_dict': True}]}],
                       special=val, label=label)
        cols = [[val, other], [z, z]]
    return Doc([{'name': 'b', 'items': [
        {'k': 'chunk', 'pairs': [('c14.t', val), ('c14.u', z)], 'as_dict': True},
        {'k': 'loop', 'tags': ['c14.a', 'c14.b'], 'cols': cols}]}], special=val, label=label)


def rand_column(rng, nrow, flavour, nasty_budget):
    """-> list of Val of one kind.  flavour 'clean': benign strings only; 'one': at most one string
    from the whole population per document (nasty_budget is a 1-element list used as a counter)."""
    k = rng.randrange(6)
    if k <= 2:
        col = []
        for _ in range(nrow):
            if flavour == 'all' or (flavour == 'one' and nasty_budget[0] > 0 and rng.random() < 0.05):
                v = rand_any(rng)
                if T.str_class(v) in T.DEFECT_CLASSES:
                    nasty_budget[0] -= 1
            else:
                v = rand_benign(rng)
            col.append(S(v))
        return col
    if k == 3:
        return [rand_number_var(rng) for _ in range(nrow)]
    if k == 4:
        return [Val('n', rng.randrange(-10**6, 10**6)) for _ in range(nrow)]
    return [Val('n', rand_finite(rng) if rng.random() < 0.5 else rng.choice(_SPECIAL_FLOATS)) for _ in range(nrow)]


def rand_doc(rng, flavour, counter):
    budget = [1]
    blocks = []
    names = set()
    for _ in range(rng.choice([1, 1, 1, 2, 3])):
        name = rand_name(rng)
        while name.lower() in names:
            name = rand_name(rng)
        names.add(name.lower())
        items = []
        for _ in range(rng.randrange(1, 5)):
            counter[0] += 1
            j = counter[0]
            if rng.random() < 0.5:
                pairs = []
                for q in range(rng.randrange(1, 5)):
                    r = rng.random()
                    if r < 0.6:
                        if flavour == 'all' or (flavour == 'one' and budget[0] > 0 and rng.random() < 0.1):
                            v = rand_any(rng)
                            if T.str_class(v) in T.DEFECT_CLASSES:
                                budget[0] -= 1
                        else:
                            v = rand_benign(rng)
                        val = S(v, wrap=rng.choice(['raw', 'raw', 'scalar']))
                    elif r < 0.97:
                        val = rand_number(rng)
                    else:
                        val = Val('dt', datetime(2024, rng.randrange(1, 13), rng.randrange(1, 28), rng.randrange(24), 3, 5,
                                                   tzinfo=timezone.utc))
                    pairs.append((f'i{j}.p{q}', val))
                items.append({'k': 'chunk', 'pairs': pairs, 'comment': rand_comment(rng), 'as_dict': rng.random() < 0.3})
            else:
                ncol = rng.randrange(1, 7)
                nrow = rng.choice([1, 1, 2, 3, 5, 8, 20, 50, rng.randrange(1, 51)])
                items.append({'k': 'loop', 'tags': [f'i{j}.c{q}' for q in range(ncol)],
                              'cols': [rand_column(rng, nrow, flavour, budget) for _ in range(ncol)],
                              'comment': rand_comment(rng), 'unit': rng.choice([None, 'one', 'us'])})
        blocks.append({'name': name, 'items': items, 'comment': rand_comment(rng)})
    return Doc(blocks, comment=rand_comment(rng), target=rng.choice(['buffer'] * 6 + ['path', 'strpath', 'list']),
               label=f'random blocks ({flavour})')


# ------------------------------------------------------------------------------------------ builder
def _orcid(rng):
    digits = [rng.randrange(10) for _ in range(15)]
    total = 0
    for d in digits:
        total = (total + d) * 2
    r = (12 - total % 11) % 11
    s = ''.join(map(str, digits)) + ('X' if r == 10 else str(r))
    return '-'.join(s[i:i + 4] for i in range(0, 16, 4))


def _scell(v):
    """Cell for a free-form string handed to the builder; '' / None = not given."""
    if not v:
        return {'t': 'm', 's': [], 'ok': True}
    if all(ord(c) < 127 for c in v):
        return {'t': 's', 's': T.cps(v), 'ok': True}
    return {'t': 'x', 's': _ascii_shadow(v), 'ok': True, '_nonascii': v}


class BState:
    """A real builder together with the calls that produced it."""

    def __init__(self, obj, name, calls, strings, comments):
        self.obj, self.name, self.calls, self.strings, self.comments = obj, name, calls, strings, comments


def _pick_str(rng, st):
    """Free-form string for the builder: benign, or (once per program, 'one' flavour) any string."""
    if st['flavour'] == 'all' or (st['flavour'] == 'one' and st['budget'] > 0 and rng.random() < 0.15):
        v = rand_any(rng, 16)
        if T.str_class(v) in T.DEFECT_CLASSES:
            st['budget'] -= 1
        return v
    return rand_benign(rng, 16)


def builder_step(rng, st, src: BState):
    """Apply one random with_* / copy call to src; returns the new BState (src is not touched)."""
    from scippneutron import metadata
    from scippneutron.io import cif

    op = rng.choice(['authors', 'authors', 'beamline', 'reducers', 'data', 'calib', 'copy'])
    calls, strings, comments = list(src.calls), list(src.strings), list(src.comments)
    if op == 'copy':
        return BState(src.obj.copy(), src.name, [*calls, {'op': 'copy'}], strings, comments)
    if op == 'authors':
        people, cells = [], []
        for _ in range(rng.choice([1, 1, 2, 3])):
            name = _pick_str(rng, st) or 'N N'
            if not name.strip(' \t\n'):
                name = 'N N'
            role = rng.choice([None, None, 'measurement', _pick_str(rng, st)])
            address = rng.choice([None, None, 'Partikelgatan, Lund', 'Street 1\nTown', _pick_str(rng, st)])
            email = rng.choice([None, None, 'jane.doe@ess.eu', 'a_b@scipp.eu'])
            orcid = rng.choice([None, _orcid(rng)])
            short = rng.random() < 0.5
            corr = rng.random() < 0.4
            p = metadata.Person(name=name, role=role, address=address, email=email, corresponding=corr,
                                orcid_id=(orcid if short else 'https://orcid.org/' + orcid) if orcid else None)
            people.append(p)
            cells.append({'name': _scell(name), 'email': _scell(email), 'address': _scell(address),
                          'orcid': _scell('https://orcid.org/' + orcid if orcid else None), 'role': _scell(role), 'corr': corr})
            strings += [s for s in (name, role, address) if s]
        return BState(src.obj.with_authors(*people), src.name, [*calls, {'op': 'authors', 'people': cells}], strings, comments)
    if op == 'reducers':
        items = [_pick_str(rng, st) or 'prog 1' for _ in range(rng.choice([1, 1, 2, 3]))]
        items = [s if s.strip(' \t\n') else 'prog 1' for s in items]
        return BState(src.obj.with_reducers(*items), src.name, [*calls, {'op': 'reducers', 'items': [_scell(s) for s in items]}],
                      strings + items, comments)
    comment = rand_comment(rng)
    comments = [*comments, comment]
    if op == 'beamline':
        name = _pick_str(rng, st) or 'BL'
        if not name.strip(' \t\n'):
            name = 'BL'
        fac = rng.choice([None, 'MAX IV', 'Some Lab', _pick_str(rng, st)])
        if fac is not None and (not fac.strip(' \t\n') or fac.lower() in cif._KNOWN_SPALLATION_SOURCES):
            fac = 'Some Lab'
        source = rng.choice(['none', 'none', 'spallation', 'reactor', 'synchrotron'])
        stype = {'spallation': metadata.SourceType.SpallationNeutronSource, 'reactor': metadata.SourceType.ReactorNeutronSource,
                 'synchrotron': metadata.SourceType.SynchrotronXraySource}.get(source)
        src_obj = None
        if stype is not None:
            src_obj = metadata.Source(source_type=stype, probe=metadata.RadiationProbe.Xray if source == 'synchrotron'
                                      else metadata.RadiationProbe.Neutron)
        new = src.obj.with_beamline(metadata.Beamline(name=name, facility=fac), src_obj, comment=comment)
        call = {'op': 'beamline', 'name': _scell(name), 'facility': _scell(fac), 'hasfac': fac is not None, 'source': source}
        return BState(new, src.name, [*calls, call], strings + [s for s in (name, fac) if s], comments)
    if op == 'data':
        n = rng.choice([1, 2, 3, 5, 12, 50])
        coord = rng.choice(['tof', 'dspacing'])
        yname = rng.choice(['', 'intensity_net', 'intensity_norm', 'intensity_total'])
        cvar, yvar = rng.random() < 0.3, rng.random() < 0.7
        xs = [rand_number_var(rng) for _ in range(n)]
        ys = [rand_number_var(rng) for _ in range(n)]
        cv = sc.array(dims=[coord], values=np.array([float(v.v) for v in xs]),
                      variances=np.array([float(v.var) for v in xs]) if cvar else None, unit='us' if coord == 'tof' else 'angstrom')
        yv = sc.array(dims=[coord], values=np.array([float(v.v) for v in ys]),
                      variances=np.array([float(v.var) for v in ys]) if yvar else None, unit=rng.choice(['one', 'counts']))
        da = sc.DataArray(yv, coords={coord: cv}, name=yname)
        new = src.obj.with_reduced_powder_data(da, comment=comment)
        call = {'op': 'data', 'coord': coord, 'yname': yname or 'intensity_norm', 'cvar': cvar, 'yvar': yvar, 'n': n,
                '_xs': xs, '_ys': ys}
        return BState(new, src.name, [*calls, call], strings, comments)
    # calibration
    n = rng.choice([1, 2, 3, 4])
    powers = rng.sample([0, 1, 2, -1, 3, -2], n)
    hasvar = rng.random() < 0.5
    cs = [rand_number_var(rng) for _ in range(n)]
    cal = sc.DataArray(sc.array(dims=['cal'], values=np.array([float(v.v) for v in cs]),
                                variances=np.array([float(v.var) for v in cs]) if hasvar else None),
                       coords={'power': sc.array(dims=['cal'], values=powers)})
    new = src.obj.with_powder_calibration(cal, comment=comment)
    call = {'op': 'calib', 'hasvar': hasvar, 'n': n, '_powers': powers, '_cs': cs}
    return BState(new, src.name, [*calls, call], strings, comments)


def _ncell(tok, ok):
    return {'t': 'n', 's': T.cps(tok) if tok is not None else [], 'ok': bool(ok and tok is not None)}


def builder_event(tid, bs: BState, text, exc):
    """Event for one save(): the calls as data, with the number cells resolved against the text."""
    parsed = T.py_read(text)[0] if text is not None else []
    items = parsed[0]['items'] if parsed else []
    data_loops = [it for it in items if it['k'] == 'loop' and it['tags'] and it['tags'][0] == 'pd_data.point_id']
    cal_loops = [it for it in items if it['k'] == 'loop' and it['tags'] and it['tags'][0] == 'pd_calib_d_to_tof.id']
    ndata = sum(1 for c in bs.calls if c['op'] == 'data')
    ncal = sum(1 for c in bs.calls if c['op'] == 'calib')
    calls = []
    di = ci = 0
    for c in bs.calls:
        if c['op'] == 'data':
            nc = 3 + c['cvar'] + c['yvar']
            lp = data_loops[di] if len(data_loops) == ndata else None
            di += 1
            ok_shape = lp is not None and len(lp['vals']) == c['n'] * nc
            cells = []
            for r in range(c['n']):
                row = lp['vals'][r * nc:(r + 1) * nc] if ok_shape else [None] * nc
                p = 1
                x, y = c['_xs'][r], c['_ys'][r]
                cells.append(_ncell(row[p], row[p] is not None and T.number_ok(row[p], x.v)))
                p += 1
                if c['cvar']:
                    cells.append(_ncell(row[p], row[p] is not None and T.su_ok(row[p], x.var)))
                    p += 1
                cells.append(_ncell(row[p], row[p] is not None and T.number_ok(row[p], y.v)))
                p += 1
                if c['yvar']:
                    cells.append(_ncell(row[p], row[p] is not None and T.su_ok(row[p], y.var)))
            calls.append({k: v for k, v in c.items() if not k.startswith('_')} | {'cells': cells})
        elif c['op'] == 'calib':
            nc = 3 + c['hasvar']
            lp = cal_loops[ci] if len(cal_loops) == ncal else None
            ci += 1
            ok_shape = lp is not None and len(lp['vals']) == c['n'] * nc
            cells = []
            for r in range(c['n']):
                row = lp['vals'][r * nc:(r + 1) * nc] if ok_shape else [None] * nc
                cells.append({'t': 'x', 's': [], 'ok': True})
                cells.append(_ncell(row[1], row[1] is not None and T.number_ok(row[1], c['_powers'][r])))
                cells.append(_ncell(row[2], row[2] is not None and T.number_ok(row[2], c['_cs'][r].v)))
                if c['hasvar']:
                    cells.append(_ncell(row[3], row[3] is not None and T.su_ok(row[3], c['_cs'][r].var)))
            calls.append({'op': 'calib', 'hasvar': c['hasvar'], 'cells': cells})
        elif c['op'] == 'authors':
            calls.append({'op': 'authors', 'people': [{k: _resolve(v, text) for k, v in p.items()} for p in c['people']]})
        elif c['op'] == 'reducers':
            calls.append({'op': 'reducers', 'items': [_resolve(v, text) for v in c['items']]})
        elif c['op'] == 'beamline':
            calls.append({k: _resolve(v, text) for k, v in c.items()})
        else:
            calls.append(c)
    return {'tid': tid, 'api': 'builder', 'out': 'text' if text is not None else 'raised',
            'text': T.cps(text) if text is not None else [], 'blocks': [], 'name': T.cps(bs.name), 'calls': calls}


def _resolve(cell, text):
    """Non-ASCII strings handed to the builder: ok = the text keeps their ASCII parts in order."""
    if isinstance(cell, dict) and '_nonascii' in cell:
        return {'t': 'x', 's': cell['s'], 'ok': text is not None and T.ascii_parts_kept(text, cell['_nonascii'])}
    return cell


def run_builder_program(ctx, rng, flavour, tid0, events, metas):
    from scippneutron.io import cif

    st = {'flavour': flavour, 'budget': 1}
    name = rand_name(rng)
    comment = rand_comment(rng)
    try:
        pool = [BState(cif.CIF(name, comment=comment), name, [], [], [comment])]
    except Exception as e:  # noqa: BLE001
        ctx.violation(f'builder: cif.CIF() raised {type(e).__name__} for a valid block name', {'name': name, 'exc': repr(e)})
        return tid0
    tid = tid0
    nsteps = rng.randrange(1, 8)
    for step in range(nsteps):
        src = rng.choice(pool)
        try:
            new = builder_step(rng, st, src)
        except Exception as e:  # noqa: BLE001
            ctx.violation(f'builder: with_* call raised {type(e).__name__} for admissible input',
                          {'calls': [c['op'] for c in src.calls], 'exc': repr(e)[:300]})
            continue
        pool.append(new)
        if step == nsteps - 1 or rng.random() < 0.35:
            for target in (new, rng.choice(pool)) if rng.random() < 0.3 else (new,):
                for _ in range(2 if rng.random() < 0.2 else 1):   # a second save of the same builder is a program too
                    buf = io.StringIO()
                    text, exc = None, None
                    try:
                        target.obj.save(buf)
                        text = buf.getvalue()
                    except Exception as e:  # noqa: BLE001
                        exc = f'{type(e).__name__}: {e}'[:300]
                    events.append(builder_event(tid, target, text, exc))
                    metas[tid] = {'api': 'builder', 'bs': target, 'text': text, 'exc': exc,
                                  'exc_type': exc.split(':')[0] if exc else None, 'flavour': flavour}
                    ctx.case(nontrivial_id=('b', tid) if len(target.calls) >= 2 else None)
                    tid += 1
    return tid


# ------------------------------------------------------------------------------------------ verdicts
def _tag_of(meta, val):
    for _, items in meta['exp']:
        for kind, tags, vals in items:
            if kind == 'pair' and vals[0] is val:
                return tags[0]
    return None


def _culprit_lowlevel(meta, b, j, c):
    exp = meta['exp']
    if 1 <= b <= len(exp) and 1 <= j <= len(exp[b - 1][1]):
        vals = exp[b - 1][1][j - 1][2]
        return vals[min(max(c, 1), len(vals)) - 1]
    return None


def _awkward(vals):
    return [v for v in vals if v.kind == 's' and v.cls() in T.DEFECT_CLASSES]


def _syntax_only_key(api, le, pe, text, awkward):
    """The token structure is as supplied but the text is not valid CIF 1.1."""
    if le == 'non_ascii_character' and text is not None:
        i = next(k for k, ch in enumerate(text) if ord(ch) > 126)
        line = text[text.rfind('\n', 0, i) + 1:i + 1]
        if line.startswith('#'):
            where = 'file comment' if text.find('data_') > i else 'comment'
            return f'{api}: non-ASCII text in {where} written without escaping', None
        return f'{api}: non-ASCII character written into a value', None
    if len(awkward) == 1:
        return None, awkward[0]
    if le == 'reserved_opener' and text is not None:
        toks, _, at = T.py_lex(text, with_error_index=True)
        bad = toks[at][1] if at is not None and at < len(toks) else None
        hit = [v for v in awkward if T.escaped(v.v) == bad]
        if hit:
            return None, hit[0]
    return f'{api}: text is not valid CIF 1.1 ({le or pe}) although the token structure is as supplied', None


def _key_for(api, clause, val, text, tag=None):
    cls = val.cls()
    how = T.how_written(text, val.v, tag) if (val.kind == 's' and text is not None) else 'as number token'
    if cls in T.DEFECT_CLASSES:
        return f'{T.CLASS_TEXT[cls]} written {how}'
    return f'{api}: {clause} at {T.CLASS_TEXT[cls]} written {how}'


def _cell_to_val(cell):
    """Supplied cell printed by TLC -> Val (strings only; other cells give None)."""
    if isinstance(cell, dict) and cell.get('t') == 's':
        return S(''.join(map(chr, cell.get('s') or [])))
    return None


def judge_rejects(ctx, rejects, metas):
    # smallest files first: the details kept per key (5) are then the minimal reproducers
    for rej in sorted(rejects, key=lambda r: (len(metas[r[2]]['text'] or ''), r[2])):
        _, _line, tid, clause, b, j, c, le, pe, cell = rej
        meta = metas[tid]
        text = meta['text']
        detail = {'clause': clause, 'where': [b, j, c], 'lex_error': le, 'parse_error': pe, 'text': (text or '')[:500]}
        if meta['api'] == 'lowlevel':
            doc = meta['doc']
            allvals = [v for _, items in meta['exp'] for _, _, vs in items for v in vs]
            detail['doc'] = doc.label
            if clause == 'exception_for_representable_content':
                val = doc.special
                cls = val.cls() if val is not None else 'several values'
                ctx.violation(f'lowlevel: {meta["exc_type"]} raised for representable content ({T.CLASS_TEXT.get(cls, cls)})',
                              detail | {'value': val.show() if val else None, 'exc': meta['exc']})
                continue
            if clause == 'syntax':
                key, val = _syntax_only_key('lowlevel', le, pe, text, [doc.special] if doc.special is not None and
                                            doc.special.cls() in T.DEFECT_CLASSES else _awkward(allvals))
                if key is None:
                    key = _key_for('lowlevel', clause, val, text, _tag_of(meta, val))
            else:
                val = _culprit_lowlevel(meta, b, j, c)
                if val is None:
                    key = f'lowlevel: {clause} outside the supplied items'
                else:
                    key = _key_for('lowlevel', clause, val, text, _tag_of(meta, val))
            ctx.violation(key, detail | {'value': val.show() if val else None, 'reproduce': _repro_lowlevel(val, doc)})
        else:
            bs = meta['bs']
            ops = [c['op'] for c in bs.calls]
            detail['calls'] = ops
            awkward = _awkward([S(s) for s in bs.strings])
            if clause == 'exception_for_representable_content':
                ctx.violation(f'builder: {meta["exc_type"]} raised by save() for representable content',
                              detail | {'exc': meta['exc'], 'strings': bs.strings[:20]})
                continue
            if clause in ('author_and_role_ids_inconsistent', 'role_id_without_exactly_one_author_id'):
                ctx.violation(f'builder: {clause}', detail)
                continue
            val = None
            if clause == 'syntax':
                key, val = _syntax_only_key('builder', le, pe, text, awkward)
                if key is None:
                    key = _key_for('builder', clause, val, text)
            else:
                val = _cell_to_val(cell)
                if val is not None and val.cls() in T.DEFECT_CLASSES:
                    key = _key_for('builder', clause, val, text)
                elif val is not None:
                    tag = ''.join(map(chr, cell.get('tag') or []))
                    key = f'builder: {clause} at {T.CLASS_TEXT[val.cls()]} cell of item _{tag}'
                else:
                    kind = cell.get('t') if isinstance(cell, dict) else 'none'
                    tag = ''.join(map(chr, cell.get('tag') or [])) if isinstance(cell, dict) else ''
                    kname = {'n': 'number', 'i': 'id', 'x': 'unprescribed-token', 'm': 'missing-value',
                             'none': 'no'}.get(kind, kind)
                    key = f'builder: {clause} at {kname} cell of item _{tag}' if tag else \
                        f'builder: {clause}: items missing or added at the end of the block'
            ctx.violation(key, detail | {'value': val.show() if val else None, 'awkward_strings': [v.v for v in awkward][:5]})


def _repro_lowlevel(val, doc):
    if val is None or doc.special is None:
        return None
    arg = repr(val.v) if val.var is None else f'sc.scalar({val.v!r}, variance={val.var!r})'
    return ("from scippneutron.io import cif; import io, scipp as sc; b = io.StringIO(); "
            f"cif.save_cif(b, cif.Block('b', [{{'c14.t': {arg}, 'c14.u': 'z'}}])); print(b.getvalue())")


# ------------------------------------------------------------------------------------------ TLC runs
def validate_in_parallel(ctx, events, nproc, timeout):
    """Split the events into nproc NDJSON files of similar size and let one TLC (1 worker, linear
    trace) judge each.  Returns the REJECT tuples with global line numbers removed (tid is global)."""
    if not events:
        return []
    # longest-processing-time-first packing; cost grows faster than linearly with the size of a file
    # (TLC copies sequences on Append)
    cost = [len(e['text']) + 200 + len(e['text']) ** 2 // 4000 for e in events]
    nproc = max(1, min(nproc, len(events)))
    chunks = [[] for _ in range(nproc)]
    load = [0] * nproc
    for i in sorted(range(len(events)), key=lambda i: -cost[i]):
        k = load.index(min(load))
        chunks[k].append(events[i])
        load[k] += cost[i]
    chunks = [c for c in chunks if c]
    results = [None] * len(chunks)
    errors = []

    def work(i):
        try:
            tf = ctx.tmp / f'c14-{i}.ndjson'
            write_ndjson(tf, chunks[i])
            results[i] = ctx.tlc('textio/Trace_Cif.tla', workers=1, env={'TRACE_FILE': str(tf)}, timeout=timeout)
            tf.unlink(missing_ok=True)
        except Exception as e:  # noqa: BLE001
            errors.append(e)

    threads = []
    for i in range(len(chunks)):
        t = threading.Thread(target=work, args=(i,))
        t.start()
        threads.append(t)
        time.sleep(0.25)   # distinct metadir names (tlc.run derives them from the clock)
    for t in threads:
        t.join()
    if errors:
        raise errors[0] if isinstance(errors[0], MachineryError) else MachineryError(repr(errors[0]))
    rejects = []
    for i, res in enumerate(results):
        require_ok(ctx, res, f'Trace_Cif chunk {i}')
        done = res.tagged('DONE')
        if not done or done[0][1] != len(chunks[i]):
            raise MachineryError(f'Trace_Cif chunk {i}: validation incomplete: {done} vs {len(chunks[i])} events')
        nrej = res.tagged('REJECT')
        if len(nrej) != done[0][2]:
            raise MachineryError(f'Trace_Cif chunk {i}: {done[0][2]} rejected events but {len(nrej)} REJECT lines parsed')
        rejects += nrej
    return rejects


def run(ctx):
    ctx.rule = RULE
    ctx.assume('blanks = SP, HT, LF: "strings are recovered up to surrounding blanks" is read with LF as a blank '
               '(weakest reading); CR is not tested; bare ? and . are accepted unquoted (DESIGN 3.4)')
    ctx.assume('strings containing LF immediately followed by ";" cannot be carried by CIF 1.1 (TLC: NoValueHasLfSemi): '
               'an exception is accepted for them, as is any text that still reads back')
    ctx.assume('words that merely start with loop_ / stop_ / global_ (e.g. loop_x) are not generated: whether they are '
               'reserved is read differently by different CIF parsers')
    ctx.assume('value(su) notation is exercised for |x| in {0} u [1e-15,1e15] and su/|x| in [1e-15,1e6]; outside, the '
               "compact formatter of scipp (format spec 'c', not part of scippneutron) prints float artefacts or 'inf(..)'")
    ctx.assume('block names and tags are non-empty strings of non-blank printable ASCII (not in the quantifier); '
               'uniqueness of data names is not demanded (repeating with_beamline repeats names by construction)')
    ctx.assume('builder: column order name, email, address, id_orcid, id and the order audit / authors / roles / content '
               'as shown in the module docstring of io/cif.py; a field is written iff some author of the category has it; '
               'facility names that trigger the undocumented probe/device deduction are not used without a Source')
    ctx.assume('non-ASCII: only "the output is ASCII, the token structure is unchanged and the ASCII parts survive in '
               'order" is demanded, not a particular escape')
    th = ctx.thorough
    nw = int(os.environ.get('VERIF_TLC_WORKERS', '16'))   # developers on a shared machine set this lower

    # ---------------------------------------------------------------- 1. design: TLC exhaustive + negative controls
    # (started now, running next to the generation of the conformance events, joined before the verdicts)
    maxlen = 5 if th else 4
    suffix = '_thorough.cfg' if th else '.cfg'
    model_runs = [('textio/MC_CifLexer.tla', 'MC_CifLexer' + suffix, False), ('textio/MC_CifDoc.tla', 'MC_CifDoc' + suffix, False),
                  ('textio/CifDocBuilder.tla', 'MC_CifDocBuilder' + suffix, False),
                  ('textio/MC_CifLexer.tla', 'Neg_CifLexer_naive.cfg', True), ('textio/MC_CifLexer.tla', 'Neg_CifLexer_lfsemi.cfg', True),
                  ('textio/MC_CifDoc.tla', 'Neg_CifDoc.cfg', True), ('textio/CifDocBuilder.tla', 'Neg_CifDocBuilder.cfg', True)]
    model_results, model_errors = {}, []

    def model_worker(i):
        mod, cfg, neg = model_runs[i]
        try:
            model_results[i] = ctx.tlc(mod, cfg, workers=2 if neg else max(2, nw // 3), timeout=1500, expect_error=neg, count=False)
        except Exception as e:  # noqa: BLE001
            model_errors.append(e)

    model_threads = []
    for i in range(len(model_runs)):
        t = threading.Thread(target=model_worker, args=(i,))
        t.start()
        model_threads.append(t)
        time.sleep(0.3)   # distinct metadir names (tlc.run derives them from the clock)

    # ---------------------------------------------------------------- 2. conformance, low-level API (M1)
    rng = ctx.rng
    events, metas = [], {}
    tid = 0

    def add(doc):
        nonlocal tid
        ev, meta = lowlevel_event(ctx, tid, doc, ctx.tmp)
        events.append(ev)
        metas[tid] = meta
        vals = [v for _, items in meta['exp'] for _, _, vs in items for v in vs]
        nt = doc.special.nontrivial() if doc.special is not None else any(v.nontrivial() for v in vals)
        ctx.case(nontrivial_id=('l', tuple((v.kind, v.v, v.var) for v in vals[:40])) if nt else None)
        tid += 1

    # (a) the string set of the exhaustive model
    for n in range(maxlen + 1):
        for chars in itertools.product(ALPHABET, repeat=n):
            add(single_value_doc(S(''.join(chars)), label='exhaustive alphabet string in pair + 2x2 loop'))
    # (b) reserved words, special tokens, random printable / non-ASCII / long strings, numbers
    for kw in KEYWORDS + ['?', '.', '', '1.5', '-3', '1.0(2)', '\xb5m', 'Unicode: \xb5\xc5', '日本 語']:
        for wrap in ('raw', 'scalar'):
            add(single_value_doc(S(kw, wrap=wrap), label='reserved word / special token in pair + 2x2 loop'))
    for _ in range(6000 if th else 700):
        add(single_value_doc(S(rand_any(rng, 30), wrap=rng.choice(['raw', 'scalar'])), label='random string in pair + 2x2 loop'))
    for where in ('file', 'block', 'chunk', 'loop'):
        for com in ('\xb5m', 'caf\xe9\nsecond line \u65e5\u672c', '_tag loop_ \U0001f600'):
            d = single_value_doc(S('v'), label=f'non-ASCII comment on {where}')
            d.special = None
            if where == 'file':
                d.comment = com
            elif where == 'block':
                d.blocks[0]['comment'] = com
            else:
                d.blocks[0]['items'][0 if where == 'chunk' else 1]['comment'] = com
            add(d)
    for x in _SPECIAL_FLOATS:
        add(single_value_doc(Val('n', x), label='number in pair + loop'))
    for _ in range(3000 if th else 400):
        add(single_value_doc(rand_number(rng), label='number in pair + loop'))
    # (c) random blocks: chunks and loops of 1..50 rows x 1..6 columns
    counter = [0]
    for i in range(2400 if th else 240):
        add(rand_doc(rng, ('clean', 'one', 'clean', 'one', 'clean', 'all')[i % 6], counter))
    ctx.extra['lowlevel_files'] = tid
    n_low = tid

    # ---------------------------------------------------------------- 3. conformance, builder (M2)
    for i in range(1500 if th else 150):
        tid = run_builder_program(ctx, rng, ('clean', 'one', 'clean', 'all')[i % 4], tid, events, metas)
    ctx.extra['builder_saves'] = tid - n_low
    ctx.extra['characters_lexed_by_tlc'] = sum(len(e['text']) for e in events)
    for e in (events[300], events[n_low - 1], events[-1]):
        ctx.sample({k: (v if k not in ('text',) else ''.join(map(chr, v))[:300]) for k, v in e.items()
                    if k not in ('blocks', 'calls')} | {'n_items': sum(len(b['items']) for b in e['blocks']) or len(e['calls'])})

    # ---------------------------------------------------------------- join the model runs
    for t in model_threads:
        t.join()
    if model_errors:
        raise model_errors[0] if isinstance(model_errors[0], MachineryError) else MachineryError(repr(model_errors[0]))
    for i, (mod, cfg, neg) in enumerate(model_runs):
        r = model_results[i]
        if not neg:
            require_ok(ctx, r, f'{mod} / {cfg}')
            ctx.states += r.generated
            ctx.distinct_states += r.distinct
            ctx.transitions += max(r.generated - 1, 0)
    nstrings = sum(len(ALPHABET) ** k for k in range(maxlen + 1))
    if model_results[0].distinct != nstrings:
        raise MachineryError(f'CifLexer explored {model_results[0].distinct} strings, expected {nstrings}')

    # ---------------------------------------------------------------- 4. TLC judges every file
    rejects = validate_in_parallel(ctx, events, nproc=min(nw, 12), timeout=2400)
    ctx.traces(len(events))
    ctx.extra['files_rejected_by_tlc'] = len(rejects)
    judge_rejects(ctx, rejects, metas)

    # ---------------------------------------------------------------- 5. ORCID iD check character of author ids
    # (spec/metadata/Orcid.tla; the ids end up in _audit_author.id_orcid)
    from .. import lib_orcid
    lib_orcid.run(ctx, prefix='orcid')


META = {
    'design_ref': 'DESIGN.md §5 C14',
    'technique': 'TLA+ specification of the CIF 1.1 lexical grammar, document parser and builder; TLC model-checks '
                 'quoting/round-trip/id invariants exhaustively and judges every file written by the real code '
                 '(text handed to TLC as code points)',
    'text': 'TLC proves on all strings up to length 5 over the CIF-significant alphabet that a faithful quoting exists '
            'exactly for strings without LF+";" and that comments never become tokens, and on bounded documents / builder '
            'call sequences that the reference writer reads back and every role id names exactly one author. The real '
            'Chunk/Loop/Block/save_cif and the CIF builder are then driven with that string set, reserved words, numbers '
            'with/without variances, non-ASCII text, loops up to 50x6 and random builder programs; TLC lexes and parses '
            'every produced file with the specification and compares it with what was supplied.',
    'note': 'Trusted: TLC, the JSON transport, scipp. Numeric closeness of number tokens (printed precision, su = '
            'sqrt(variance)) is decided by the harness with exact rationals/mpmath and bound to the token TLC sees. '
            'Strings with LF+";" may be refused; value(su) notation only in a moderate magnitude range.',
}
