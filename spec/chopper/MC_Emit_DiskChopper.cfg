SPECIFICATION ESpec
CONSTANTS
  K = 12
  MaxSlits = 2
  BeamPos = {0, 5}
  Phases <- MC_Phases12
  Ratios <- MC_Ratios
  MaxPulses = 3
  Stride = 97
  SlitStride = 1
