------------------------------ MODULE UnitsDefs ------------------------------
(* Unit algebra for the conversion / geometry kernels (property C07).                        *)
(*                                                                                            *)
(* A unit has a dimension vector <<length, time, mass, angle>> and a scale vector             *)
(* <<k10, kE, kDeg>>: one unit = 10^k10 * 1602176634^kE * (pi/180)^kDeg coherent SI units      *)
(* (1 eV = 1602176634 * 10^-28 J exactly).  All arithmetic is integer vector arithmetic;       *)
(* exponents of formulas are stored doubled so that square roots stay integral.               *)
EXTENDS Integers, Sequences, FiniteSets

V3Add(a, b) == <<a[1] + b[1], a[2] + b[2], a[3] + b[3]>>
V3Scale(n, a) == <<n * a[1], n * a[2], n * a[3]>>
V4Add(a, b) == <<a[1] + b[1], a[2] + b[2], a[3] + b[3], a[4] + b[4]>>
V4Scale(n, a) == <<n * a[1], n * a[2], n * a[3], n * a[4]>>
Z3 == <<0, 0, 0>>
Z4 == <<0, 0, 0, 0>>

FamDim == [ time |-> <<0, 1, 0, 0>>, length |-> <<1, 0, 0, 0>>, invlength |-> <<-1, 0, 0, 0>>,
            energy |-> <<2, -2, 1, 0>>, angle |-> <<0, 0, 0, 1>>, accel |-> <<1, -2, 0, 0>>,
            slowness |-> <<-1, 1, 0, 0>> ]

LengthScale == [ angstrom |-> -10, nm |-> -9, um |-> -6, mm |-> -3, cm |-> -2, m |-> 0, km |-> 3 ]
LengthNames == DOMAIN LengthScale
InvLengthNames == { "1/" \o n : n \in LengthNames }
InvLengthScale == [ u \in InvLengthNames |-> -LengthScale[CHOOSE n \in LengthNames : u = "1/" \o n] ]

UnitFam(u) ==
    IF u \in {"ns", "us", "ms", "s"} THEN "time"
    ELSE IF u \in LengthNames THEN "length"
    ELSE IF u \in InvLengthNames THEN "invlength"
    ELSE IF u \in {"ueV", "meV", "eV", "keV", "J"} THEN "energy"
    ELSE IF u \in {"rad", "deg"} THEN "angle"
    ELSE IF u \in {"m/s^2", "mm/s^2", "m/ms^2"} THEN "accel"
    ELSE IF u = "s/m" THEN "slowness"
    ELSE "unknown"

UnitScale(u) ==
    CASE u = "ns" -> <<-9, 0, 0>> [] u = "us" -> <<-6, 0, 0>> [] u = "ms" -> <<-3, 0, 0>> [] u = "s" -> Z3
      [] u \in LengthNames -> <<LengthScale[u], 0, 0>>
      [] u \in InvLengthNames -> <<InvLengthScale[u], 0, 0>>
      [] u = "ueV" -> <<-34, 1, 0>> [] u = "meV" -> <<-31, 1, 0>> [] u = "eV" -> <<-28, 1, 0>>
      [] u = "keV" -> <<-25, 1, 0>> [] u = "J" -> Z3
      [] u = "rad" -> Z3 [] u = "deg" -> <<0, 0, 1>>
      [] u = "m/s^2" -> Z3 [] u = "mm/s^2" -> <<-3, 0, 0>> [] u = "m/ms^2" -> <<6, 0, 0>>
      [] u = "s/m" -> Z3

UnitDim(u) == FamDim[UnitFam(u)]

(* dimensions of the physical constants: h = kg m^2 / s, m_n = kg *)
DimH == <<2, -1, 1, 0>>
DimMn == <<0, 0, 1, 0>>
=============================================================================
