----------------------------- MODULE SqwContent -----------------------------
(* How the content reaches the file, step by step, on value-ids.                              *)
(*                                                                                          *)
(* Supply: N pixels (9 rows each, value of pixel p in every row ordered like val[p]), a list  *)
(* of 0-based run ids, a chunk size.  WriteMeta records N and the ids of the per-row minimum  *)
(* and maximum.  WriteChunk takes the next `chunk` pixels of every row, packs them pixel by   *)
(* pixel and appends them to the block.  WriteRuns writes the experiment records (1-based     *)
(* run ids) and the instrument / sample containers (index 1 for every run, one object).       *)
(* ReadBack is what a reader returns: 0-based run ids again, the table re-assembled.          *)
(* The invariants state that this equals the declarative content of SqwContentDefs.           *)
(*                                                                                          *)
(* The caller keeps his parameter objects: `held` is the run-id list as it sits in the        *)
(* caller's experiment objects.  Writing a file must leave it alone, and a second file built   *)
(* from the same objects (Rebuild, MaxGen = 2) must again have the content that was supplied.  *)
(* Run ids are listed in whatever order the caller lists his runs (the pixel row `irun`        *)
(* indexes that list), in particular not sorted.                                               *)
EXTENDS SqwContentDefs

CONSTANTS NPix, Chunks, RunLists, Orders, MaxGen, Bug
(* Bug: "none" | "rows" | "stale" | "zerobased" | "zeroidx" | "firstchunk" | "sortruns" | "inplace" *)
(* Orders: set of functions N -> value order, given as sequences; val[p] = rank of pixel p     *)

VARIABLES n, chunk, runs, val, phase, off, block, meta, fileruns, idx, nuniq, readruns, readtable,
          held,   \* the run ids as they sit in the caller's objects (what the next build is handed)
          gen     \* how many files have been built from these objects
vars == <<n, chunk, runs, val, phase, off, block, meta, fileruns, idx, nuniq, readruns, readtable, held, gen>>

Min2(a, b) == IF a < b THEN a ELSE b

Init == /\ n \in NPix /\ chunk \in Chunks /\ runs \in RunLists
        /\ val \in {o \in Orders : Len(o) = n}
        /\ phase = "meta" /\ off = 0 /\ block = <<>>
        /\ meta = [npix |-> -1, minp |-> 0, maxp |-> 0]
        /\ fileruns = <<>> /\ idx = <<>> /\ nuniq = 0 /\ readruns = <<>> /\ readtable = <<>>
        /\ held = runs /\ gen = 1

(* pixels whose value is the smallest / largest among those looked at *)
ArgMin(P) == CHOOSE p \in P : \A q \in P : val[p] <= val[q]
ArgMax(P) == CHOOSE p \in P : \A q \in P : val[p] >= val[q]
Looked == IF Bug = "firstchunk" THEN 1..Min2(chunk, n) ELSE 1..n

WriteMeta == /\ phase = "meta" /\ phase' = "pix"
             /\ meta' = [npix |-> n,
                         minp |-> IF n = 0 THEN 0 ELSE ArgMin(Looked),
                         maxp |-> IF n = 0 THEN 0 ELSE ArgMax(Looked)]
             /\ UNCHANGED <<n, chunk, runs, val, off, block, fileruns, idx, nuniq, readruns, readtable, held, gen>>

LoopBound == IF Bug = "rows" THEN NRows ELSE n
(* the slice of every row that goes into this chunk *)
SliceStart == IF Bug = "stale" THEN 0 ELSE off

WriteChunk ==
    /\ phase = "pix" /\ off < LoopBound
    /\ LET remaining == n - Min2(off, n)
           m == Min2(chunk, remaining)
           piece == [k \in 1..(NRows * m) |->
                        PixId(SliceStart + ((k - 1) \div NRows) + 1, ((k - 1) % NRows) + 1)]
       IN block' = block \o piece
    /\ off' = off + chunk
    /\ UNCHANGED <<n, chunk, runs, val, phase, meta, fileruns, idx, nuniq, readruns, readtable, held, gen>>

PixDone == /\ phase = "pix" /\ off >= LoopBound /\ phase' = "runs"
           /\ UNCHANGED <<n, chunk, runs, val, off, block, meta, fileruns, idx, nuniq, readruns, readtable, held, gen>>

(* ascending rearrangement of a sequence of distinct integers (negative control only) *)
RECURSIVE SortedSeq(_)
SortedSeq(S) == IF S = {} THEN <<>> ELSE LET m == MinOf(S) IN <<m>> \o SortedSeq(S \ {m})

(* the records are written from what the caller's objects hold, in the caller's order; the      *)
(* negative controls write them 0-based, sorted, or bump the caller's own ids in place          *)
WriteRuns == /\ phase = "runs" /\ phase' = "read"
             /\ LET src == IF Bug = "sortruns" THEN SortedSeq(Range(held)) ELSE held
                    out == IF Bug = "zerobased" THEN src ELSE [i \in 1..Len(src) |-> src[i] + 1]
                IN /\ fileruns' = out
                   /\ held' = IF Bug = "inplace" THEN out ELSE held
             /\ idx' = [i \in 1..Len(runs) |-> IF Bug = "zeroidx" THEN 0 ELSE 1]
             /\ nuniq' = 1
             /\ UNCHANGED <<n, chunk, runs, val, off, block, meta, readruns, readtable, gen>>

ReadBack == /\ phase = "read" /\ phase' = "done"
            /\ readruns' = [i \in 1..Len(fileruns) |-> fileruns[i] - 1]
            /\ readtable' = [p \in 1..(Len(block) \div NRows) |-> [r \in 1..NRows |-> block[NRows * (p - 1) + r]]]
            /\ UNCHANGED <<n, chunk, runs, val, off, block, meta, fileruns, idx, nuniq, held, gen>>

(* another file from the same objects (another target): everything is written again *)
Rebuild == /\ phase = "done" /\ gen < MaxGen
           /\ gen' = gen + 1 /\ phase' = "meta" /\ off' = 0 /\ block' = <<>>
           /\ meta' = [npix |-> -1, minp |-> 0, maxp |-> 0]
           /\ fileruns' = <<>> /\ idx' = <<>> /\ nuniq' = 0 /\ readruns' = <<>> /\ readtable' = <<>>
           /\ UNCHANGED <<n, chunk, runs, val, held>>

Next == WriteMeta \/ WriteChunk \/ PixDone \/ WriteRuns \/ ReadBack \/ Rebuild
Spec == Init /\ [][Next]_vars

-----------------------------------------------------------------------------
Written == phase \in {"runs", "read", "done"}
AllPixelsInOrder == Written => block = PixelTable(n)
RunsEncoding     == Written => IsRunsOf(ExpectedRuns(n), block)
(* never more than declared, never out of order while writing *)
PrefixWhileWriting == phase = "pix" => \A k \in 1..Len(block) : k <= NRows * n => block[k] = k
PixMeta == phase # "meta" =>
    /\ meta.npix = n
    /\ (n > 0 => /\ val[meta.minp] = MinOf(Range(val))
                 /\ val[meta.maxp] = MaxOf(Range(val)))
RunIdsOneBased == phase \in {"read", "done"} => fileruns = FileRunIds(runs)
(* the caller's objects are as he made them, whatever has been written from them *)
InputsUntouched == held = runs
SharedObject   == phase \in {"read", "done"} => idx = ContainerIdx(Len(runs)) /\ nuniq = 1
RoundTrip == phase = "done" =>
    /\ readruns = runs
    /\ Len(readtable) = n
    /\ \A p \in 1..n : \A r \in 1..NRows : readtable[p][r] = PixId(p, r)
=============================================================================
