SPECIFICATION Spec
CONSTANTS
  Universe <- UQ
  ArgSeq <- ArgsQ
  MaxSteps = 3
  LibKnown <- LibQ
  Bug = "first"
  Export = FALSE
INVARIANT Admitted
CHECK_DEADLOCK FALSE
