SPECIFICATION Spec
CONSTANTS
  F = 20
  TMaxs = {0, 1, 20, 47, 60}
  Pulses = {3, 25}
  Offsets = {0, 5}
  Lambdas = {1, 2, 4}
  Dists = {3, 10}
  LamMins = {1, 2}
  LamMaxs = {0, 2, 4, 9}
  Lmins = {0, 2}
  Lmaxs = {10}
  Strides = {1, 2}
  FrameCounts = {1, 3}
  MaxOps = 2
  Bug = "none"
INVARIANT Aligned
INVARIANT PulseRectCount
INVARIANT PulseRectsAtFrameStarts
INVARIANT WorldlineSlope
INVARIANT FasterArrivesEarlier
INVARIANT SameEmissionNeverCross
INVARIANT LabelAtWorldlineEnd
INVARIANT BandShape
INVARIANT BandsShiftedByStride
INVARIANT BandIsWavelengthRange
INVARIANT BandFastEdge
INVARIANT NoOverlapWhenAuto
INVARIANT OverlapIffTooWide
INVARIANT LimitIsNextFastEdge
INVARIANT WorldlineInsideBand
INVARIANT ComponentSpansDiagram
INVARIANT OwnKindsOnly
INVARIANT OrderIndependent
PROPERTY EarlierObjectsKept
CHECK_DEADLOCK FALSE
