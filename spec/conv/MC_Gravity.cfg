SPECIFICATION Spec
CONSTANTS
  GDirs <- MC_GDirs_quick
  Beams <- MC_Beams
  Dets <- MC_Dets
  Qs <- MC_Qs_quick
  Rots <- MC_Gens
  Bug = "none"
INVARIANT TypeOK
INVARIANT Basis
INVARIANT Raised
INVARIANT IsConstruction
INVARIANT PathsAgree
INVARIANT Limit
INVARIANT Larger
INVARIANT ReflTable
INVARIANT MixedBatch
PROPERTY Monotone
PROPERTY RotationInvariant
CHECK_DEADLOCK FALSE
