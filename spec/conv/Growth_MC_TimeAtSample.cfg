SPECIFICATION Spec
CONSTANTS
  TPulse = {0, 3, 100}
  L1s = {1, 4, 25}
  L2s = {1, 2, 9}
  Speeds <- MC_Speeds
  Bug = "none"
INVARIANT AnswerIsPassage
INVARIANT Interpolation
INVARIANT Between
INVARIANT Emit
CHECK_DEADLOCK FALSE
