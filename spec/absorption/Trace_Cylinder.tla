--------------------------- MODULE Trace_Cylinder ---------------------------
(* code -> spec: judges recorded executions of Cylinder.beam_intersection, Cylinder.quadrature *)
(* and compute_transmission_map.  One NDJSON line per call, every line gets a verdict; a        *)
(* rejected event prints <<"REJECT", line, tid, clause>>, the run ends with <<"DONE", n, nbad>>. *)
(*                                                                                              *)
(* What TLC decides here (with the operators of CylinderDefs, i.e. the same ones the exhaustive *)
(* model checks):                                                                               *)
(*   ray    the class of the ray and whether its path length is zero or positive, recomputed    *)
(*          from the integers of the case; it must agree with the class the harness' rational   *)
(*          oracle reported (clause oracle_*: a disagreement is a failure of the machinery, not *)
(*          of the code) and with what the code returned (zero / positive);                     *)
(*   quad   membership of the recorded quadrature points (rounded to 1/64 lattice unit) in the  *)
(*          solid enlarged by 2/64 — a coarse but independent decision by Inside itself — and   *)
(*          the sign pattern of the weights;                                                    *)
(*   trans  that the moved / re-described cylinder the harness used is MoveCyl / OtherEndCyl of *)
(*          the original one, and the recorded range / monotonicity / invariance flags.        *)
(* Numeric closeness (len_ok, sum_ok, cen_ok, moments, inv_ok, tight membership n_out) is        *)
(* computed by the harness from the exact rationals (pi, sqrt via mpmath) and only reported     *)
(* here; `small` says that all intermediate integers of the case fit TLC's 32-bit range.        *)
EXTENDS CylinderDefs, TLC, Json, IOUtils

(* Every event also says HOW the case was handed to the code - the property quantifies over the      *)
(* configurations, not over their presentation, so the verdict is the same for all of them:           *)
(*   lay    (ray) layout of the batch the ray was part of, one of RayLayouts;                          *)
(*   sizes  number type of radius and height, one of SizeTypes;                                        *)
(*   pass   1 = first evaluation, 2 = the same case evaluated again at the end of the run, after all    *)
(*          other calls, in another order / layout; `of` is then the line of the first evaluation and   *)
(*          TLC checks that it really is the same case (clause oracle_replay_is_not_the_same_case).     *)
Tr == ndJsonDeserialize(IOEnv.TRACE_FILE)

Presentation(e, line) ==
    IF e.ev = "ray" /\ e.lay \notin RayLayouts THEN "oracle_unknown_layout"
    ELSE IF e.ev \in {"ray", "quad"} /\ e.sizes \notin SizeTypes THEN "oracle_unknown_size_type"
    ELSE IF e.pass = 1 THEN (IF e.of = 0 THEN "ok" ELSE "oracle_replay_is_not_the_same_case")
    ELSE IF e.pass # 2 \/ ~(e.of \in 1..(line - 1)) THEN "oracle_replay_is_not_the_same_case"
    ELSE LET f == Tr[e.of]
         IN IF f.ev # e.ev \/ f.pass # 1 \/ f.case # e.case \/ f.small # e.small \/ f.c # e.c
               THEN "oracle_replay_is_not_the_same_case"
            ELSE IF e.ev = "ray" /\ (f.s # e.s \/ f.n # e.n \/ f.cls # e.cls) THEN "oracle_replay_is_not_the_same_case"
            ELSE IF e.ev = "quad" /\ f.kind # e.kind THEN "oracle_replay_is_not_the_same_case"
            ELSE IF e.ev = "trans" /\ (f.gc # e.gc \/ f.mode # e.mode) THEN "oracle_replay_is_not_the_same_case"
            ELSE "ok"

VARIABLES l, nbad
tvars == <<l, nbad>>

CylOf(x) == [m |-> x.m, k |-> x.k, b |-> x.b, r |-> x.r, h |-> x.h]

JudgeRay(e) ==
    LET c == CylOf(e.c)
        ray == [s |-> e.s, n |-> e.n]
        cls == IF e.small THEN RayClass(c, ray) ELSE e.cls
    IN  IF e.small /\ ~IsUnit(e.n) THEN "oracle_direction_not_unit"
        ELSE IF e.small /\ ~IsRotation(c.m, c.k) THEN "oracle_frame_not_a_rotation"
        ELSE IF e.small /\ Grazing(c, ray) # e.grazing THEN "oracle_grazing_mismatch"
        ELSE IF e.grazing THEN "ok"                        \* not part of any comparison
        ELSE IF cls # "undecided" /\ cls # e.cls THEN "oracle_class_mismatch"
        ELSE IF e.raised THEN "beam_intersection_raised"
        ELSE IF e.cls \in ZeroClasses /\ ~e.zero THEN "positive_length_for_ray_that_misses"
        ELSE IF e.cls \notin ZeroClasses /\ e.zero THEN "zero_length_for_ray_that_hits"
        ELSE IF ~e.len_ok THEN "length_differs_from_chord"
        ELSE "ok"

JudgeQuad(e) ==
    LET c == CylOf(e.c)
    IN  IF e.raised THEN "quadrature_raised"
        ELSE IF e.small /\ \E i \in 1..Len(e.pts) : ~InsideSl(c, e.pts[i], 2) THEN "points_outside_solid_coarse"
        ELSE IF e.n_out > 0 THEN "points_outside_solid"
        ELSE IF e.n_nonpos > 0 THEN "weights_not_positive"
        ELSE IF ~e.sum_ok THEN "weights_do_not_sum_to_volume"
        ELSE IF ~e.cen_ok THEN "centroid_is_not_centre"
        ELSE IF e.n_mom_bad > 0 THEN "polynomial_moments_wrong"
        ELSE IF e.n_axial_bad > 0 THEN "axial_moments_wrong"          \* z^2, z^4: 'medium' / 'expensive' only
        ELSE "ok"

SameVec(u, v) == \A i \in 1..3 : u[i] * v[4] = v[i] * u[4]
SameCyl(x, y) == /\ \A i, j \in 1..3 : x.m[i][j] * y.k = y.m[i][j] * x.k
                 /\ SameVec(x.b, y.b) /\ x.r = y.r /\ x.h = y.h

JudgeTrans(e) ==
    LET c == CylOf(e.c)
        want == IF e.mode = "otherend" THEN OtherEndCyl(c) ELSE MoveCyl(e.q, e.tau, c)
    IN  IF e.small /\ ~SameCyl(want, CylOf(e.gc)) THEN "oracle_moved_cylinder_mismatch"
        ELSE IF e.raised THEN "transmission_raised"
        ELSE IF ~e.range_ok THEN "transmission_outside_0_1"
        ELSE IF ~e.one_ok THEN "transmission_not_1_without_attenuation"
        ELSE IF ~e.mono_ok THEN "transmission_not_decreasing_with_attenuation"
        ELSE IF ~e.inv_ok THEN "transmission_changes_under_rigid_motion"
        ELSE "ok"

Judge(e, line) ==
    IF e.ev \notin {"ray", "quad", "trans"} THEN "unknown_event"
    ELSE LET p == Presentation(e, line)
         IN IF p # "ok" THEN p
            ELSE IF e.ev = "ray" THEN JudgeRay(e)
            ELSE IF e.ev = "quad" THEN JudgeQuad(e)
            ELSE JudgeTrans(e)

TInit == l = 1 /\ nbad = 0
TNext == /\ l <= Len(Tr)
         /\ l' = l + 1
         /\ LET v == Judge(Tr[l], l) IN
            /\ nbad' = IF v = "ok" THEN nbad ELSE nbad + 1
            /\ (v = "ok" \/ PrintT(<<"REJECT", l, Tr[l].tid, v>>))
TSpec == TInit /\ [][TNext]_tvars
Done == (l = Len(Tr) + 1) => PrintT(<<"DONE", l - 1, nbad>>)
=============================================================================
