from .. import lib_growth_diagram

def run(ctx):
    lib_growth_diagram.run(ctx)
