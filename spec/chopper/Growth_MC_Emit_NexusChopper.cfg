SPECIFICATION ESpec
CONSTANTS
  KTicks = 8
  TableLists <- TableQ
  TableDev = 2
  GeoLists <- GeoQ
  GeoDev = 1
  TableStride = 3
  GeoStride = 1
