------------------------------ MODULE Beamline ------------------------------
(* C03: straight-beamline geometry.                                                      *)
(* State = one beamline configuration (source, sample, detector on an integer lattice   *)
(* box).  The actions are the symmetry operations the property quantifies over: the 24  *)
(* proper lattice rotations, lattice translations of all three positions, positive       *)
(* integer rescaling of either beam, and exchanging the two beams.  The properties say   *)
(* that the angle class (dot, |cross|^2 modulo positive scaling) is unchanged by every   *)
(* action, that lengths transform as Euclidean lengths do, that the class lies in        *)
(* [0, pi] (Cauchy-Schwarz / Lagrange), and that the two definitions of Ltotal relate by *)
(* the law of cosines.                                                                   *)
EXTENDS BeamlineDefs

CONSTANTS CX, CY, CZ,    \* coordinate ranges of the box
          Steps,         \* translation vectors
          Scales,        \* positive integer beam rescalings
          Bug            \* "none" | "b2sign" | "shear" (negative controls)

VARIABLE cfg

InBox(v)    == v[1] \in CX /\ v[2] \in CY /\ v[3] \in CZ
CfgInBox(c) == InBox(c.src) /\ InBox(c.smp) /\ InBox(c.det)
Points      == CX \X CY \X CZ

(* "implementation-shaped" beam definitions, with the seeded mistakes of the controls *)
IScattered(c) == IF Bug = "b2sign" THEN VSub(c.smp, c.det) ELSE ScatteredBeam(c)
IDot(c)       == Dot(IncidentBeam(c), IScattered(c))
ICls(c)       == AngleClass(IncidentBeam(c), IScattered(c))
IScaleScattered(k, c) ==
    IF Bug = "shear"
    THEN [c EXCEPT !.det = VAdd(c.smp, <<k * ScatteredBeam(c)[1], ScatteredBeam(c)[2], ScatteredBeam(c)[3]>>)]
    ELSE ScaleScatteredCfg(k, c)

Init == cfg \in { c \in [src : Points, smp : Points, det : Points] : Proper(c) }

Rotate(R)         == cfg' = RotateCfg(R, cfg) /\ CfgInBox(cfg')
Translate(t)      == cfg' = TranslateCfg(t, cfg) /\ CfgInBox(cfg')
ScaleIncident(k)  == cfg' = ScaleIncidentCfg(k, cfg) /\ CfgInBox(cfg')
ScaleScattered(k) == cfg' = IScaleScattered(k, cfg) /\ CfgInBox(cfg')
Swap              == cfg' = SwapCfg(cfg) /\ CfgInBox(cfg')

AnyRotate    == \E R \in Rot24 : Rotate(R)
AnyTranslate == \E t \in Steps : Translate(t)
AnyScale1    == \E k \in Scales : ScaleIncident(k)
AnyScale2    == \E k \in Scales : ScaleScattered(k)

Next == AnyRotate \/ AnyTranslate \/ AnyScale1 \/ AnyScale2 \/ Swap
Spec == Init /\ [][Next]_cfg

-----------------------------------------------------------------------------
(* State invariants *)
TypeOK == Proper(cfg) /\ CfgInBox(cfg)

(* 0 <= 2theta <= pi : cos^2 <= 1 (Cauchy-Schwarz) and the pair (dot, cross2) is the    *)
(* Lagrange decomposition of |b1|^2 |b2|^2, so atan2(sqrt(cross2), dot) is that angle   *)
Range == /\ IDot(cfg) * IDot(cfg) <= L1sq(cfg) * L2sq(cfg)
         /\ Cross2(cfg) + IDot(cfg) * IDot(cfg) = L1sq(cfg) * L2sq(cfg)
         /\ Cross2(cfg) >= 0

(* the ends and the middle of the range are exactly the parallel / antiparallel /       *)
(* orthogonal configurations                                                            *)
EndPoints ==
    /\ (ICls(cfg) = ClassZero   <=> SameDirection(ScatteredBeam(cfg), IncidentBeam(cfg)))
    /\ (ICls(cfg) = ClassPi     <=> SameDirection(ScatteredBeam(cfg), VNeg(IncidentBeam(cfg))))
    /\ (ICls(cfg) = ClassHalfPi <=> DotB(cfg) = 0)

(* Ltotal without scattering is the straight distance source -> detector; law of        *)
(* cosines: |det - src|^2 = L1^2 + L2^2 + 2 b1.b2  (b1, b2 head to tail)                *)
CosineLaw == LnsSq(cfg) = L1sq(cfg) + L2sq(cfg) + 2 * IDot(cfg)

(* sqrt(LnsSq) <= sqrt(L1sq) + sqrt(L2sq), equality exactly for 2theta = 0             *)
Triangle ==
    LET r == LnsSq(cfg) - L1sq(cfg) - L2sq(cfg) IN
    /\ (r <= 0 \/ r * r <= 4 * L1sq(cfg) * L2sq(cfg))
    /\ ((r >= 0 /\ r * r = 4 * L1sq(cfg) * L2sq(cfg)) <=> ICls(cfg) = ClassZero)

(* broadcasting: in every layout a pixel sees the shared value of a shared role and its own value *)
(* of the others (here: the current configuration as the shared record, its swap as the pixel     *)
(* record), and a batch whose pixel record equals the shared one is that configuration            *)
BroadcastSound ==
    \A lay \in Layouts :
        LET o == SwapCfg(cfg)  e == Element(lay, cfg, o) IN
        /\ e.src = (IF "src" \in SharedRoles(lay) THEN cfg.src ELSE o.src)
        /\ e.smp = cfg.smp                                  \* the swap keeps the sample
        /\ e.det = (IF "det" \in SharedRoles(lay) THEN cfg.det ELSE o.det)
        /\ Element(lay, cfg, cfg) = cfg
        /\ (lay = "pixelwise" => Exact(e) = Exact(o)) /\ (lay = "scalars" => Exact(e) = Exact(cfg))

-----------------------------------------------------------------------------
(* Action properties *)
(* the scattering angle is unchanged by every symmetry operation (incl. the swap:       *)
(* symmetric in its two beams)                                                          *)
AngleInvariant == [][ICls(cfg') = ICls(cfg)]_cfg

(* rigid motions keep all lengths *)
RigidLengths ==
    [][(AnyRotate \/ AnyTranslate) =>
         /\ L1sq(cfg') = L1sq(cfg) /\ L2sq(cfg') = L2sq(cfg) /\ LnsSq(cfg') = LnsSq(cfg)
         /\ DotB(cfg') = DotB(cfg) /\ Cross2(cfg') = Cross2(cfg)]_cfg

(* rescaling a beam by k multiplies its length by k and leaves the other one alone *)
ScaleLaw ==
    [][/\ \A k \in Scales : ScaleIncident(k) =>
              L1sq(cfg') = k * k * L1sq(cfg) /\ L2sq(cfg') = L2sq(cfg) /\ cfg'.smp = cfg.smp
       /\ \A k \in Scales : ScaleScattered(k) =>
              L2sq(cfg') = k * k * L2sq(cfg) /\ L1sq(cfg') = L1sq(cfg) /\ cfg'.smp = cfg.smp]_cfg

SwapLaw ==
    [][Swap => /\ L1sq(cfg') = L2sq(cfg) /\ L2sq(cfg') = L1sq(cfg) /\ LnsSq(cfg') = LnsSq(cfg)
               /\ IncidentBeam(cfg') = ScatteredBeam(cfg) /\ ScatteredBeam(cfg') = IncidentBeam(cfg)]_cfg
=============================================================================
