------------------------- MODULE Emit_UnitsKernels -------------------------
(* Constant-level enumeration of the unit grid and of the dtype grid of every kernel with the *)
(* specification's expected output unit, its scale vector and the expected precision class.   *)
(* Written as NDJSON to IOEnv.OUT_FILE; the harness replays every row (or a covering sample)  *)
(* into the real kernels.                                                                      *)
EXTENDS UnitsKernelsDefs, TLC, Json, IOUtils, SequencesExt

TimeU   == {"ns", "us", "ms", "s"}
LengthU == {"angstrom", "mm", "cm", "m", "km"}
EnergyU == {"ueV", "meV", "eV", "keV", "J"}
AngleU  == {"rad", "deg"}
AccelU  == {"m/s^2", "mm/s^2", "m/ms^2"}
InvU    == {"1/angstrom", "1/nm", "1/m"}
EmitUnits == TimeU \cup LengthU \cup EnergyU \cup AngleU \cup AccelU \cup InvU

(* vector operands are always vector3 (double); their dtype is not a choice *)
VectorArgs == {"incident_beam", "scattered_beam", "gravity"}
DT3 == {"float64", "float32", "int64"}

UAssign(k) == { U \in [ArgSet(k) -> EmitUnits] : \A a \in ArgSet(k) : UnitFam(U[a]) = ArgFam[a] }
DBase(k) == { D \in [ArgSet(k) -> DT3] : \A a \in ArgSet(k) \cap VectorArgs : D[a] = "float64" }
(* int32 in one scalar operand at a time, the others all double or all single *)
DInt32(k) == { [a \in ArgSet(k) |-> IF a = b THEN "int32"
                                    ELSE IF a \in VectorArgs THEN "float64" ELSE d] :
                 b \in ArgSet(k) \ VectorArgs, d \in {"float64", "float32"} }
DAssign(k) == DBase(k) \cup DInt32(k)

(* The expected output unit depends on (kernel, U) only and the precision class on (kernel, D)  *)
(* only, so the grid is written as its two factor tables; the harness forms the product.       *)
URow(k, U) == [ t |-> "U", k |-> k, U |-> U, out |-> OutName(k, U, "none"),
                os |-> UnitScale(OutName(k, U, "none")), args |-> Kernel[k].args ]
DRow(k, D) == [ t |-> "D", k |-> k, D |-> D, dt |-> ResultDType(Kernel[k].data, D, "none"),
                data |-> SetToSeq(Kernel[k].data) ]
URows == UNION { { URow(k, U) : U \in UAssign(k) } : k \in KernelNames }
DRows == UNION { { DRow(k, D) : D \in DAssign(k) } : k \in KernelNames }

(* the scale table itself, so that the harness can cross-check its own exact SI factors *)
ScaleTable == [ u \in EmitUnits \cup {"rad", "s/m"} |-> UnitScale(u) ]

ASSUME PrintT(<<"SCALES", ScaleTable>>)
ASSUME PrintT(<<"ROWS", Cardinality(URows), Cardinality(DRows)>>)
ASSUME ndJsonSerialize(IOEnv.OUT_FILE, SetToSeq(URows) \o SetToSeq(DRows))
=============================================================================
