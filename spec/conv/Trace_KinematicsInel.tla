------------------------ MODULE Trace_KinematicsInel ------------------------
(* Judge of recorded executions of the real inelastic kernels / convert() (C05).             *)
(*  ev = "flight": a neutron detected at t = L1/v(Ei) + L2/v(Ef); the result must be a number *)
(*                 (ArrivalAfterT0 + Boundary of the specification), in the unit of the       *)
(*                 supplied energy, and close to Ei - Ef (flag computed by the harness from   *)
(*                 the specification's exact rational).                                       *)
(*  ev = "scan"  : arrival times around / far from the exact t0 of the fixed-energy leg, each *)
(*                 with its side (computed exactly by the harness) and the class of the       *)
(*                 returned value; judged with the specification's AllowedClasses.            *)
EXTENDS KinematicsInelDefs, Sequences, TLC, Json, IOUtils

Tr == ndJsonDeserialize(IOEnv.TRACE_FILE)
VARIABLES l, nbad
tvars == <<l, nbad>>

Modes == {"direct", "indirect"}
Sides == {"below", "at", "band", "above"}

JudgeFlight(e) ==
    IF e.mode \notin Modes THEN "unknown_mode"
    ELSE IF e.status # "ok" THEN "kernel_raised"
    ELSE IF e.unit_out # e.unit_in THEN "result_not_in_unit_of_supplied_energy"
    ELSE IF e.cls = "inf" THEN "infinite_result"
    ELSE IF e.cls \notin AllowedClasses("above") THEN "physical_arrival_not_a_number"
    ELSE IF ~e.close THEN "energy_not_conserved"
    ELSE "ok"

JudgeScan(e) ==
    IF e.mode \notin Modes THEN "unknown_mode"
    ELSE IF e.status # "ok" THEN "kernel_raised"
    ELSE IF e.unit_out # e.unit_in THEN "result_not_in_unit_of_supplied_energy"
    ELSE IF Len(e.sides) # Len(e.cls) THEN "scan_length"
    ELSE IF \E i \in 1..Len(e.cls) : e.cls[i] = "inf" THEN "infinite_result"
    ELSE IF \E i \in 1..Len(e.cls) : e.sides[i] \in {"below", "at"} /\ e.cls[i] \notin AllowedClasses(e.sides[i])
         THEN "not_nan_at_or_before_t0"
    ELSE IF \E i \in 1..Len(e.cls) : e.sides[i] = "above" /\ e.cls[i] \notin AllowedClasses("above")
         THEN "nan_after_t0"
    ELSE IF \E i \in 1..Len(e.cls) : e.sides[i] \notin Sides \/ e.cls[i] \notin AllowedClasses(e.sides[i])
         THEN "class_not_allowed"
    ELSE "ok"

Judge(e) == IF e.ev = "flight" THEN JudgeFlight(e)
            ELSE IF e.ev = "scan" THEN JudgeScan(e)
            ELSE "unknown_event"

TInit == l = 1 /\ nbad = 0
TNext == /\ l <= Len(Tr)
         /\ l' = l + 1
         /\ LET v == Judge(Tr[l]) IN
            /\ nbad' = IF v = "ok" THEN nbad ELSE nbad + 1
            /\ (v = "ok" \/ PrintT(<<"REJECT", l, Tr[l].tid, v>>))
TSpec == TInit /\ [][TNext]_tvars
Done == (l = Len(Tr) + 1) => PrintT(<<"DONE", l - 1, nbad>>)
=============================================================================
