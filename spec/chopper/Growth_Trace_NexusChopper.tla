---------------------- MODULE Growth_Trace_NexusChopper ----------------------
(* Code -> spec.  Judges recorded calls of extract_chopper_from_nexus / DiskChopper.from_nexus *)
(* (one NDJSON line per call, written by harness/lib_growth_chopper.py) with the decision      *)
(* table of Growth_NexusChopperDefs.  An event carries                                          *)
(*   g         the group that was built (descriptor as in Growth_NexusChopperDefs; keys a list) *)
(*   direct    TRUE: from_nexus(g);  FALSE: from_nexus(extract_chopper_from_nexus(g))           *)
(*   seen      (direct = FALSE) the forms observed on the post-processed group                  *)
(*   outcome   "accepted" or the name of the exception class                                    *)
(*   res       (accepted) n_slits, slit_begin / slit_end in ticks, slit_height, radius present  *)
(*   same      (accepted) frequency, beam_position, phase, axle_position, radius are the very   *)
(*             values that were passed in                                                       *)
(*   roundtrip (accepted) from_nexus applied to the dict of the chopper gives an equal chopper  *)
(* Every event gets a verdict; a rejected one prints <<"REJECT", line, tid, clause, row>>.      *)
EXTENDS Growth_NexusChopperDefs, TLC, Json, IOUtils

Tr == ndJsonDeserialize(IOEnv.TRACE_FILE)

VARIABLES l, nbad
tvars == <<l, nbad>>

ToSet(s) == { s[i] : i \in 1..Len(s) }
GroupOf(e) == [ e.g EXCEPT !.keys = ToSet(@) ]

SeenOK(e, p) ==
    /\ e.seen.type = (IF p.type \in {"single", "single_enum"} THEN "single" ELSE p.type)
    /\ e.seen.rotation_speed = p.rotation_speed
    /\ e.seen.beam_position = p.beam_position
    /\ e.seen.phase = p.phase
    /\ e.seen.tdc = p.tdc
    /\ e.seen.rest_unchanged

Judge(e) ==
    LET g0 == GroupOf(e)
        g  == IF e.direct THEN g0 ELSE ExtractGroup(g0)
        br == BrokenRows(g)
        none == "-"
    IN  IF e.ev # "nexus" THEN <<"unknown_event", none>>
        ELSE IF ~e.direct /\ e.outcome # "extract_failed" /\ ~SeenOK(e, g)
            THEN <<"post_processing_differs_from_the_documented_layout", none>>
        ELSE IF ~Specified(g) THEN <<"ok", none>>
        ELSE IF e.outcome = "extract_failed" THEN <<"post_processing_raised", none>>
        ELSE IF br = {} /\ e.outcome # "accepted" THEN <<"acceptable_group_refused", e.outcome>>
        ELSE IF br # {} /\ e.outcome = "accepted"
            THEN <<"accepted_although_a_requirement_is_broken", (CHOOSE r \in br : TRUE)[1]>>
        ELSE IF br # {} /\ e.outcome \notin AllowedClasses(g)
            THEN <<"refused_with_an_exception_class_of_no_broken_requirement", e.outcome>>
        ELSE IF br # {} THEN <<"ok", none>>
        ELSE LET want == ResultOf(g) IN
             IF e.res.n # want.n THEN <<"n_slits_is_not_the_number_of_edge_pairs", none>>
             ELSE IF e.res.begin # want.begin \/ e.res.end # want.end
                 THEN <<"begin_end_pairing_or_order_changed", none>>
             ELSE IF e.res.height # want.height THEN <<"slit_height_not_broadcast_per_slit", none>>
             ELSE IF e.res.radius # want.radius THEN <<"radius_lost_or_invented", none>>
             ELSE IF ~e.same THEN <<"field_not_passed_through_unchanged", none>>
             ELSE IF ~e.roundtrip THEN <<"from_nexus_of_the_dict_of_the_chopper_does_not_reproduce_it", none>>
             ELSE <<"ok", none>>

TInit == l = 1 /\ nbad = 0
TNext == /\ l <= Len(Tr)
         /\ l' = l + 1
         /\ LET v == Judge(Tr[l]) IN
            /\ nbad' = IF v[1] = "ok" THEN nbad ELSE nbad + 1
            /\ (v[1] = "ok" \/ PrintT(<<"REJECT", l, Tr[l].tid, v[1], v[2]>>))
TSpec == TInit /\ [][TNext]_tvars
Done == (l = Len(Tr) + 1) => PrintT(<<"DONE", l - 1, nbad>>)
=============================================================================
