--------------------------- MODULE SqwBuilderDefs ---------------------------
(* State-free definitions of the SQW v4.0 container layout, written from the format       *)
(* description (docs/developer/file-formats/sqw.md): file header, block allocation table   *)
(* (BAT), block kinds and their byte sizes, tiling of the file by the declared extents.    *)
(* Shared by the state machine SqwBuilder and by the trace specification                   *)
(* Trace_SqwBuilder.  Integers only; all sizes in bytes.                                   *)
EXTENDS Integers, Sequences, FiniteSets

(* ---- the builder's public calls ("items") and the blocks each one contributes ---------- *)
Items == {"pix", "det", "dnd", "inst", "samp"}

MainHeader  == <<"", "main_header">>
DetPar      == <<"", "detpar">>
DndMeta     == <<"data", "metadata">>
DndData     == <<"data", "nd_data">>
Instruments == <<"experiment_info", "instruments">>
Samples     == <<"experiment_info", "samples">>
ExpData     == <<"experiment_info", "expdata">>
PixMeta     == <<"pix", "metadata">>
PixData     == <<"pix", "data_wrap">>

(* the order of the table of blocks in the format description *)
Canon == <<MainHeader, DetPar, DndMeta, DndData, Instruments, Samples, ExpData, PixMeta, PixData>>
AllNames == {Canon[i] : i \in 1..Len(Canon)}

BlocksOfItem(it) ==
    CASE it = "pix"  -> {ExpData, PixMeta, PixData}
      [] it = "det"  -> {DetPar}
      [] it = "dnd"  -> {DndMeta, DndData}
      [] it = "inst" -> {Instruments}
      [] it = "samp" -> {Samples}

(* the main header is always present *)
ExpectedNames(reg) == {MainHeader} \cup UNION {BlocksOfItem(it) : it \in reg}

Kind(name) == IF name = PixData THEN "pix" ELSE IF name = DndData THEN "dnd" ELSE "regular"
TypeString(kind) == CASE kind = "pix" -> "pix_data_block"
                      [] kind = "dnd" -> "dnd_data_block"
                      [] OTHER        -> "data_block"
KindOfTypeString(s) == CASE s = "pix_data_block" -> "pix"
                         [] s = "dnd_data_block" -> "dnd"
                         [] s = "data_block"     -> "regular"
                         [] OTHER                -> "unknown"

(* serial_name of the object a regular block must hold *)
SerialName(name) ==
    CASE name = MainHeader  -> "main_header_cl"
      [] name = DetPar      -> "unique_references_container"
      [] name = DndMeta     -> "dnd_metadata"
      [] name = Instruments -> "unique_references_container"
      [] name = Samples     -> "unique_references_container"
      [] name = ExpData     -> "IX_experiment"
      [] name = PixMeta     -> "pix_metadata"
      [] OTHER              -> ""

(* ---- sizes ----------------------------------------------------------------------------- *)
(* header: char array 'horace' (u32 + 6), f64 version, u32 type, u32 n_dims *)
HeaderLen == 4 + 6 + 8 + 4 + 4
CharArrayLen(s) == 4 + Len(s)
(* descriptor: block type, name, level-2 name, u64 position, u32 size, u32 locked *)
DescLen(name) == CharArrayLen(TypeString(Kind(name))) + CharArrayLen(name[1]) + CharArrayLen(name[2])
                 + 8 + 4 + 4
RECURSIVE SumDesc(_)
SumDesc(names) == IF names = <<>> THEN 0 ELSE DescLen(Head(names)) + SumDesc(Tail(names))
(* BAT: u32 size, u32 n_blocks, descriptors *)
BatLen(names) == 4 + 4 + SumDesc(names)

NRows == 9
PixSize(npix) == 4 + 8 + NRows * 4 * npix
RECURSIVE Prod(_)
Prod(shape) == IF shape = <<>> THEN 1 ELSE Head(shape) * Prod(Tail(shape))
DndSize(shape) == 4 + 4 * Len(shape) + 3 * 8 * Prod(shape)

Min(a, b) == IF a < b THEN a ELSE b
CeilDiv(a, b) == (a + b - 1) \div b

(* ---- layout ---------------------------------------------------------------------------- *)
(* positions of consecutive blocks of the given sizes, the first one at `start` *)
RECURSIVE Positions(_, _)
Positions(sizes, start) ==
    IF sizes = <<>> THEN <<>> ELSE <<start>> \o Positions(Tail(sizes), start + Head(sizes))
RECURSIVE SumSeq(_)
SumSeq(s) == IF s = <<>> THEN 0 ELSE Head(s) + SumSeq(Tail(s))

(* ext = sequence of <<position, size>>.  Sorted by position, they start at `start`, each     *)
(* begins where the previous one ends, and the last ends at `eof`.                            *)
RECURSIVE SortByPos(_)
SortByPos(S) == IF S = {} THEN <<>>
                ELSE LET m == CHOOSE e \in S : \A q \in S : e[1] < q[1] \/ (e[1] = q[1] /\ e[2] <= q[2])
                     IN <<m>> \o SortByPos(S \ {m})
ExtSet(ext) == {ext[i] : i \in 1..Len(ext)}
StartsAt(ext, start) == ext = <<>> \/ (\E e \in ExtSet(ext) : e[1] = start /\ \A q \in ExtSet(ext) : q[1] >= start)
Contiguous(ext) ==
    LET s == SortByPos(ExtSet(ext))
    IN /\ Cardinality(ExtSet(ext)) = Len(ext)                       \* no two extents coincide
       /\ \A i \in 1..(Len(s) - 1) : s[i+1][1] = s[i][1] + s[i][2]   \* no gap, no overlap
EndOf(ext, start) == IF ext = <<>> THEN start
                     ELSE LET s == SortByPos(ExtSet(ext)) IN s[Len(s)][1] + s[Len(s)][2]
Tiles(ext, start, eof) == StartsAt(ext, start) /\ Contiguous(ext) /\ EndOf(ext, start) = eof

(* ---- byte order: what a reader sees in the first length field --------------------------- *)
(* u32 value 6 ('horace') in the given order, read back in either order; the format has no   *)
(* byte-order mark, so a reader takes the order under which the length is the smaller one.    *)
U32As(v, written, readas) == IF written = readas THEN v ELSE v * 16777216   \* v < 256
DeducedOrder(written) ==
    IF U32As(6, written, "little") < U32As(6, written, "big") THEN "little" ELSE "big"

NoDup(s) == \A i, j \in 1..Len(s) : i # j => s[i] # s[j]
Range(s) == {s[i] : i \in 1..Len(s)}
=============================================================================
