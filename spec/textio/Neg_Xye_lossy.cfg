SPECIFICATION Spec
CONSTANTS
  MaxHeader = 3
  MaxRows = 3
  Part = "table"
  Bug = "lossy"
INVARIANT TypeOK
INVARIANT TableTotalExclusive
INVARIANT RefusedNotLossy
INVARIANT RefusalIffUnwritable
INVARIANT FileWellFormed
INVARIANT RoundTrip
CHECK_DEADLOCK FALSE
