SPECIFICATION Spec
CONSTANTS
  K = 12
  MaxSlits = 2
  BeamPos = {5}
  Phases <- MC_PhasesQ
  Ratios <- MC_RatiosQ
  MaxPulses = 3
  MaxTurns = 12
  Pick = 0
  Bug = "truncate"
INVARIANT TypeOK
INVARIANT RejectedIffOverlap
INVARIANT RefusedIffOutOfPhase
INVARIANT OpenBeforeClose
INVARIANT MaximalOpen
INVARIANT OncePerRotation
INVARIANT NoneMissing
INVARIANT DurationIsWidth
INVARIANT DirectCoversPulse
PROPERTY ExpandCoversPulses
INVARIANT ExpandOnePulse
CHECK_DEADLOCK FALSE
