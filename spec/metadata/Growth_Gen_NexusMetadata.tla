--------------------- MODULE Growth_Gen_NexusMetadata ---------------------
(* spec -> code for GROWTH G07.  At constant level TLC writes the decision tables of           *)
(* Growth_NexusMetadataDefs row by row (every row with what the table admits):                 *)
(*   G07_BL   Beamline.from_nexus_entry                                                        *)
(*            family A "selection": 0..3 NXinstrument children x foreign groups (NXsample,     *)
(*               group without NX_class, NXcollection with a nested NXinstrument) x every      *)
(*               instrument_name argument                                                      *)
(*            family B "name field": every text (instrument x case / padding variant, empty,   *)
(*               blank), every HDF5 spelling, short_name attributes, no name field - once as   *)
(*               the only instrument and once selected by instrument_name among two            *)
(*               (Scale = "quick": fewer foreign-group combinations, fewer texts among two)    *)
(*   G07_MS   Measurement.from_nexus_entry: every entry that differs from a complete baseline  *)
(*            entry in one field (all alternatives) or in two fields (the pair alternatives)   *)
(*   G07_UNIVERSE / G07_META   the items of the step machine and the vocabulary, for the       *)
(*            refinement mapping of the harness                                                *)
(* and in simulation mode (Export = TRUE) the step machine prints random build orders with     *)
(* the rows of the table for the content they produce (PrintT <<"BUILD", order, rows>>).       *)
EXTENDS Growth_MC_NexusMetadata, Json, IOUtils, SequencesExt

CONSTANT Scale      \* "quick" | "thorough"

Grp(g, cls, nested, nf) == [gname |-> g, cls |-> cls, nested |-> nested, name |-> nf]
I1 == Grp("ia", "NXinstrument", FALSE, NameF("str", "dream", "canon"))
I2 == Grp("ib", "NXinstrument", FALSE, NameF("arr1", "loki", "lower"))
I3 == Grp("ic", "NXinstrument", FALSE, NameF("bytes", "amor", "title"))
SA == Grp("sa", "NXsample", FALSE, NameF("str", "fakeinst", "canon"))
PL == Grp("pl", "", FALSE, NameF("str", "bifrost", "upper"))
CO == Grp("co", "NXcollection", FALSE, NoName)
NI == Grp("co/ni", "NXinstrument", TRUE, NameF("str", "odin", "title"))

Directs(n) == CASE n = 0 -> {} [] n = 1 -> {I1} [] n = 2 -> {I1, I2} [] n = 3 -> {I1, I2, I3}
ForeignT == { {}, {SA}, {PL}, {CO, NI}, {SA, PL}, {SA, CO, NI}, {PL, CO, NI}, {SA, PL, CO, NI} }
ForeignQ == { {}, {SA}, {CO, NI}, {SA, PL, CO, NI} }
Foreign  == IF Scale = "thorough" THEN ForeignT ELSE ForeignQ
ArgsA == { NoArg, ArgOf("ia"), ArgOf("ib"), ArgOf("ic"), ArgOf("sa"), ArgOf("pl"), ArgOf("co"), ArgOf("co/ni"),
           ArgOf("zz"), ArgOf("title") }
FamilyA == { << Directs(n) \cup f, a >> : n \in 0..3, f \in Foreign, a \in ArgsA }

AllInsts == ESSInstruments \cup SINQInstruments \cup Elsewhere \cup MadeUp
TextsB == { NameF("str", i, v) : i \in AllInsts, v \in Vars }
            \cup { NameF("str", "", "canon"), NameF("str", "", "padded") }
SpellB == { NameF(sp, t[1], t[2]) : sp \in Spellings,
            t \in { <<"dream", "canon">>, <<"amor", "title">>, <<"fakeinst", "canon">>, <<"", "canon">>,
                    <<"hrpt", "padded">> } }
ShortB == { WithShort(NameF("str", t, "canon"), s) : t \in {"fakeinst", "dream", "my instrument"},
            s \in {"dream", "amor", "fakeinst", "powgen", ""} }
NamesB == TextsB \cup SpellB \cup ShortB \cup {NoName}
(* quick: among two instruments only the canonical texts, all spellings, short names              *)
NamesB2 == IF Scale = "thorough" THEN NamesB
           ELSE { nf \in TextsB : nf.var = "canon" } \cup SpellB \cup ShortB \cup {NoName}
FamilyB == { << {Grp("ia", "NXinstrument", FALSE, nf)}, NoArg >> : nf \in NamesB }
             \cup { << {Grp("ia", "NXinstrument", FALSE, nf), I2}, ArgOf("ia") >> : nf \in NamesB2 }

BlCases == FamilyA \cup FamilyB
BlRecord(c) == [groups |-> SetToSeq(c[1]), arg |-> c[2], row |-> BlRow(c[1], c[2])]
BlRecords == LET q == SetToSeq(BlCases) IN [ i \in 1..Len(q) |-> BlRecord(q[i]) ]

-----------------------------------------------------------------------------
BaseStart == TimeF("str", 19724, 11045, 0, "offset", 60)
BaseEnd   == TimeF("str", 19724, 13000, 0, "Z", 0)
Baseline == [ strs  |-> [k \in StrKeys |-> IF k = "entry_identifier" THEN StrF("str", "digits") ELSE StrF("str", "plain")],
              times |-> [k \in TimeKeys |-> IF k = "start_time" THEN BaseStart ELSE BaseEnd] ]

Zones == { <<"naive", 0>>, <<"Z", 0>>, <<"offset", 0>>, <<"offset", 60>>, <<"offset", 0 - 240>>, <<"offset", 330>>,
           <<"offset", 0 - 570>>, <<"offset", 840>>, <<"offset", 0 - 720>> }
InstantsQ == { <<19724, 11045>>, <<19782, 86399>> }
InstantsT == InstantsQ \cup { <<19723, 60>>, <<15198, 42617>>, <<11016, 0>>, <<23010, 43200>> }
FracsQ == { 0, 500000000, 123456789 }
FracsT == FracsQ \cup { 123456000, 250000, 999999000, 1000, 100 }
Instants == IF Scale = "thorough" THEN InstantsT ELSE InstantsQ
Fracs    == IF Scale = "thorough" THEN FracsT ELSE FracsQ

StrAlts  == {NoStr} \cup { StrF(sp, "plain") : sp \in Spellings } \cup { StrF("str", cls) : cls \in StrClasses }
                    \cup { StrF("bytes", "unicode"), StrF("fixed", "unicode"), StrF("arr1", "long"), StrF("arr1", "digits"),
                           StrF("fixed_padded", "digits"), StrF("arr1_fixed", "padded"), StrF("bytes", "empty") }
TimeAlts == {NoTime, BadTime("garbage"), BadTime("empty")}
            \cup { TimeF(sp, 19724, 11045, 500000000, "offset", 60) : sp \in Spellings }
            \cup { TimeF("str", i[1], i[2], ns, z[1], z[2]) : i \in Instants, ns \in Fracs, z \in Zones }
StrPairAlts  == { NoStr, StrF("bytes", "plain"), StrF("str", "empty"), StrF("arr1", "digits") }
TimePairAlts == { NoTime, BadTime("garbage"), TimeF("str", 15198, 42617, 0, "naive", 0),
                  TimeF("arr1", 19782, 86399, 123456789, "offset", 0 - 570), TimeF("bytes", 19724, 11045, 0, "Z", 0) }

AltsOf(k, pair) == IF k \in StrKeys THEN (IF pair THEN StrPairAlts ELSE StrAlts)
                   ELSE (IF pair THEN TimePairAlts ELSE TimeAlts)
Put(c, k, v) == IF k \in StrKeys THEN [c EXCEPT !.strs[k] = v] ELSE [c EXCEPT !.times[k] = v]
Keys == StrKeys \cup TimeKeys
MsCases == {Baseline}
           \cup { Put(Baseline, k, v) : k \in StrKeys, v \in StrAlts }
           \cup { Put(Baseline, k, v) : k \in TimeKeys, v \in TimeAlts }
           \cup UNION { UNION { { Put(Put(Baseline, k1, v1), k2, v2) : v1 \in AltsOf(k1, TRUE), v2 \in AltsOf(k2, TRUE) }
                                : k2 \in { k \in Keys : k # k1 } } : k1 \in Keys }
MsRecord(c) ==
    [strs |-> c.strs, times |-> c.times, specified |-> MeasSpecified(c), mayrefuse |-> MeasMayRefuse(c),
     expect |-> [ title         |-> StrAllowed("title", c.strs["title"]),
                  run_number    |-> StrAllowed("entry_identifier", c.strs["entry_identifier"]),
                  experiment_id |-> StrAllowed("experiment_identifier", c.strs["experiment_identifier"]),
                  start_time    |-> TimeExpect(c.times["start_time"]),
                  end_time      |-> TimeExpect(c.times["end_time"]) ]]
MsRecords == LET q == SetToSeq(MsCases) IN [ i \in 1..Len(q) |-> MsRecord(q[i]) ]

Meta == [ess |-> ESSInstruments, sinq |-> SINQInstruments, elsewhere |-> Elsewhere, madeup |-> MadeUp,
         vars |-> Vars, casevars |-> CaseVars, admissible |-> AdmissibleSp, foreign |-> ForeignSp,
         strclasses |-> StrClasses, args |-> Args]

ASSUME ndJsonSerialize(IOEnv.G07_BL, BlRecords)
ASSUME ndJsonSerialize(IOEnv.G07_MS, MsRecords)
ASSUME ndJsonSerialize(IOEnv.G07_UNIVERSE, UTab)
ASSUME ndJsonSerialize(IOEnv.G07_META, <<Meta>>)
(* every row is well formed: an accepting row admits at least one name form and one pair       *)
ASSUME \A i \in 1..Len(BlRecords) :
          BlRecords[i].row.kind = "accept" => (BlRecords[i].row.names # {} /\ NN \in BlRecords[i].row.pairs)
ASSUME PrintT(<<"GEN", Len(BlRecords), Len(MsRecords), Len(UTab)>>)
=============================================================================
