------------------------- MODULE Growth_InstrumentView -------------------------
(* Growth module G08: WHAT SCENE a call of scippneutron.instrument_view describes.              *)
(*                                                                                             *)
(* Written from the docstring of `instrument_view` (pixels at the `positions` coordinate, the   *)
(* pixel size guessed from the first two pixels, `components` = name -> {center, size, type,    *)
(* optional color (hexadecimal), optional wireframe (default False)}, valid types 'box',        *)
(* 'cylinder', 'disk') and from the lead's reading of it, not from the code:                    *)
(*   * every component is drawn as exactly one shape of the requested type, centred at its      *)
(*     `center`, and exactly one text label carrying its name, 0.8 x (size y) above the centre; *)
(*   * all numbers of the scene are in the length unit of the pixel positions; center and size  *)
(*     are physical quantities and may be given in another length unit (m, cm, mm); a scalar    *)
(*     size is a cube;                                                                          *)
(*   * `size` is the bounding box: box = width / height / depth along x / y / z; cylinder =     *)
(*     diameter size x, height size y (along y); disk = diameter size x, thin, its axis along   *)
(*     the beam = the coordinate axis with the largest distance between the component and the   *)
(*     centre (mean) of the pixels (every maximal axis is acceptable when there is a tie);      *)
(*   * colour as requested, default #808080; wireframe or solid as requested, default solid;    *)
(*   * an unknown type is refused (ValueError naming the component), nothing is drawn for it;   *)
(*   * drawing a component changes neither the pixel cloud nor any other component, the final   *)
(*     scene is a function of the SET of components (not of the dict order), the input is not   *)
(*     modified, and the far plane of the camera reaches the furthest component and never comes *)
(*     closer (`reach` below is the squared distance it must cover).                            *)
(*                                                                                             *)
(* Exact integer arithmetic on a lattice of 1 mm: a length given as v in unit u is v * Scale(u) *)
(* lattice units.  Label positions are kept in fifths (den = 5) because of the factor 0.8.      *)
(* Squared distances stay below 2^31 for coordinates within +-14 m.                             *)
EXTENDS Integers, Sequences, FiniteSets, TLC

CONSTANTS Detectors,   \* records [unit |-> "m" | "cm" | "mm", pix |-> sequence of >= 2 pixel positions (mm triples)]
          PixelSizes,  \* the `pixel_size` argument in mm; 0 stands for "not given" (None)
          Names,       \* component names (dict keys)
          Types,       \* requested types, including unknown ones
          Centers,     \* <<unit, <<x, y, z>>>>: the numbers are in that unit
          Sizes,       \* <<unit, "vec", <<x, y, z>>>> or <<unit, "scalar", <<v>>>>
          Styles,      \* <<colour or "none", "none" | "yes" | "no">>   ("none": key absent from the settings)
          MaxComps,    \* number of components per call
          Bug          \* "none" | negative controls, see the operators below

VARIABLES phase,    \* "idle" -> "plotted" -> "returned" | "refused"
          det,      \* the data handed in (its pixel positions and their unit)
          psarg,    \* the pixel_size argument
          order,    \* the components dict so far, in insertion order: sequence of <<name, settings>>
          scene,    \* set of objects in the scene
          reach,    \* squared distance (mm^2) from the detector centre the far plane has to cover
          refused   \* name of the refused component, "" if none
vars == <<phase, det, psarg, order, scene, reach, refused>>

NoDet == [unit |-> "none", pix |-> <<>>]
KnownTypes == {"box", "cylinder", "disk"}
DefaultColour == "#808080"

Scale(u) == CASE u = "m" -> 1000 [] u = "cm" -> 10 [] u = "mm" -> 1
Abs(x) == IF x < 0 THEN -x ELSE x
Max2(a, b) == IF a >= b THEN a ELSE b
Min2(a, b) == IF a <= b THEN a ELSE b
DistSq(p, q) == (p[1] - q[1]) * (p[1] - q[1]) + (p[2] - q[2]) * (p[2] - q[2]) + (p[3] - q[3]) * (p[3] - q[3])

RECURSIVE SumTo(_, _, _)
SumTo(pix, i, k) == IF k = 0 THEN 0 ELSE pix[k][i] + SumTo(pix, i, k - 1)
(* centre of the detector = mean of the pixel positions; the model uses detectors whose mean is a lattice point *)
CentreExact(d) == \A i \in 1..3 : SumTo(d.pix, i, Len(d.pix)) % Len(d.pix) = 0
Centre(d) == <<SumTo(d.pix, 1, Len(d.pix)) \div Len(d.pix),
               SumTo(d.pix, 2, Len(d.pix)) \div Len(d.pix),
               SumTo(d.pix, 3, Len(d.pix)) \div Len(d.pix)>>

Settings == [type : Types, center : Centers, size : Sizes, style : Styles]

-----------------------------------------------------------------------------
(* the objects: uniform records so that they can live in one set *)
Obj(kind, of, type, at, den, dims, axes, colour, wire, text, npix, psq) ==
    [kind |-> kind, of |-> of, type |-> type, at |-> at, den |-> den, dims |-> dims, axes |-> axes,
     colour |-> colour, wire |-> wire, text |-> text, npix |-> npix, psq |-> psq]

(* the pixel cloud: one point per pixel; psq = square of the pixel size (given, or the guess = distance between the *)
(* first two pixels)                                                                                                *)
Cloud(d, ps) == Obj("cloud", "pixels", "points", <<0, 0, 0>>, 1, <<0, 0, 0>>, {}, "data", FALSE, "",
                    Len(d.pix), IF ps = 0 THEN DistSq(d.pix[1], d.pix[2]) ELSE ps * ps)

(* a length given in unit u, in lattice units.  Negative controls: the raw numbers taken as if they were in the     *)
(* positions' unit                                                                                                    *)
CenterMm(s, d) == LET f == IF Bug = "center_raw" THEN Scale(d.unit) ELSE Scale(s.center[1])
                      v == s.center[2]
                  IN <<f * v[1], f * v[2], f * v[3]>>
SizeMm(s, d) == LET f == IF Bug = "size_raw" THEN Scale(d.unit) ELSE Scale(s.size[1])
                    v == s.size[3]
                IN IF s.size[2] = "scalar" THEN <<f * v[1], f * v[1], f * v[1]>> ELSE <<f * v[1], f * v[2], f * v[3]>>

(* the beam: every coordinate axis along which the component is furthest from the reference point *)
Delta(c, ref) == <<Abs(c[1] - ref[1]), Abs(c[2] - ref[2]), Abs(c[3] - ref[3])>>
MaxAxes(c, ref) == { a \in 1..3 : \A b \in 1..3 :
                        IF Bug = "disk_min" THEN Delta(c, ref)[a] <= Delta(c, ref)[b] ELSE Delta(c, ref)[a] >= Delta(c, ref)[b] }

(* shape of a component; dims = extents of the drawn object along x / y / z before it is turned (0 = thin);          *)
(* axes = acceptable directions of the object's own axis (cylinder: y; disk: the beam; box: none)                    *)
ShapeOf(n, s, d, ref) ==
    LET c == CenterMm(s, d)
        b == SizeMm(s, d)
        colour == IF s.style[1] = "none" THEN DefaultColour ELSE s.style[1]
        wire == s.style[2] = "yes"
        dims == CASE s.type = "box" -> b
                  [] s.type = "cylinder" -> <<b[1], b[2], b[1]>>
                  [] s.type = "disk" -> <<b[1], 0, b[1]>>
        axes == CASE s.type = "box" -> {}
                  [] s.type = "cylinder" -> {2}
                  [] s.type = "disk" -> MaxAxes(c, ref)
    IN Obj("shape", n, s.type, c, 1, dims, axes, colour, wire, "", 0, 0)

LabelOf(n, s, d) ==
    LET c == CenterMm(s, d)
        b == SizeMm(s, d)
        up == IF Bug = "label_x" THEN b[1] ELSE b[2]
    IN Obj("label", n, "text", <<5 * c[1], 5 * c[2] + 4 * up, 5 * c[3]>>, 5, <<0, 0, 0>>, {}, "text", FALSE, n, 0, 0)

Objs(n, s, d, ref) == {ShapeOf(n, s, d, ref), LabelOf(n, s, d)}

-----------------------------------------------------------------------------
(* the call *)
NamesIn(o) == { o[i][1] : i \in 1..Len(o) }
KnownIn(o) == { i \in 1..Len(o) : o[i][2].type \in KnownTypes }

Init == /\ phase = "idle" /\ det = NoDet /\ psarg = 0 /\ order = <<>> /\ scene = {} /\ reach = 0 /\ refused = ""

PlotP(d, ps) == /\ phase = "idle"
                /\ phase' = "plotted" /\ det' = d /\ psarg' = ps
                /\ scene' = {Cloud(d, ps)}
                /\ UNCHANGED <<order, reach, refused>>
Plot == \E d \in Detectors, ps \in PixelSizes : PlotP(d, ps)

(* negative control "order": the disk faces the component added before it instead of the detector *)
BeamRef(o, d) == IF Bug = "order" /\ KnownIn(o) # {}
                 THEN LET i == CHOOSE j \in KnownIn(o) : \A k \in KnownIn(o) : k <= j IN CenterMm(o[i][2], d)
                 ELSE Centre(d)

AddComponent(n, s) ==
    /\ phase = "plotted" /\ Len(order) < MaxComps /\ n \notin NamesIn(order)
    /\ order' = Append(order, <<n, s>>)
    /\ IF s.type \in KnownTypes
       THEN LET dsq == DistSq(CenterMm(s, det), Centre(det))
            IN /\ scene' = scene \cup Objs(n, s, det, BeamRef(order, det))
               /\ reach' = IF Bug = "reach_min" /\ KnownIn(order) # {} THEN Min2(reach, dsq) ELSE Max2(reach, dsq)
               /\ UNCHANGED <<phase, refused>>
       ELSE IF Bug = "skip_unknown"
            THEN UNCHANGED <<scene, reach, phase, refused>>
            ELSE /\ phase' = "refused" /\ refused' = n
                 /\ UNCHANGED <<scene, reach>>
    /\ UNCHANGED <<det, psarg>>
Add == \E n \in Names, s \in Settings : AddComponent(n, s)

(* the figure is handed back; components = None / {} is Plot directly followed by Return *)
Return == /\ phase = "plotted" /\ phase' = "returned"
          /\ UNCHANGED <<det, psarg, order, scene, reach, refused>>

Next == Plot \/ Add \/ Return
Spec == Init /\ [][Next]_vars

-----------------------------------------------------------------------------
(* properties, stated on the objects of the scene and the arguments of the call *)
Plotted == phase # "idle"
Known == { order[i] : i \in KnownIn(order) }                  \* <<name, settings>> of the components to be drawn
SettingsOf(n) == (CHOOSE p \in { order[i] : i \in 1..Len(order) } : p[1] = n)[2]
ShapesOf(n) == { o \in scene : o.kind = "shape" /\ o.of = n }
LabelsOf(n) == { o \in scene : o.kind = "label" /\ o.of = n }
TheShape(n) == CHOOSE o \in ShapesOf(n) : TRUE
TheLabel(n) == CHOOSE o \in LabelsOf(n) : TRUE
Clouds == { o \in scene : o.kind = "cloud" }
(* size of a component in lattice units, computed the other way round (no multiplication table shared with SizeMm) *)
SizeOn(s, i) == LET v == s.size[3] j == IF s.size[2] = "scalar" THEN 1 ELSE i
                IN CASE s.size[1] = "m" -> 1000 * v[j] [] s.size[1] = "cm" -> 10 * v[j] [] s.size[1] = "mm" -> v[j]

Aligned == /\ Len(order) <= MaxComps
           /\ Cardinality(NamesIn(order)) = Len(order)
           /\ phase = "idle" => scene = {} /\ order = <<>>

OneShapeOneLabel ==
    /\ \A p \in Known : /\ Cardinality(ShapesOf(p[1])) = 1 /\ Cardinality(LabelsOf(p[1])) = 1
                        /\ TheLabel(p[1]).text = p[1]
    /\ \A o \in scene : o.kind = "cloud" \/ \E p \in Known : o.of = p[1]
    /\ Plotted => Cardinality(scene) = 1 + 2 * Cardinality(Known)

TypeAndPlace ==        \* the requested type, at the centre expressed in the unit of the positions (here: in mm)
    \A p \in Known : LET o == TheShape(p[1]) c == p[2].center IN
        /\ o.type = p[2].type /\ o.den = 1
        /\ \A i \in 1..3 : CASE c[1] = "m" -> o.at[i] = 1000 * c[2][i]
                             [] c[1] = "cm" -> o.at[i] = 10 * c[2][i]
                             [] c[1] = "mm" -> o.at[i] = c[2][i]

BoundingBox ==
    \A p \in Known : LET o == TheShape(p[1]) s == p[2] IN
        CASE s.type = "box" -> /\ \A i \in 1..3 : o.dims[i] = SizeOn(s, i)
                               /\ s.size[2] = "scalar" => o.dims[1] = o.dims[2] /\ o.dims[2] = o.dims[3]   \* a cube
                               /\ o.axes = {}
          [] s.type = "cylinder" -> o.dims[1] = SizeOn(s, 1) /\ o.dims[2] = SizeOn(s, 2) /\ o.dims[3] = o.dims[1]
                                    /\ o.axes = {2}
          [] s.type = "disk" -> o.dims[1] = SizeOn(s, 1) /\ o.dims[2] = 0 /\ o.dims[3] = o.dims[1]

DiskFacesBeam ==       \* no axis is further from the detector centre than the one the disk is turned to
    \A p \in Known : p[2].type = "disk" =>
        LET o == TheShape(p[1]) C == Centre(det) IN
        /\ o.axes # {}
        /\ \A a \in 1..3 : a \in o.axes <=> \A b \in 1..3 : Abs(o.at[a] - C[a]) >= Abs(o.at[b] - C[b])

LabelAbove ==
    \A p \in Known : LET o == TheShape(p[1]) l == TheLabel(p[1]) IN
        /\ l.den = 5 /\ l.at[1] = 5 * o.at[1] /\ l.at[3] = 5 * o.at[3]
        /\ l.at[2] - 5 * o.at[2] = 4 * SizeOn(p[2], 2)
        /\ l.at[2] >= 5 * o.at[2]

StyleAsRequested ==
    \A p \in Known : LET o == TheShape(p[1]) st == p[2].style IN
        /\ o.colour = (IF st[1] = "none" THEN "#808080" ELSE st[1])
        /\ o.wire = (st[2] = "yes")

CloudOnce == Plotted => /\ Cardinality(Clouds) = 1
                        /\ \A o \in Clouds : o.npix = Len(det.pix)
PixelGuess == Plotted => \A o \in Clouds :
                  IF psarg = 0
                  THEN LET a == det.pix[1] b == det.pix[2]
                       IN o.psq = (b[1] - a[1]) * (b[1] - a[1]) + (b[2] - a[2]) * (b[2] - a[2]) + (b[3] - a[3]) * (b[3] - a[3])
                  ELSE o.psq = psarg * psarg

FarReaches == \A o \in scene : o.kind = "shape" => DistSq(o.at, Centre(det)) <= reach
NothingWithoutComponents == (Plotted /\ Len(order) = 0) => scene = {Cloud(det, psarg)} /\ reach = 0

UnknownRefused ==
    /\ \A i \in 1..Len(order) : order[i][2].type \notin KnownTypes =>
           phase = "refused" /\ refused = order[i][1] /\ i = Len(order)
    /\ phase = "refused" => /\ Len(order) > 0 /\ order[Len(order)][2].type \notin KnownTypes
                            /\ \A o \in scene : o.of # refused
    /\ phase # "refused" => refused = ""

(* the scene is a function of the SET of components: every dict order arrives at it *)
RECURSIVE MaxDistSq(_, _)
MaxDistSq(S, d) == IF S = {} THEN 0
                   ELSE LET p == CHOOSE q \in S : TRUE
                        IN Max2(DistSq(CenterMm(p[2], d), Centre(d)), MaxDistSq(S \ {p}, d))
SceneOfSet(d, ps, S) == {Cloud(d, ps)} \cup UNION { Objs(p[1], p[2], d, Centre(d)) : p \in S }
OrderIndependent == Plotted => scene = SceneOfSet(det, psarg, Known) /\ reach = MaxDistSq(Known, det)

(* action properties *)
EarlierObjectsKept ==        \* nothing is removed or changed; what is new belongs to the component just added
    [][ /\ scene \subseteq scene'
        /\ \A o \in scene' \ scene : \/ phase = "idle" /\ o.kind = "cloud"
                                     \/ Len(order') = Len(order) + 1 /\ o.of = order'[Len(order')][1] ]_vars
FarMonotone == [][reach' >= reach]_vars
InputUnchanged == [][phase # "idle" => det' = det /\ psarg' = psarg]_vars
RefusalLeavesScene == [][(phase' = "refused" /\ phase # "refused") => scene' = scene /\ reach' = reach]_vars

(* export of complete calls for the replay into the implementation (workers = 1) *)
Emit == phase \in {"returned", "refused"} =>
            PrintT(<<"CALL", det, psarg, order, phase, refused, scene, reach, Centre(det)>>)
=============================================================================
