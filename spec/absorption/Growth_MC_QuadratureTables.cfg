SPECIFICATION Spec
CONSTANTS
  Groups <- MC_GroupsQuick
  Gens <- MC_GensQuick
  Weights = {1, 2}
  LineWeights = {2}
  MaxOrbits = 2
  Nodes = {1}
  MaxPairs = 1
  MaxDeg = 2
  Bug = "none"
INVARIANT DiskInvariantUnderGroup
INVARIANT CompleteOrbits
INVARIANT OnlyCentreFixedByRotation
INVARIANT WeightBookkeeping
INVARIANT MomentsInvariant
INVARIANT OddMomentsVanish
INVARIANT MirrorMomentsVanish
INVARIANT IsotropicSecondMoments
INVARIANT LineOK
INVARIANT LineOddMomentsVanish
INVARIANT ProductIsCartesian
INVARIANT ProductTotalWeight
INVARIANT ProductMomentsFactorise
INVARIANT ProductSymmetric
INVARIANT ProductLayout
CHECK_DEADLOCK FALSE
