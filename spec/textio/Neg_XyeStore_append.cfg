SPECIFICATION Spec
CONSTANTS
  NPaths = 2
  MaxOps = 5
  Bug = "append"
INVARIANT TypeOK
INVARIANT LoadReturnsLastSaved
INVARIANT FilesWellFormed
CHECK_DEADLOCK FALSE
