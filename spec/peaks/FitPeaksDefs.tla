---------------------------- MODULE FitPeaksDefs ----------------------------
(* State-free definitions for peak fitting (scippneutron.peaks.fit_peaks / remove_peaks),  *)
(* shared by the state machines of FitPeaks and by the trace specification                 *)
(* Trace_FitPeaks.  Written from the documentation (fit_peaks, FitParameters,               *)
(* FitRequirements, FitAssessment, FitResult, remove_peaks docstrings), not from the code. *)
(*                                                                                          *)
(* Part 1  Windows : integer coordinates.  The unit is chosen by the user of this module    *)
(*                   such that width/2 and factor*(p_j - p_i) are integers (ExactCfg).      *)
(* Part 2  Loop    : model selection loop of one peak (attempt order, first success wins).  *)
(* Part 3  Assess  : success <=> every requirement holds.                                   *)
(* Part 4  Remove  : subtraction of successful peaks inside their windows.                  *)
EXTENDS Integers, Sequences, FiniteSets

Max(a, b) == IF a >= b THEN a ELSE b
Min(a, b) == IF a <= b THEN a ELSE b

-----------------------------------------------------------------------------
(* Part 1 - windows.                                                                       *)
(* A configuration is a record                                                             *)
(*   [ests |-> sorted sequence of estimates, width |-> w > 0, lo, hi |-> data range,       *)
(*    fn, fd |-> neighbour separation factor fn/fd with 0 <= fn/fd <= 1/2].                *)
NEst(c) == Len(c.ests)

SortedEsts(c) == \A i \in 1..(NEst(c) - 1) : c.ests[i] <= c.ests[i+1]

(* all divisions below are exact *)
ExactCfg(c) ==
    /\ (c.width % 2) = 0
    /\ \A i \in 1..(NEst(c) - 1) : (((c.ests[i+1] - c.ests[i]) * c.fn) % c.fd) = 0

(* distance that the windows of the neighbours i and i+1 keep from each other's estimate   *)
SepDist(c, i) == ((c.ests[i+1] - c.ests[i]) * c.fn) \div c.fd

(* "A window is constructed for each peak estimate centered on the estimate with a width   *)
(*  equal to `windows`"                                                                    *)
RawWindow(c, i) == <<c.ests[i] - (c.width \div 2), c.ests[i] + (c.width \div 2)>>

(* "... adjusted ... to maintain a separation between peaks"                               *)
SeparateWindow(c, w, i) ==
    <<IF i > 1 THEN Max(w[1], c.ests[i-1] + SepDist(c, i-1)) ELSE w[1],
      IF i < NEst(c) THEN Min(w[2], c.ests[i+1] - SepDist(c, i)) ELSE w[2]>>

(* "... adjusted to the data range"                                                        *)
ClipScalar(c, v) == Min(Max(v, c.lo), c.hi)
ClipWindow(c, w) == <<ClipScalar(c, w[1]), ClipScalar(c, w[2])>>

(* The specification: separate, then clip (the data range wins, DESIGN 3.4).               *)
WindowOf(c, i) == ClipWindow(c, SeparateWindow(c, RawWindow(c, i), i))
WindowsOf(c) == [i \in 1..NEst(c) |-> WindowOf(c, i)]

(* A wrong variant (negative control): clip first, then separate.                          *)
WindowClipFirst(c, i) == SeparateWindow(c, ClipWindow(c, RawWindow(c, i)), i)

(* ---- the three clauses of the property, on an arbitrary sequence of windows ws ----     *)
InRange(c, v) == c.lo <= v /\ v <= c.hi

WindowsInsideRangeOf(c, ws) ==
    \A i \in 1..Len(ws) : InRange(c, ws[i][1]) /\ InRange(c, ws[i][2])

(* required only for estimates inside the data range (DESIGN 3.4)                          *)
WindowContainsEstimateOf(c, ws) ==
    \A i \in 1..Len(ws) :
        InRange(c, c.ests[i]) => (ws[i][1] <= c.ests[i] /\ c.ests[i] <= ws[i][2])

(* a window with an extent does not reach closer to a neighbouring estimate p_j than       *)
(* factor * |p_i - p_j|; a window without extent (lower >= upper) holds no point           *)
NeighbourDistanceOf(c, ws) ==
    \A i \in 1..Len(ws) :
        ws[i][1] < ws[i][2] =>
            /\ (i > 1 => ws[i][1] >= c.ests[i-1] + SepDist(c, i-1))
            /\ (i < NEst(c) => ws[i][2] <= c.ests[i+1] - SepDist(c, i))

(* ---- hardening round: the points a window holds, and the point-count guard ----          *)
(* The data grid of a configuration is lo, lo + step, ..., <= hi (field `step`).  A window    *)
(* is the half-open interval [w1, w2); its recorded edges are rounded to integer units, so   *)
(* a data point exactly on a recorded edge may or may not belong to it: a window certainly   *)
(* holds the NPointsMin points strictly inside and at most the NPointsMax points of the      *)
(* closed interval.                                                                         *)
GridPoints(c) == {c.lo + k * c.step : k \in 0..((c.hi - c.lo) \div c.step)}
NPointsMin(c, w) == Cardinality({x \in GridPoints(c) : w[1] < x /\ x < w[2]})
NPointsMax(c, w) == Cardinality({x \in GridPoints(c) : w[1] <= x /\ x <= w[2]})
NPointsHalfOpen(c, w) == Cardinality({x \in GridPoints(c) : w[1] <= x /\ x < w[2]})

(* "a window with too few points yields a 'window too narrow' result": decided by the       *)
(* number of points against the number of parameters k, never by the width of the window,   *)
(* the magnitude of its coordinates or their element type.  With exactly k points (no       *)
(* degree of freedom) either outcome is accepted (DESIGN 3.4).                              *)
NarrowVerdict(nmin, nmax, k, assess) ==
    IF nmax < k /\ assess # "window_too_narrow" THEN "too_few_points_but_not_window_too_narrow"
    ELSE IF nmin > k /\ assess = "window_too_narrow" THEN "window_too_narrow_with_enough_points"
    ELSE "ok"

(* Variants of one and the same configuration (element types of the coordinate, the         *)
(* estimates and the width; memory layout of the data): none changes a value, none may      *)
(* change the outcome.                                                                      *)
CoordTypes == {"float64", "float32", "int64"}
DataLayouts == {"contiguous", "strided", "row"}
WindowVariants == [xd : CoordTypes, ed : CoordTypes, wd : CoordTypes, layout : DataLayouts]

-----------------------------------------------------------------------------
(* Part 2 - the model-selection loop of one peak.                                          *)
(* NB backgrounds, NP peak models; attempt k (1-based) uses the combination                *)
(*   (p, b) = ((k-1) div NB + 1, (k-1) mod NB + 1)      "the background is varied first"  *)
ComboAt(k, nb) == <<((k - 1) \div nb) + 1, ((k - 1) % nb) + 1>>

(* outcome of one attempt: npts points in the window, nparams parameters, scripted verdict *)
(* of the fit ("success", "rejected" = some requirement failed, "error" = no convergence). *)
AttemptOutcome(npts, nparams, verdict) ==
    IF npts < nparams THEN "window_too_narrow"
    ELSE IF verdict = "success" THEN "success"
    ELSE IF verdict = "error" THEN "failed"
    ELSE "rejected"

(* does attempt k run a fit at all?  never when the window is too narrow                   *)
AttemptFits(npts, nparams) == npts >= nparams

(* generic selection among the outcomes of the attempts made in order: the first success,  *)
(* otherwise the first attempt                                                             *)
SelectOf(outs) ==
    LET succ == {k \in 1..Len(outs) : outs[k] = "success"}
    IN IF succ # {} THEN CHOOSE k \in succ : \A q \in succ : k <= q ELSE 1

(* result of the whole loop for one peak.  nps[k] = parameter count of combination k,      *)
(* script[k] = verdict of combination k.                                                   *)
LoopResultOf(npts, nps, script) ==
    LET K == Len(nps)
        out(k) == AttemptOutcome(npts, nps[k], script[k])
        succ == {k \in 1..K : out(k) = "success"}
    IN IF succ # {}
       THEN LET k0 == CHOOSE k \in succ : \A q \in succ : k <= q
            IN [combo |-> k0, outcome |-> "success", attempts |-> k0]
       ELSE [combo |-> 1, outcome |-> out(1), attempts |-> K]

-----------------------------------------------------------------------------
(* Part 3 - assessment.  Requirement vector r[1..6], TRUE = requirement satisfied:         *)
(*  1 background+peak at least as good as background alone (AIC)                           *)
(*  2 p-value >= min_p_value            3 peak not too close to the window edge            *)
(*  4 amplitude not negative            5 FWHM not wider than max factor * window width    *)
(*  6 FWHM not narrower than min factor * coordinate spacing                               *)
FailureNames == <<"background_is_better", "p_too_small", "peak_near_edge",
                  "peak_points_down", "peak_too_wide", "peak_too_narrow">>
NReq == 6

AllRequirements(r) == \A k \in 1..NReq : r[k]

FirstFailing(r) == CHOOSE k \in 1..NReq : ~r[k] /\ \A q \in 1..(k-1) : r[q]

AssessOf(r) == IF AllRequirements(r) THEN "success" ELSE FailureNames[FirstFailing(r)]

Assessments == {"success", "failed", "window_too_narrow"} \cup {FailureNames[k] : k \in 1..NReq}

-----------------------------------------------------------------------------
(* Part 4 - removal.  Data = sequence of integers over grid indices 1..N; a result is a    *)
(* record [succ |-> BOOLEAN, lo, hi |-> inclusive index range, pv |-> peak value per index] *)
Covering(res, x) == {i \in 1..Len(res) : res[i].succ /\ res[i].lo <= x /\ x <= res[i].hi}

RECURSIVE SumPv(_, _, _)
SumPv(res, S, x) == IF S = {} THEN 0
                    ELSE LET i == CHOOSE j \in S : TRUE
                         IN res[i].pv[x] + SumPv(res, S \ {i}, x)

RemoveOf(inp, res) == [x \in 1..Len(inp) |-> inp[x] - SumPv(res, Covering(res, x), x)]

(* pointwise form for recorded float data.  cover: 0 = outside every successful window,    *)
(* 1 = inside at least one, 2 = exactly on a window edge (either reading is accepted);     *)
(* same = output bit-identical to input; subok = output equals input minus the peaks of    *)
(* all covering successful results.                                                        *)
RemovePointOk(cover, same, subok) ==
    IF cover = 0 THEN same ELSE IF cover = 1 THEN subok ELSE (same \/ subok)
=============================================================================
