--------------------------- MODULE BeamlineCases ---------------------------
(* Constant-level export of C03 replay cases (spec -> code).  TLC evaluates the spec's   *)
(* own operators (BeamlineDefs) on every base configuration x transformation and writes  *)
(* one JSON record per pair holding both configurations and their exact integers; the   *)
(* near-degenerate dyadic families are exported with their exact symbolic terms.        *)
EXTENDS BeamlineDefs, TLC, Json, IOUtils, SequencesExt

CONSTANTS SrcBox, DetBox,     \* coordinate ranges of source / detector (sample at the origin)
          Scales, Exps, Ks

C1 == -1..1
C2 == -2..2
Box(C)   == { v \in C \X C \X C : v # Zero3 }
Unit     == -1..1
Steps    == Box(Unit) \cup { <<64, 0, 0>>, <<-37, 11, 5>>, <<1000, 1000, -1000>> }
Bases    == { [src |-> s, smp |-> Zero3, det |-> d] : s \in Box(SrcBox), d \in Box(DetBox) }
Acts     == { <<"rot", R>> : R \in Rot24 } \cup { <<"trans", t>> : t \in Steps }
            \cup { <<"scale1", k>> : k \in Scales } \cup { <<"scale2", k>> : k \in Scales }
            \cup { <<"swap", 0>> }

Pair(c, a) == LET c2 == Apply(a[1], a[2], c) IN
              [kind |-> "pair", act |-> a[1], p |-> a[2], c |-> c, c2 |-> c2,
               x |-> Exact(c), x2 |-> Exact(c2)]
Pairs == { Pair(c, a) : c \in Bases, a \in Acts }

Dirs == Box(Unit)
NotPar(b1)  == { p \in Dirs : Cross(b1, p) # Zero3 }
PerpPairs(b1) == { r \in Dirs \X Dirs : Dot(b1, r[1]) = 0 /\ Dot(b1, r[2]) # 0 }
NearPar == UNION { { [kind |-> "near", fam |-> "par", b1 |-> b1, k |-> k, sgn |-> sgn, q |-> Zero3, p |-> p,
                      e |-> e, t |-> NearParallelTerms(b1, k, sgn, p), cls |-> NearClass("par", sgn)] :
                     k \in Ks, sgn \in {-1, 1}, e \in Exps, p \in NotPar(b1) } : b1 \in Dirs }
NearPerp == UNION { { [kind |-> "near", fam |-> "perp", b1 |-> b1, k |-> 1, sgn |-> 1, q |-> r[1], p |-> r[2],
                       e |-> e, t |-> NearPerpTerms(b1, r[1], r[2]), cls |-> NearClass("perp", 1)] :
                      e \in Exps, r \in PerpPairs(b1) } : b1 \in Dirs }

(* ------------------------------------------------------------------ layout batches *)
(* every layout x shared record x pixel record: the configuration pixel i must see and its *)
(* exact integers.  The harness groups the records by (layout, shared) into one call each, *)
(* passes the shared roles as 0-d variables and the others per pixel (in all Memories).    *)
ShSrc == { <<0, 0, -2>>, <<-1, 1, -3>> }
ShSmp == { Zero3, <<1, -2, 3>> }
ShDet == { <<2, 1, 0>>, <<-1, 3, 4>> }
PxSrc == { <<0, 0, -1>>, <<3, 0, 1>>, <<-2, 5, -4>> }
PxSmp == { Zero3, <<0, 1, 0>> }
Shareds == [src : ShSrc, smp : ShSmp, det : ShDet]
Pixels  == [src : PxSrc, smp : PxSmp, det : Box(Unit)]
LayRec(lay, sh, px) == LET c == Element(lay, sh, px) IN
    [kind |-> "lay", layout |-> lay, shared |-> sh, pix |-> px, c |-> c, x |-> Exact(c)]
Lays == { LayRec(lay, sh, px) : lay \in Layouts \ {"scalars"}, sh \in Shareds, px \in Pixels }
        \cup { LayRec("scalars", sh, sh) : sh \in Shareds }
LaysProper == { r \in Lays : Proper(r.c) }
(* broadcasting theorems of the definitions (checked here on the exported population) *)
ASSUME \A sh \in Shareds : \A lay \in Layouts : Element(lay, sh, sh) = sh
ASSUME \A sh \in Shareds, px \in Pixels : Element("pixelwise", sh, px) = px /\ Element("scalars", sh, px) = sh
ASSUME \A r \in Lays : \A role \in {"src", "smp", "det"} :
          r.c[role] = IF role \in SharedRoles(r.layout) THEN r.shared[role] ELSE r.pix[role]

ASSUME ndJsonSerialize(IOEnv.OUT_FILE, SetToSeq(Pairs) \o SetToSeq(NearPar) \o SetToSeq(NearPerp) \o SetToSeq(LaysProper))
ASSUME PrintT(<<"CASES", Cardinality(Pairs), Cardinality(NearPar), Cardinality(NearPerp), Cardinality(LaysProper)>>)
=============================================================================
