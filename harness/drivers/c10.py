"""C10 — disk-chopper open/close times are exactly the openings of the rotating disk.

Spec: spec/chopper/DiskChopperDefs.tla (simulated disk + documented formulas), DiskChopper.tla
(state machine AddSlit / Construct / Reject / Direct / Refuse / Expand with the invariants),
Emit_DiskChopper.tla (spec -> code), Trace_DiskChopper.tla (code -> spec).

1. TLC, exhaustive (K = 12 ticks per turn, all slit sets of <= 2 (quick) / <= 3 (thorough) slits incl.
   slits across top-dead-centre, multi-turn phases of either sign, both senses, ratios 1/4..8 and
   out-of-phase ratios, 1..3(4) pulses): the pairs given by the documented formulas are exactly the
   maximal open intervals of the simulated disk inside the covered span (open < close, open
   throughout, closed one tick outside, duration = width, nothing twice, nothing missing), for the
   direct query and for the expansion over pulses (= the disk rotating for np pulse periods); the
   sort-and-compare slit validation with wrap-around equals disjointness on the circle; in-phase.
   Thorough adds random walks (-simulate) on a 360-tick disk with up to 6 slits.
   Five negative controls (no wrap-around, one offset per pulse, open/close swapped, phase sign,
   a missing turn) must be rejected.
2. spec -> code (M1): TLC writes every Stride-th configuration of that model with the expected pairs,
   all slit sets with the declarative validity verdict and all ratios n/d (n, d <= 9) with the in-phase
   verdict.  Each is replayed into DiskChopper / time_offset_open / time_offset_close / open_duration /
   Chopper.from_disk_chopper with deg|rad angles, Hz|kHz|1/min frequencies and permuted slit order.
3. code -> spec (M2): the same calls on seeded random configurations far beyond the exhaustive bounds
   (K up to 360, 1..6 slits, 1..4 pulses).  Every call of 2. and 3. becomes one NDJSON event in integer
   ticks and Trace_DiskChopper.tla judges it with the *simulated disk only*.

Numeric step outside TLC (stated once): a returned time t is mapped to ticks = t[s]*K*|f|[Hz] and must
lie within 1e-9 rotation periods of an integer tick (lib_chopper.TICK_TOL); the integer goes into the
event, the boolean `ongrid` says whether all times of the call did.  In-phase probes: the actual float
ratio is classified with exact rational arithmetic as "near" (<= 1e-10 relative from the nominal ratio)
or "far" (>= 1e-6 relative away from every multiple and divisor); nothing in between is generated.
Comparison of the code's pairs with the pairs of the documented formulas is recorded as evidence
(`direct_equal_documented_formula`); the verdicts come from the simulated disk, which is what the
property states.
"""

from __future__ import annotations

import json
import os
import time
from fractions import Fraction

import scipp as sc

from ..core import MachineryError
from ..lib_chopper import (ANGLE_UNITS, Background, Collector, chunked, merge_results, run_chunks, FREQ_UNITS, freq_value, make_disk, random_valid_slits,
                           spans_tdc, to_ticks, touching_only)
from ..tlc import require_actions, require_ok, write_ndjson

W = int(os.environ.get('VERIF_TLC_WORKERS', '16'))
PROCS = int(os.environ.get('VERIF_PROCS', '6'))

RULE = ('configuration = slit set on a K-tick disk (begin on the first turn, begin < end < begin + K) x '
        'beam position x phase (several turns, either sign) x sense x ratio in {1/4,1/3,1/2,1,2,3,4,8} x '
        'angle unit x frequency unit x number of pulses; non-trivial = a slit spans top-dead-centre, or '
        'the phase exceeds one turn or is negative, or ratio != 1, or npulses > 1, or the slit set is '
        'invalid only across top-dead-centre')

PULSE_HZ = (Fraction(14), Fraction(10), Fraction(60), Fraction(25))


def _ratio_class(num, den):
    return 'ratio>=1' if num >= den else 'ratio<1'


def _call(ctx, what, key_ctx, fn):
    """Run one call into scippneutron; an exception is reported by the caller."""
    try:
        return fn(), None
    except Exception as e:  # noqa: BLE001
        return None, e


def _pairs_event(cfg, api, np_, pairs, durs, ongrid):
    return {'ev': 'pairs', 'api': api, 'K': cfg['K'], 'slits': cfg['slits'], 'bp': cfg['bp'], 'ph': cfg['ph'],
            'cw': bool(cfg['cw']), 'num': cfg['num'], 'den': cfg['den'], 'np': np_, 'pairs': pairs,
            'durs': durs, 'ongrid': bool(ongrid)}


def replay_config(ctx, rec, cfg, aunit, funit, fp_hz, nps, order, expected=None, mixed_units=False):
    """One model configuration -> real DiskChopper -> events."""
    from scippneutron.tof.chopper_cascade import Chopper

    K = cfg['K']
    rho = Fraction(cfg['num'], cfg['den'])
    f_hz = rho * fp_hz
    rc = _ratio_class(cfg['num'], cfg['den'])
    desc = {'config': cfg, 'angle_unit': aunit, 'frequency_unit': funit, 'pulse_frequency_Hz': str(fp_hz),
            'slit_order': order}
    disk, exc = _call(ctx, 'DiskChopper', None,
                      lambda: make_disk(K, cfg['slits'], cfg['bp'], cfg['ph'], cfg['cw'], f_hz, aunit, funit, order))
    if exc is not None:
        rec.add({'ev': 'slits', 'K': K, 'slits': cfg['slits'], 'accepted': False},
                {'api': 'DiskChopper()', 'desc': desc, 'exc': repr(exc)})
        return
    pf = sc.scalar(freq_value(fp_hz, funit), unit=funit)
    # ---- direct query
    res, exc = _call(ctx, 'direct', None, lambda: (disk.time_offset_open(pulse_frequency=pf),
                                                  disk.time_offset_close(pulse_frequency=pf),
                                                  disk.open_duration(pulse_frequency=pf)))
    if exc is not None:
        ctx.violation(f'time_offset_open/close raised {type(exc).__name__} for a valid in-phase configuration, {rc}',
                      {**desc, 'exc': repr(exc)})
    else:
        to, tc, du = res
        o, ok1 = to_ticks(to, K, f_hz)
        c, ok2 = to_ticks(tc, K, f_hz)
        d, ok3 = to_ticks(du, K, f_hz)
        n = min(len(o), len(c))
        pairs = [[o[i], c[i]] for i in range(n)]
        ongrid = ok1 and ok2 and ok3 and len(o) == len(c)
        rec.add(_pairs_event(cfg, 'direct', 1, pairs, d, ongrid),
                {'api': 'time_offset_open/close', 'rc': rc, 'desc': desc,
                 'times_s': {'open': to.to(unit='s').values.tolist(), 'close': tc.to(unit='s').values.tolist()}})
        if expected is not None:
            rec.count('direct')
            rec.count('direct_equal', int(sorted(map(tuple, pairs)) == sorted(map(tuple, expected['direct']))))
    # ---- the same query with the pulse frequency in another unit than the chopper frequency, and with a
    # chopper frequency 1e-9 (relative) below / above the nominal one: both are inside the documented
    # in-phase tolerance, the quotient |f| / f_pulse then lands just below / above the integer in
    # floating point, and the result must still cover the whole pulse period (times within 1e-8).
    variants = []
    if mixed_units and funit != 'Hz':
        variants.append(('pulse frequency in Hz', disk, sc.scalar(float(fp_hz), unit='Hz'), f_hz))
    if mixed_units:
        for sgn in (-1, 1):
            d2, e2 = _call(ctx, 'DiskChopper', None,
                           lambda sgn=sgn: make_disk(K, cfg['slits'], cfg['bp'], cfg['ph'], cfg['cw'], f_hz, aunit, funit,
                                                     order, scale=1.0 + sgn * 1e-9))
            if e2 is None:
                # the tick grid of *this* disk: one tick = 1 / (K |f|) of its own frequency
                variants.append((f'frequency {"below" if sgn < 0 else "above"} nominal by 1e-9', d2, pf,
                                 f_hz * Fraction(1.0 + sgn * 1e-9)))
    for label, dk, pfv, f_ticks in variants:
        res, exc = _call(ctx, 'direct', None, lambda dk=dk, pfv=pfv: (dk.time_offset_open(pulse_frequency=pfv),
                                                                    dk.time_offset_close(pulse_frequency=pfv)))
        if exc is not None:
            ctx.violation(f'time_offset_open/close raised {type(exc).__name__} for a valid in-phase configuration '
                          f'({label.split(" by")[0]}), {rc}', {**desc, 'variant': label, 'exc': repr(exc)})
            continue
        o, ok1 = to_ticks(res[0], K, f_ticks)
        c, ok2 = to_ticks(res[1], K, f_ticks)
        n = min(len(o), len(c))
        rec.add(_pairs_event(cfg, 'direct', 1, [[o[i], c[i]] for i in range(n)], [], ok1 and ok2 and len(o) == len(c)),
                {'api': f'time_offset_open/close, {label.split(" by")[0]}', 'rc': rc, 'desc': {**desc, 'variant': label}})
    # ---- expansion over pulses
    for np_ in nps:
        ch, exc = _call(ctx, 'expand', None, lambda np_=np_: Chopper.from_disk_chopper(disk, pf, np_))
        api = 'from_disk_chopper(npulses=1)' if np_ == 1 else 'from_disk_chopper(npulses>1)'
        if exc is not None:
            ctx.violation(f'{api} raised {type(exc).__name__} for a valid in-phase configuration, {rc}',
                          {**desc, 'npulses': np_, 'exc': repr(exc)})
            continue
        o, ok1 = to_ticks(ch.time_open, K, f_hz)
        c, ok2 = to_ticks(ch.time_close, K, f_hz)
        n = min(len(o), len(c))
        pairs = [[o[i], c[i]] for i in range(n)]
        rec.add(_pairs_event(cfg, 'expand', np_, pairs, [], ok1 and ok2 and len(o) == len(c)),
                {'api': api, 'rc': rc, 'desc': {**desc, 'npulses': np_},
                 'times_s': {'open': ch.time_open.to(unit='s').values.tolist(),
                             'close': ch.time_close.to(unit='s').values.tolist()}})
        if expected is not None and np_ <= len(expected['exp']):
            rec.count('exp')
            rec.count('exp_equal', int(sorted(map(tuple, pairs)) == sorted(map(tuple, expected['exp'][np_ - 1]))))
    # ---- chopper and pulse frequency in different units (both are documented as frequencies)
    if mixed_units and funit != 'Hz':
        pf_hz = sc.scalar(float(fp_hz), unit='Hz')
        np_ = nps[-1] if nps else 1
        ch, exc = _call(ctx, 'expand', None, lambda: Chopper.from_disk_chopper(disk, pf_hz, np_))
        if exc is not None:
            ctx.violation(f'from_disk_chopper raised {type(exc).__name__} when chopper and pulse frequency are '
                          'given in different units',
                          {**desc, 'npulses': np_, 'pulse_frequency_unit': 'Hz', 'exc': repr(exc)})
        else:
            o, ok1 = to_ticks(ch.time_open, K, f_hz)
            c, ok2 = to_ticks(ch.time_close, K, f_hz)
            n = min(len(o), len(c))
            api = 'from_disk_chopper(npulses=1)' if np_ == 1 else 'from_disk_chopper(npulses>1)'
            rec.add(_pairs_event(cfg, 'expand', np_, [[o[i], c[i]] for i in range(n)], [],
                                 ok1 and ok2 and len(o) == len(c)),
                    {'api': api + ', mixed frequency units', 'rc': rc, 'desc': {**desc, 'npulses': np_}})


def replay_slitset(ctx, rec, K, slits, aunit, order):
    _, exc = _call(ctx, 'DiskChopper', None,
                   lambda: make_disk(K, slits, 0, 0, False, Fraction(14), aunit, 'Hz', order))
    rec.add({'ev': 'slits', 'K': K, 'slits': slits, 'accepted': exc is None},
            {'api': 'DiskChopper()', 'desc': {'K': K, 'slits': slits, 'angle_unit': aunit, 'slit_order': order,
                                             'exc': repr(exc) if exc is not None else None}})


def _classify_ratio(x: Fraction, num, den):
    """'near' / 'far' / None for the exact ratio x = |f| / f_pulse of the floats handed to the code."""
    nominal = Fraction(num, den)
    if abs(x / nominal - 1) <= Fraction(1, 10**10):
        return 'near'
    for n in range(1, 200):
        if abs(x / n - 1) < Fraction(1, 10**6) or abs(x * n - 1) < Fraction(1, 10**6):
            return None
    return 'far'


def replay_ratio(ctx, rec, num, den, delta: Fraction, funit, cw, fp_hz):
    """Frequency ratio (num/den)*(1+delta): is it accepted by time_offset_open?"""
    f_hz = Fraction(num, den) * fp_hz
    scale = float(1 + delta)
    disk, exc = _call(ctx, 'DiskChopper', None,
                      lambda: make_disk(12, [[1, 3]], 0, 0, cw, f_hz, 'deg', funit, None, scale=scale))
    if exc is not None:
        ctx.violation('DiskChopper() raised for a single valid slit', {'exc': repr(exc)})
        return
    pf = sc.scalar(float(fp_hz), unit='Hz')
    # exact ratio of the floats actually handed over (both converted to Hz exactly)
    unit_factor = {'Hz': Fraction(1), 'kHz': Fraction(1000), '1/min': Fraction(1, 60)}[funit]
    x = abs(Fraction(disk.frequency.value)) * unit_factor / Fraction(pf.value)
    band = _classify_ratio(x, num, den)
    if band is None:
        return
    _, exc = _call(ctx, 'direct', None, lambda: disk.time_offset_open(pulse_frequency=pf))
    rec.add({'ev': 'phase', 'num': num, 'den': den, 'band': band, 'accepted': exc is None},
            {'api': 'time_offset_open', 'desc': {'nominal_ratio': f'{num}/{den}', 'relative_deviation': str(delta),
                                                 'frequency_unit': funit, 'clockwise': cw,
                                                 'exc': repr(exc) if exc is not None else None}})
    ctx.case(nontrivial_id=('ph', num, den, str(delta), funit, cw) if delta != 0 or num % den and den % num else None)


def _count_simulated(ctx, res):
    """States checked by a -simulate run (tlc.py only parses the summary line of exhaustive runs)."""
    import re

    m = re.findall(r'The number of states generated: (\d+)', res.out)
    if m:
        ctx.extra['simulated_states'] = ctx.extra.get('simulated_states', 0) + int(m[-1])
        ctx.states += int(m[-1])
        ctx.transitions += int(m[-1])


def worker(tasks):
    """Replay a chunk of tasks in this (fresh) process."""
    col = Collector()
    for t in tasks:
        if t[0] == 'slits':
            _, K, sl, au, order, nt = t
            replay_slitset(col, col, K, sl, au, order)
            col.case(nt)
        elif t[0] == 'ratio':
            replay_ratio(col, col, *t[1:])
        else:
            _, cfg, au, fu, fp, nps, order, expected, mixed, nt = t
            replay_config(col, col, cfg, au, fu, fp, nps, order, expected=expected, mixed_units=mixed)
            col.case(nt)
    return col.export()


def _nontrivial(cfg, nps):
    K = cfg['K']
    return (spans_tdc(cfg['slits'], K) or not 0 <= cfg['ph'] < K or cfg['num'] != cfg['den'] or max(nps, default=1) > 1)


def run(ctx):
    ctx.rule = RULE
    ctx.assume('a time returned by the code is identified with a model tick if it lies within 1e-9 rotation '
               'periods of it (float rounding of < 10 operations is < 1e-14 periods)')
    ctx.assume('any exception raised by DiskChopper() / time_offset_open counts as rejection of a slit set / '
               'of an out-of-phase frequency (the property names no exception class)')
    ctx.assume('"about 1e-8": ratios within 1e-10 (relative) of a multiple/divisor must be accepted, ratios at '
               'least 1e-6 away from every multiple/divisor must be rejected, nothing in between is generated')
    ctx.assume('slit sets that are invalid only because two slits touch are replayed in degrees only, where the '
               'tick grid is exact in binary floating point (the code decides this case by float equality)')
    ctx.assume('slits of full-circle width (end - begin >= one turn) are outside the generated inputs')
    th = ctx.thorough
    # ------------------------------------------------------------------ 1. design (runs while 2. and 3. replay)
    def design():
        res = ctx.tlc('chopper/MC_DiskChopper.tla', 'MC_DiskChopper.cfg', workers=W, timeout=1800, coverage=True)
        require_ok(ctx, res, 'DiskChopper model')
        require_actions(res, ['AddAnySlit', 'Reject', 'ConstructAny', 'Refuse', 'Direct', 'Expand'])
        if th:
            res = ctx.tlc('chopper/MC_DiskChopper.tla', 'MC_DiskChopper_thorough.cfg', workers=W, timeout=2400)
            require_ok(ctx, res, 'DiskChopper model (thorough bounds)')
            # random walks far beyond the exhaustive bounds: 360 ticks per turn, up to 6 slits
            sim = ctx.tlc('chopper/MC_DiskChopper.tla', 'MC_DiskChopper_sim.cfg', workers=W, timeout=900,
                          simulate='num=600', depth=12, extra=['-seed', str(ctx.seed + 10)])
            require_ok(ctx, sim, 'DiskChopper random walks (K = 360)')
            _count_simulated(ctx, sim)
        for bug in ('nowrap', 'perpulse', 'swap', 'phasesign', 'gap', 'truncate'):
            ctx.tlc('chopper/MC_DiskChopper.tla', f'Neg_DiskChopper_{bug}.cfg', workers=4, expect_error=True,
                    timeout=600)

    with Background(design):
        # ------------------------------------------------------------------ 2. spec -> code
        time.sleep(0.3)   # distinct scratch directory names for the two TLC processes
        out = {k: str(ctx.tmp / f'c10-{k}.ndjson') for k in ('OUT_SLITS', 'OUT_CASES', 'OUT_RATIOS')}
        em = ctx.tlc('chopper/MC_Emit_DiskChopper.tla',
                     'MC_Emit_DiskChopper_thorough.cfg' if th else 'MC_Emit_DiskChopper.cfg',
                     workers=2, env=out, timeout=900, count=False)
        require_ok(ctx, em, 'Emit_DiskChopper')
        emitted = em.tagged('EMITTED')
        if not emitted:
            raise MachineryError('emitter did not report')
        load = lambda p: [json.loads(line) for line in open(p) if line.strip()]  # noqa: E731
        slit_recs, case_recs, ratio_recs = load(out['OUT_SLITS']), load(out['OUT_CASES']), load(out['OUT_RATIOS'])
        if [len(slit_recs), len(case_recs), len(ratio_recs)] != emitted[0][1:4]:
            raise MachineryError(f'emitted files incomplete: {emitted} vs {len(slit_recs)}, {len(case_recs)}, {len(ratio_recs)}')
        ctx.extra['emitted'] = {'slit_sets': len(slit_recs), 'configurations': len(case_recs), 'ratios': len(ratio_recs)}
        rng = ctx.rng
        tasks = []
        # -- slit sets
        for i, r in enumerate(slit_recs):
            sl, K = r['slits'], r['K']
            order = list(range(len(sl)))
            rng.shuffle(order)
            units = ['deg'] if touching_only(sl, K) else (['deg', 'rad'] if (i % 3 == 0 or r['wraponly']) else
                                                          [ANGLE_UNITS[i % 2]])
            for au in units:
                tasks.append(('slits', K, sl, au, order, ('s', i, au) if (spans_tdc(sl, K) or not r['valid']) else None))
        # -- frequency ratios
        deltas_near = [Fraction(0), Fraction(1, 10**12), Fraction(-1, 10**12), Fraction(9, 10**11), Fraction(-9, 10**11)]
        deltas_far = [Fraction(1, 10**6) * 2, Fraction(-1, 10**6) * 2, Fraction(1, 10**4), Fraction(-3, 10**3),
                      Fraction(1, 50), Fraction(-1, 7), Fraction(3, 10)]
        for i, r in enumerate(ratio_recs):
            for j, d in enumerate(deltas_near + deltas_far):
                if not r['inphase'] and d != 0 and j < len(deltas_near):
                    continue
                fp = PULSE_HZ[(i + j) % (len(PULSE_HZ) if th else 2)]
                tasks.append(('ratio', r['num'], r['den'], d, FREQ_UNITS[(i + j) % 3], bool((i + j) % 2), fp))
        # -- configurations of the exhaustive model
        nmax = 4 if th else 3
        for i, c in enumerate(case_recs):
            cfg = {k: c[k] for k in ('K', 'slits', 'bp', 'ph', 'cw', 'num', 'den')}
            order = list(range(len(cfg['slits'])))
            rng.shuffle(order)
            nps = list(range(1, nmax + 1)) if th or i % 4 == 0 else [1 + i % nmax]
            tasks.append(('config', cfg, ANGLE_UNITS[i % 2], FREQ_UNITS[(i // 2) % 3], PULSE_HZ[(i // 6) % 2], nps,
                          order, {'direct': c['direct'], 'exp': c['exp']}, i % 24 == 2,
                          ('c', i) if _nontrivial(cfg, nps) else None))
        n_enumerated = len(tasks)
        # -------------------------------------------------------------- 3. code -> spec, random, large
        nrand = 1200 if th else 250
        for t in range(nrand):
            K = rng.choice([24, 48, 72, 120, 360] if th else [24, 48, 72, 120])
            n = rng.randrange(1, 7)
            num, den = rng.choice([(1, 4), (1, 3), (1, 2), (1, 1), (2, 1), (3, 1), (4, 1), (8, 1)])
            cfg = {'K': K, 'slits': random_valid_slits(rng, K, n), 'bp': rng.randrange(K),
                   'ph': rng.randrange(-3 * K, 3 * K + 1), 'cw': rng.random() < 0.5, 'num': num, 'den': den}
            order = list(range(n))
            rng.shuffle(order)
            nps = [rng.randrange(1, 5)]
            tasks.append(('config', cfg, rng.choice(ANGLE_UNITS), rng.choice(FREQ_UNITS), rng.choice(PULSE_HZ), nps,
                          order, None, t % 10 == 0, ('r', t) if _nontrivial(cfg, nps) else None))
            # a random slit set of the same size (mostly overlapping somewhere; also perturbed valid sets)
            if t % 2 == 0:
                sl = [list(x) for x in cfg['slits']]
                k = rng.randrange(n)
                if rng.random() < 0.5:
                    sl[k][1] = min(sl[k][1] + rng.choice([1, 2, K // 4, K // 2]), sl[k][0] + K - 1)
                else:
                    b = rng.randrange(K)
                    sl[k] = [b, b + rng.randrange(1, K)]
                tasks.append(('slits', K, sl, 'deg', order, ('rs', t)))
        # every chunk runs in a fresh process: at most 1500 x 14 new scipp dimension labels per process
        results = run_chunks(worker, chunked(tasks, 1500), PROCS)
        events, info, counters = merge_results(ctx, results)
        ctx.extra['tasks'] = {'enumerated': n_enumerated, 'random': len(tasks) - n_enumerated}
    # ------------------------------------------------------------------ 4. TLC judges every event
    pe = [e for e in events if e['ev'] == 'pairs']
    for e in events[:1] + pe[:1] + pe[len(pe) // 2:len(pe) // 2 + 1] + events[-2:]:
        ctx.sample(e)
    ctx.extra['direct_equal_documented_formula'] = [counters.get('direct_equal', 0), counters.get('direct', 0)]
    ctx.extra['expansion_equal_rotating_disk_for_np_pulses'] = [counters.get('exp_equal', 0), counters.get('exp', 0)]
    tf = ctx.tmp / 'c10.ndjson'
    write_ndjson(tf, events)
    tr = ctx.tlc('chopper/Trace_DiskChopper.tla', workers=1, env={'TRACE_FILE': str(tf)}, timeout=2400)
    require_ok(ctx, tr, 'Trace_DiskChopper')
    done = tr.tagged('DONE')
    if not done or done[0][1] != len(events):
        raise MachineryError(f'trace validation incomplete: {done} vs {len(events)} events')
    ctx.traces(len(events))
    for _, line, _tid, clause in tr.tagged('REJECT'):
        ev, inf = events[line - 1], info[line - 1]
        if clause.startswith('driver_error') or clause == 'unknown_event':
            raise MachineryError(f'bad event {ev}: {clause}')
        if ev['ev'] == 'pairs':
            key = f'{inf["api"]}: {clause}, {inf["rc"]}'
        elif ev['ev'] == 'slits':
            key = f'DiskChopper(): {clause}'
        else:
            key = f'time_offset_open: {clause}'
        ctx.violation(key, {'event': ev, **{k: v for k, v in inf.items() if k not in ('api', 'rc')}})
    # ------------------------------------------------------------------ 5. the judge is sensitive
    rejected = {line for _, line, _t, _c in tr.tagged('REJECT')}
    good = [e for i, e in enumerate(events) if (i + 1) not in rejected and e['ev'] == 'pairs'
            and e['api'] == 'direct' and len(e['pairs']) >= 3 and len(e['durs']) == len(e['pairs'])]
    if good:
        import copy
        a, b = copy.deepcopy(good[0]), copy.deepcopy(good[len(good) // 2])
        a['pairs'][0][1] += 1                                   # closes one tick late
        mid = sorted(b['pairs'])[len(b['pairs']) // 2]
        i = b['pairs'].index(mid)
        del b['pairs'][i], b['durs'][i]                         # an opening inside the span is dropped
        tf2 = ctx.tmp / 'c10-corrupted.ndjson'
        write_ndjson(tf2, [good[0], a, b])
        tr2 = ctx.tlc('chopper/Trace_DiskChopper.tla', workers=1, env={'TRACE_FILE': str(tf2)}, timeout=600, count=False)
        bad = sorted(r[1] for r in tr2.tagged('REJECT'))
        if bad != [2, 3]:
            raise MachineryError(f'trace specification is not sensitive: corrupted events 2, 3 -> rejected {bad}')
        ctx.extra['corrupted_events_rejected'] = [r[3] for r in tr2.tagged('REJECT')]


META = {
    'design_ref': 'DESIGN.md §5 C10',
    'technique': 'TLA+ state machine (DiskChopper) with two independent definitions - simulated rotating disk and '
                 'documented formulas - model-checked by TLC; TLC-enumerated configurations replayed into the real '
                 'DiskChopper / Chopper.from_disk_chopper and every recorded call judged by a TLC trace specification '
                 'that uses the simulated disk only',
    'text': 'TLC proves on a 12-tick disk, for every slit set of up to 3 slits (also across top-dead-centre), '
            'multi-turn phases, both senses, ratios 1/4..8 and 1..4 pulses, that the documented formulas report '
            'exactly the maximal open intervals of the simulated disk (nothing twice, nothing missing), that '
            'sort-and-compare validation with wrap-around equals disjointness on the circle, and rejects five wrong '
            'variants.  The real API is then driven with the enumerated configurations (deg/rad, Hz/kHz/1/min, '
            'permuted slits) and with seeded random ones up to 360 ticks and 6 slits; each call is recorded in '
            'integer ticks and TLC decides it against the simulated disk; slit-set and frequency-ratio rejection '
            'are decided the same way.',
    'note': 'Trusted: TLC, scipp unit conversion, the mapping time -> tick within 1e-9 periods (float comparison '
            'done in the harness, not by TLC).  Tolerance gray zone 1e-10..1e-6 of the in-phase test and '
            'full-circle slits are not tested.',
}
