SPECIFICATION Spec
CONSTANTS
  Bug = "none"
  MaxDev = 2
INVARIANT TypeOK
INVARIANT BaselineIsValid
INVARIANT RejectedIffBadField
INVARIANT BuiltIsComplete
INVARIANT VariablesOnlyWhereDeclared
INVARIANT NormalIdempotent
INVARIANT RoundTrip
INVARIANT JsonDumpIsPlain
INVARIANT EquivalentInputsEqual
INVARIANT DerivedTotal
INVARIANT PkgInv
CHECK_DEADLOCK FALSE
