SPECIFICATION Spec
CONSTANTS
  NDigits = 5
  Bug = "none"
INVARIANT AccumulatorIsWeightedSum
INVARIANT ReducedAgrees
INVARIANT CheckInRange
INVARIANT ValidityEquation
INVARIANT DetectsSubstitution
INVARIANT DetectsTransposition
INVARIANT DetectsLastTransposition
CHECK_DEADLOCK FALSE
