------------------------- MODULE Growth_TimeDistance -------------------------
(* Growth module G06, part A: what a TIME-DISTANCE DIAGRAM of a pulsed neutron source is      *)
(* (scippneutron.tof.TimeDistanceDiagram), written from the physics and the documented axes   *)
(* ("time [ms]" to the right, "distance [m]" upwards), not from the code.                      *)
(*                                                                                             *)
(* Natural units h = m_n = 1: a neutron of wavelength lambda has speed 1 / lambda, so its      *)
(* time of flight over the distance L is  L * lambda.  Times are integer ticks, the source     *)
(* emits a pulse every F ticks (F divisible by 20 so that 19/20 of a frame is a whole number), *)
(* distances and wavelengths are integers.  The state is the SEQUENCE OF DRAWN OBJECTS, one    *)
(* group per call:                                                                             *)
(*   <<"pulselabel", p>>                       caption stating the pulse length                *)
(*   <<"rect", t0, t1, y0, y1>>                source pulse: the box [t0, t1] x [y0, y1]        *)
(*   <<"vline", t>>                            frame line: vertical line at time t              *)
(*   <<"worldline", ta, da, tb, db>>           neutron: straight line (ta, da) -> (tb, db)      *)
(*   <<"nlabel", t, d>>                        label of a neutron, anchored at (t, d)           *)
(*   <<"band", p1, p2, p3, p4, auto, limit>>   wavelength band: polygon of points <<t, d>>      *)
(*   <<"hline", what, ta, tb, d>>              component at distance d drawn from ta to tb      *)
(*   <<"hlabel", what, t, d>>                  its name, anchored at (t, d)                     *)
EXTENDS Integers, Sequences, FiniteSets, TLC

CONSTANTS F,            \* frame length in ticks (1 / pulse frequency)
          TMaxs,        \* right ends of the diagram (ticks, >= 0)
          Pulses,       \* pulse lengths
          Offsets,      \* emission times
          Lambdas,      \* wavelengths of single neutrons
          Dists,        \* flight-path lengths / component distances (> 0)
          LamMins,      \* fast edge of a band
          LamMaxs,      \* slow edge of a band; 0 stands for "not given" (None)
          Lmins, Lmaxs, \* where a band starts / ends
          Strides, FrameCounts,
          MaxOps,       \* number of calls per diagram
          Bug           \* "none" | negative controls, see the operators below

ASSUME F > 0 /\ F % 20 = 0

VARIABLES tmax, ops, drawn
vars == <<tmax, ops, drawn>>

None == 0

-----------------------------------------------------------------------------
(* the objects *)
Tof(lam, L) == L * lam                       \* L * lambda * m_n / h

FrameStarts(tm) == { k \in 0..(tm + 1) : IF Bug = "frames_le" THEN k * F <= tm ELSE k * F < tm }

PulseArtists(p, tm) ==
    LET n == Cardinality(FrameStarts(tm))
        one(i) == LET k == (i - 1) \div 2
                  IN IF i % 2 = 1
                     THEN <<"rect", k * F, k * F + p, IF Bug = "rect_up" THEN 0 ELSE -1, IF Bug = "rect_up" THEN 1 ELSE 0>>
                     ELSE <<"vline", k * F>>
    IN <<<<"pulselabel", p>>>> \o [i \in 1..(2 * n) |-> one(i)]

NeutronArtists(off, lam, L, labelled) ==
    LET arrival == IF Bug = "offset_dropped" THEN Tof(lam, L) ELSE off + Tof(lam, L)
    IN <<<<"worldline", off, 0, arrival, L>>>>
       \o (IF labelled THEN <<<<"nlabel", arrival, L>>>> ELSE <<>>)

(* band number k (0, 1, ...) of a call: emitted at Lmin at time off + k * stride * F *)
BandArtist(k, lmin, lmax, Lmin, Lmax, off, stride) ==
    LET t0   == off + k * (IF Bug = "stride_ignored" THEN 1 ELSE stride) * F
        fast == t0 + Tof(lmin, Lmax - Lmin)
        slow == IF lmax = None
                THEN fast + (stride - 1) * F + ((IF Bug = "gap" THEN 21 ELSE 19) * F) \div 20
                ELSE t0 + Tof(IF Bug = "band_min_both" THEN lmin ELSE lmax, Lmax - Lmin)
    IN <<"band", <<t0, Lmin>>, <<t0, Lmin>>, <<slow, Lmax>>, <<fast, Lmax>>, lmax = None, fast + stride * F>>

BandArtists(lmin, lmax, Lmin, Lmax, off, stride, frames) ==
    [i \in 1..frames |-> BandArtist(i - 1, lmin, lmax, Lmin, Lmax, off, stride)]

ComponentArtists(what, d, tm) == << <<"hline", what, 0, tm, d>>, <<"hlabel", what, 0, d>> >>

-----------------------------------------------------------------------------
(* the calls: any of them, in any order, any number (up to MaxOps) *)
Do(op, artists) == /\ Len(ops) < MaxOps
                   /\ ops' = Append(ops, op)
                   /\ drawn' = Append(drawn, artists)
                   /\ UNCHANGED tmax

AddSourcePulseP(p) == Do(<<"AddSourcePulse", p>>, PulseArtists(p, tmax))
AddSourcePulse == \E p \in Pulses : AddSourcePulseP(p)

AddNeutronP(q) == Do(<<"AddNeutron", q[1], q[2], q[3], q[4]>>, NeutronArtists(q[1], q[2], q[3], q[4]))
AddNeutron == \E q \in Offsets \X Lambdas \X Dists \X BOOLEAN : AddNeutronP(q)

BandParams == { q \in LamMins \X LamMaxs \X Lmins \X Lmaxs \X Offsets \X Strides \X FrameCounts :
                  /\ q[2] = None \/ q[2] >= q[1]
                  /\ q[3] < q[4] }

AddNeutronsP(q) == Do(<<"AddNeutrons", q[1], q[2], q[3], q[4], q[5], q[6], q[7]>>,
                      BandArtists(q[1], q[2], q[3], q[4], q[5], q[6], q[7]))
AddNeutrons == \E q \in BandParams : AddNeutronsP(q)

AddDetectorP(d) == Do(<<"AddDetector", d>>, ComponentArtists("detector", d, tmax))
AddDetector == \E d \in Dists : AddDetectorP(d)
AddSampleP(d) == Do(<<"AddSample", d>>, ComponentArtists("sample", d, tmax))
AddSample   == \E d \in Dists : AddSampleP(d)

Init == tmax \in TMaxs /\ ops = <<>> /\ drawn = <<>>
Next == AddSourcePulse \/ AddNeutron \/ AddNeutrons \/ AddDetector \/ AddSample
Spec == Init /\ [][Next]_vars

-----------------------------------------------------------------------------
(* properties.  Helpers on drawn objects only *)
Calls == 1..Len(ops)
Kind(i) == ops[i][1]
OfKind(i, kind) == { j \in 1..Len(drawn[i]) : drawn[i][j][1] = kind }
CeilDiv(a, b) == (a + b - 1) \div b

Aligned == Len(ops) = Len(drawn) /\ Len(ops) <= MaxOps

(* ---- source pulses: one rectangle per frame that starts before tmax *)
PulseRectCount ==
    \A i \in Calls : Kind(i) = "AddSourcePulse" =>
        Cardinality(OfKind(i, "rect")) = (IF tmax > 0 THEN CeilDiv(tmax, F) ELSE 0)

PulseRectsAtFrameStarts ==
    \A i \in Calls : Kind(i) = "AddSourcePulse" =>
        LET p == ops[i][2]
            g == drawn[i]
            rects == { g[j] : j \in OfKind(i, "rect") }
            lines == { g[j] : j \in OfKind(i, "vline") }
        IN /\ rects = { <<"rect", k * F, k * F + p, -1, 0>> : k \in { m \in 0..tmax : m * F < tmax } }
           /\ lines = { <<"vline", r[2]>> : r \in rects }              \* a frame line at every pulse start
           /\ Cardinality(OfKind(i, "vline")) = Cardinality(OfKind(i, "rect"))
           /\ \A r \in rects : r[2] < tmax                             \* no pulse at or beyond the right end
           /\ tmax > 0 => \E r \in rects : r[2] + F >= tmax            \* no frame left out
           /\ Cardinality(OfKind(i, "pulselabel")) = 1 /\ g[1] = <<"pulselabel", p>>

(* ---- single neutrons *)
WorldlineOf(i) == drawn[i][1]
(* time at which the drawn line w passes distance d, as the fraction num / den (den > 0) *)
TimeNum(w, d) == w[2] * (w[5] - w[3]) + (w[4] - w[2]) * (d - w[3])
TimeDen(w) == w[5] - w[3]

WorldlineSlope ==        \* distance per time = 1 / lambda, starting at the source at the emission time
    \A i \in Calls : Kind(i) = "AddNeutron" =>
        LET w == WorldlineOf(i)
        IN /\ w[1] = "worldline" /\ w[2] = ops[i][2] /\ w[3] = 0 /\ w[5] = ops[i][4]
           /\ (w[5] - w[3]) * ops[i][3] = (w[4] - w[2])

FasterArrivesEarlier ==  \* not later emitted and not slower (one of them strictly): ahead at every distance
    \A i, j \in Calls : (Kind(i) = "AddNeutron" /\ Kind(j) = "AddNeutron") =>
        LET a == WorldlineOf(i)
            b == WorldlineOf(j)
        IN (ops[i][2] <= ops[j][2] /\ ops[i][3] <= ops[j][3] /\ <<ops[i][2], ops[i][3]>> # <<ops[j][2], ops[j][3]>>) =>
             \A d \in 1..(IF a[5] < b[5] THEN a[5] ELSE b[5]) :
                 TimeNum(a, d) * TimeDen(b) < TimeNum(b, d) * TimeDen(a)

SameEmissionNeverCross ==   \* drawn lines only: two lines leaving the same point with different slopes
    \A i, j \in Calls : (Kind(i) = "AddNeutron" /\ Kind(j) = "AddNeutron") =>
        LET a == WorldlineOf(i)
            b == WorldlineOf(j)
        IN (a[2] = b[2] /\ a[3] = b[3] /\ (a[4] - a[2]) * (b[5] - b[3]) # (b[4] - b[2]) * (a[5] - a[3])) =>
             \A d \in 1..(IF a[5] < b[5] THEN a[5] ELSE b[5]) :
                 TimeNum(a, d) * TimeDen(b) # TimeNum(b, d) * TimeDen(a)

LabelAtWorldlineEnd ==
    \A i \in Calls : Kind(i) = "AddNeutron" =>
        /\ Len(drawn[i]) = (IF ops[i][5] THEN 2 ELSE 1)
        /\ ops[i][5] => drawn[i][2] = <<"nlabel", WorldlineOf(i)[4], WorldlineOf(i)[5]>>

(* ---- bands *)
Cross(o, a, b) == (a[1] - o[1]) * (b[2] - o[2]) - (a[2] - o[2]) * (b[1] - o[1])
Convex(pts) ==          \* all turns of the closed polygon have the same orientation (degenerate turns allowed)
    LET n == Len(pts)
        turn(i) == Cross(pts[i], pts[(i % n) + 1], pts[((i + 1) % n) + 1])
    IN (\A i \in 1..n : turn(i) >= 0) \/ (\A i \in 1..n : turn(i) <= 0)
Points(b) == <<b[2], b[3], b[4], b[5]>>

BandShape ==
    \A i \in Calls : Kind(i) = "AddNeutrons" =>
        /\ Len(drawn[i]) = ops[i][8]                                   \* one polygon per requested frame
        /\ \A j \in 1..Len(drawn[i]) :
              LET b == drawn[i][j]
              IN /\ b[1] = "band"
                 /\ b[2] = b[3] /\ b[2][2] = ops[i][4]                 \* emitted from one point at Lmin
                 /\ b[4][2] = ops[i][5] /\ b[5][2] = ops[i][5]         \* ends at Lmax
                 /\ b[5][1] <= b[4][1]                                 \* ordered: fast edge not after slow edge
                 /\ b[2][1] <= b[5][1]                                 \* nothing arrives before it is emitted
                 /\ Convex(Points(b))

BandsShiftedByStride ==
    \A i \in Calls : Kind(i) = "AddNeutrons" =>
        /\ drawn[i][1][2][1] = ops[i][6]                               \* first band emitted at the time offset
        /\ \A j \in 1..(Len(drawn[i]) - 1) : \A v \in 2..5 :
              /\ drawn[i][j + 1][v][1] = drawn[i][j][v][1] + ops[i][7] * F
              /\ drawn[i][j + 1][v][2] = drawn[i][j][v][2]

BandIsWavelengthRange ==  \* with lambda_max given: a neutron of the band's emission point arrives inside
    \A i \in Calls : (Kind(i) = "AddNeutrons" /\ ops[i][3] # None) =>           \* iff lmin <= lambda <= lmax
        \A j \in 1..Len(drawn[i]) : \A lam \in 1..(ops[i][3] + 2) :
            LET b == drawn[i][j]
                arrival == b[2][1] + Tof(lam, ops[i][5] - ops[i][4])
            IN (b[5][1] <= arrival /\ arrival <= b[4][1]) <=> (ops[i][2] <= lam /\ lam <= ops[i][3])

BandFastEdge ==
    \A i \in Calls : Kind(i) = "AddNeutrons" =>
        \A j \in 1..Len(drawn[i]) :
            drawn[i][j][5][1] = drawn[i][j][2][1] + Tof(ops[i][2], ops[i][5] - ops[i][4])

OverlapAtLmax(b, c) == b[4][1] > c[5][1]      \* slow edge of b arrives after the fast edge of the next band c

NoOverlapWhenAuto ==      \* lambda_max not given: "set such that there is no frame overlap at Lmax"
    \A i \in Calls : (Kind(i) = "AddNeutrons" /\ ops[i][3] = None) =>
        /\ \A j \in 1..(Len(drawn[i]) - 1) : ~OverlapAtLmax(drawn[i][j], drawn[i][j + 1])
        /\ \A j \in 1..Len(drawn[i]) : /\ drawn[i][j][6] = TRUE
                                       /\ drawn[i][j][4][1] <= drawn[i][j][7]      \* inside the stated limit
                                       /\ drawn[i][j][5][1] < drawn[i][j][4][1]    \* and not empty

OverlapIffTooWide ==      \* lambda_max given: overlap exactly when the band is wider than the stride
    \A i \in Calls : (Kind(i) = "AddNeutrons" /\ ops[i][3] # None) =>
        \A j \in 1..(Len(drawn[i]) - 1) :
            OverlapAtLmax(drawn[i][j], drawn[i][j + 1])
              <=> (Tof(ops[i][3], ops[i][5] - ops[i][4]) - Tof(ops[i][2], ops[i][5] - ops[i][4]) > ops[i][7] * F)

LimitIsNextFastEdge ==
    \A i \in Calls : Kind(i) = "AddNeutrons" =>
        \A j \in 1..(Len(drawn[i]) - 1) : drawn[i][j][7] = drawn[i][j + 1][5][1]

(* a single neutron emitted with a band (same time, band from the source, wavelength inside) stays inside it *)
WorldlineInsideBand ==
    \A i, j \in Calls : (Kind(i) = "AddNeutron" /\ Kind(j) = "AddNeutrons" /\ ops[j][3] # None) =>
        LET w == WorldlineOf(i)
            b == drawn[j][1]
            fastedge == <<"edge", b[2][1], b[2][2], b[5][1], b[5][2]>>
            slowedge == <<"edge", b[2][1], b[2][2], b[4][1], b[4][2]>>
        IN (ops[j][4] = 0 /\ ops[i][2] = ops[j][6] /\ ops[j][2] <= ops[i][3] /\ ops[i][3] <= ops[j][3]) =>
             \A d \in 1..(IF w[5] < ops[j][5] THEN w[5] ELSE ops[j][5]) :
                 /\ TimeNum(fastedge, d) * TimeDen(w) <= TimeNum(w, d) * TimeDen(fastedge)
                 /\ TimeNum(w, d) * TimeDen(slowedge) <= TimeNum(slowedge, d) * TimeDen(w)

(* ---- components *)
ComponentSpansDiagram ==
    \A i \in Calls : Kind(i) \in {"AddDetector", "AddSample"} =>
        LET what == IF Kind(i) = "AddDetector" THEN "detector" ELSE "sample"
        IN drawn[i] = << <<"hline", what, 0, tmax, ops[i][2]>>, <<"hlabel", what, 0, ops[i][2]>> >>

(* ---- each call draws its own kinds of objects only *)
KindsOf(kind) == CASE kind = "AddSourcePulse" -> {"pulselabel", "rect", "vline"}
                   [] kind = "AddNeutron" -> {"worldline", "nlabel"}
                   [] kind = "AddNeutrons" -> {"band"}
                   [] OTHER -> {"hline", "hlabel"}
OwnKindsOnly == \A i \in Calls : \A j \in 1..Len(drawn[i]) : drawn[i][j][1] \in KindsOf(Kind(i))

(* ---- drawing never changes what was drawn before (action property) *)
EarlierObjectsKept ==
    [][ /\ Len(drawn') = Len(drawn) + 1
        /\ \A i \in 1..Len(drawn) : drawn'[i] = drawn[i] /\ ops'[i] = ops[i]
        /\ tmax' = tmax ]_vars

(* a call draws the same objects whatever was drawn before it: group i depends on ops[i] and tmax only *)
OrderIndependent ==
    \A i, j \in Calls : ops[i] = ops[j] => drawn[i] = drawn[j]

(* export of complete behaviours for the replay into the implementation (workers = 1) *)
Emit == Len(ops) = MaxOps => PrintT(<<"DIAGRAM", tmax, ops, drawn>>)
=============================================================================
