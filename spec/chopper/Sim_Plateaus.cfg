SPECIFICATION Spec
CONSTANTS
  MaxLen = 14
  Vals = {0, 1, 2, 3, 4, 5, 6, 7, 8, 9}
  Steps = {1, 2, 4, 8}
  Atols <- Sim_Atols
  Bug = "none"
INVARIANT GroupsAreMaxRuns
INVARIANT EmitCase
CHECK_DEADLOCK FALSE
