from .. import lib_growth_instview

def run(ctx):
    lib_growth_instview.run(ctx)
