------------------------ MODULE Growth_FrameBoundsDefs ------------------------
(* GROWTH (beyond the 20 listed properties): quantities DERIVED from the frames of a chopper  *)
(* cascade in scippneutron.tof.chopper_cascade --                                              *)
(*   Frame.bounds(), Frame.subbounds(), Subframe.start_time / end_time / start_wavelength /    *)
(*   end_wavelength (also for an array of distances), Subframe.propagate_by, and the           *)
(*   back-propagation to the source that FrameSequence.acceptance_diagram() draws --           *)
(* on the integer-lattice cascade model of ChopperCascadeDefs (units m_n/h = 1, polygon        *)
(* coordinates scaled by L, grid neutrons doubled).  State-free; shared by the state machine   *)
(* Growth_FrameBounds, the emitter Growth_Emit_FrameBounds and the judge                       *)
(* Growth_Trace_FrameBounds.                                                                    *)
EXTENDS ChopperCascadeDefs

(* ---- procedure-shaped, the way the API composes them: per-subframe extremes first (the      *)
(* Subframe properties), then the extremes of those (Frame.bounds)                              *)
StartTime(poly)       == BoundsOf(poly)[1]
EndTime(poly)         == BoundsOf(poly)[2]
StartWavelength(poly) == BoundsOf(poly)[3]
EndWavelength(poly)   == BoundsOf(poly)[4]

SubBounds(polys) == [ k \in 1..Len(polys) |-> BoundsOf(polys[k]) ]

FrameBounds(polys, bug) ==
    LET ks == IF bug = "firstsub" THEN {1} ELSE 1..Len(polys)
    IN << MinOver({ StartTime(polys[k]) : k \in ks }),       MaxOver({ EndTime(polys[k]) : k \in ks }),
          MinOver({ StartWavelength(polys[k]) : k \in ks }), MaxOver({ EndWavelength(polys[k]) : k \in ks }) >>

(* ---- declarative: the extremes over the set of all vertices of all subframes                *)
AllVertices(polys) == UNION { { polys[k][i] : i \in 1..Len(polys[k]) } : k \in 1..Len(polys) }
DeclBounds(polys) ==
    LET V == AllVertices(polys)
    IN << MinOver({ v[1] : v \in V }), MaxOver({ v[1] : v \in V }),
          MinOver({ v[2] : v \in V }), MaxOver({ v[2] : v \in V }) >>

(* ---- Subframe.propagate_by(delta): a DIFFERENCE of distances, either sign                   *)
PropagateBy(poly, delta) == Shear(poly, delta)
(* start / end time of a subframe for a sequence of distance differences (what                 *)
(* Frame.propagate_to(array of distances) followed by start_time / end_time reports)           *)
StartTimes(poly, deltas) == [ j \in 1..Len(deltas) |-> StartTime(PropagateBy(poly, deltas[j])) ]
EndTimes(poly, deltas)   == [ j \in 1..Len(deltas) |-> EndTime(PropagateBy(poly, deltas[j])) ]

(* ---- acceptance diagram: every frame propagated back to the source distance 0               *)
Acceptance(frame, bug) == ShearAll(frame.polys, IF bug = "accsign" THEN frame.d ELSE 0 - frame.d)

(* ---- judgements on the neutron layer (everything doubled, polygon coordinates scaled by L)  *)
(* grid neutron n, at distance d, strictly inside the box <<tmin, tmax, wmin, wmax>>            *)
InBox(n, b, d, L) == /\ 2 * b[1] < L * Arrival2(n, d) /\ L * Arrival2(n, d) < 2 * b[2]
                     /\ 2 * b[3] < L * n[2]           /\ L * n[2] < 2 * b[4]

(* vertex v in the closed convex region of poly (zero-length edges ignored)                    *)
InClosedPoly(v, poly) ==
    LET m == Len(poly)
        E == { i \in 1..m : poly[i] # poly[(i % m) + 1] }
    IN \/ \A i \in E : Cross(poly[i], poly[(i % m) + 1], v[1], v[2]) >= 0
       \/ \A i \in E : Cross(poly[i], poly[(i % m) + 1], v[1], v[2]) <= 0

InSourceRect(poly, p, L) ==
    \A i \in 1..Len(poly) : /\ L * p.t0 <= poly[i][1] /\ poly[i][1] <= L * p.t1
                            /\ L * p.w0 <= poly[i][2] /\ poly[i][2] <= L * p.w1
=============================================================================
