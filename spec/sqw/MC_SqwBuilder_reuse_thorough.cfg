SPECIFICATION Spec
CONSTANTS
  NPix = {0, 10}
  Chunks = {9, 100}
  Shapes <- MC_Shapes_reuse
  RegSize <- MC_RegSize
  ByteOrders <- MC_BO_both
  Prev <- MC_Prev_some
  MaxGen = 2
  Bug = "none"
INVARIANT TypeOK
INVARIANT HeaderFirst
INVARIANT Sequential
INVARIANT BlockAtDeclaredPosition
INVARIANT Tiling
INVARIANT NothingSurvives
INVARIANT EachBlockOnce
INVARIANT CanonicalOrder
INVARIANT PixBytes
INVARIANT KindsAndSizes
INVARIANT ByteOrderReopened
INVARIANT EmitBehaviour
CHECK_DEADLOCK FALSE
