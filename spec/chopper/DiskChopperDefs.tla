-------------------------- MODULE DiskChopperDefs --------------------------
(* State-free definitions for property C10 (disk-chopper openings), shared by the state   *)
(* machine DiskChopper, the emitter Emit_DiskChopper and the judge Trace_DiskChopper.     *)
(*                                                                                          *)
(* Discretisation.  One turn of the disk = K angular ticks; the disk turns by one angular  *)
(* tick per time tick (|omega| = 1 tick/tick), so one rotation period = K time ticks.      *)
(* Angular cell j is the open angular interval (j, j+1) (mod K), measured anticlockwise    *)
(* from top-dead-centre (TDC) on the disk; time cell tau is the open interval (tau,tau+1). *)
(* A slit <<b, e>> (b < e, e may exceed K when the slit spans TDC) removes the cells       *)
(* b .. e-1 (mod K) and occupies the closed point set b .. e (mod K).                      *)
(*                                                                                          *)
(* A configuration is a record                                                              *)
(*   [K, slits : Seq(<<b,e>>), bp, ph : Int, cw : BOOLEAN, num, den : Nat \ {0}]            *)
(* bp = beam position, ph = phase (may be several turns, either sign), cw = clockwise      *)
(* (frequency < 0), num/den = |f| / f_pulse.                                                *)
EXTENDS Integers, Sequences, FiniteSets

Cells(s, K)  == { (s[1] + j) % K : j \in 0..(s[2] - s[1] - 1) }
Points(s, K) == { (s[1] + j) % K : j \in 0..(s[2] - s[1]) }
Width(s)     == s[2] - s[1]

(* the inputs the property quantifies over: begin on the first turn, begin < end, and the  *)
(* slit shorter than the full circle                                                        *)
WellFormed(sl, K) ==
    \A i \in 1..Len(sl) : /\ 0 <= sl[i][1] /\ sl[i][1] < K
                          /\ sl[i][1] < sl[i][2] /\ sl[i][2] - sl[i][1] < K

(* ---- validity, declarative: the slits are pairwise disjoint *on the circle*            *)
(* (touching counts as overlapping: two touching slits are one opening)                    *)
ValidSlits(sl, K) ==
    /\ WellFormed(sl, K)
    /\ \A i, j \in 1..Len(sl) : i < j => Points(sl[i], K) \cap Points(sl[j], K) = {}

(* ---- validity, procedure-shaped: sort by begin, compare neighbours, then compare the   *)
(* last end, taken one turn back, with the first begin (wrap-around across TDC)            *)
RECURSIVE SortByBegin(_)
SortByBegin(S) ==     \* S: set of slits
    IF S = {} THEN <<>>
    ELSE LET m == CHOOSE x \in S : \A y \in S : x[1] < y[1] \/ (x[1] = y[1] /\ x[2] <= y[2])
         IN <<m>> \o SortByBegin(S \ {m})

(* `sl` is the slit set IN THE ORDER THE CALLER LISTED IT ("the order is arbitrary but must     *)
(* match the order of slit_end").  bug = "wraplisted": the wrap-around comparison is made on   *)
(* the listed instead of the sorted slits (every listed end but the first, one turn back,      *)
(* against the first listed begin) - right only when the caller happens to list by begin.      *)
ProcValid(sl, K, bug) ==
    LET S == { sl[i] : i \in 1..Len(sl) }
        s == SortByBegin(S)
        n == Len(s)
    IN  /\ n = Len(sl)                                   \* no slit listed twice
        /\ \A i \in 1..n : s[i][1] <= s[i][2]
        /\ \A i \in 1..(n-1) : s[i+1][1] > s[i][2]
        /\ IF bug = "wraplisted" THEN \A i \in 2..n : sl[i][2] - K < sl[1][1]
           ELSE (bug = "nowrap" \/ n <= 1 \/ s[n][2] - K < s[1][1])

(* listing orders: all of them for up to 3 slits, reversal / rotation / one swap beyond        *)
Orders(n) ==
    IF n <= 3 THEN { q \in [1..n -> 1..n] : \A i, j \in 1..n : i # j => q[i] # q[j] }
    ELSE { [i \in 1..n |-> i], [i \in 1..n |-> n + 1 - i], [i \in 1..n |-> (i % n) + 1],
           [i \in 1..n |-> IF i = 1 THEN 2 ELSE IF i = 2 THEN 1 ELSE i] }
Listed(sl, q) == [ i \in 1..Len(sl) |-> sl[q[i]] ]

(* ---- frequency ratio num/den: integer multiple or divisor of the pulse frequency        *)
InPhaseDecl(num, den) == \E n \in 1..(num + den) : num = n * den \/ den = n * num
InPhaseProc(num, den) == num % den = 0 \/ den % num = 0

-----------------------------------------------------------------------------
(* (a) THE ROTATING DISK.  At time t (relative to the pulse) the point of the disk under   *)
(* the beam has disk angle  bp + ph - omega t  (mod one turn): the beam sits at laboratory *)
(* angle bp, TDC passes laboratory angle 0 at the time where omega t = ph, and a disk      *)
(* turning anticlockwise (omega > 0) carries disk angle theta to laboratory angle          *)
(* theta + omega t - ph.  Hence during time cell tau the angular cell under the beam is    *)
CellAt(c, tau) == IF c.cw THEN (c.bp + c.ph + tau) % c.K          \* omega = -1
                  ELSE (c.bp + c.ph - tau - 1) % c.K               \* omega = +1

OpenCells(c) == UNION { Cells(c.slits[i], c.K) : i \in 1..Len(c.slits) }

(* all judgements about a list rep of reported pairs <<open, close>> (ticks)               *)
MinOf(S) == CHOOSE x \in S : \A y \in S : x <= y
MaxOf(S) == CHOOSE x \in S : \A y \in S : x >= y

OpenBeforeCloseOf(rep) == \A j \in 1..Len(rep) : rep[j][1] < rep[j][2]

(* open throughout the interval, closed in the cells just outside it                       *)
MaximalOpenOf(c, oc, r) ==
    /\ \A tau \in r[1]..(r[2]-1) : CellAt(c, tau) \in oc
    /\ CellAt(c, r[1] - 1) \notin oc
    /\ CellAt(c, r[2]) \notin oc

AllMaximalOpenOf(c, rep) ==
    LET oc == OpenCells(c) IN \A j \in 1..Len(rep) : MaximalOpenOf(c, oc, rep[j])

(* each slit once per rotation: no opening is listed twice                                 *)
NoDuplicateOf(rep) == \A i, j \in 1..Len(rep) : i < j => rep[i][1] # rep[j][1]

(* every opening of the disk inside the covered span (first open .. last close) is listed  *)
NoneMissingOf(c, rep) ==
    Len(rep) = 0 \/
    LET oc == OpenCells(c)
        lo == MinOf({ rep[j][1] : j \in 1..Len(rep) })
        hi == MaxOf({ rep[j][2] : j \in 1..Len(rep) })
        starts == { rep[j][1] : j \in 1..Len(rep) }
    IN \A tau \in lo..(hi-1) :
          (CellAt(c, tau) \in oc /\ CellAt(c, tau - 1) \notin oc) => tau \in starts

(* the reported openings span at least the np pulse periods they are documented to cover  *)
(* ("each slit shows up multiple times in the result such that the array covers an entire  *)
(* pulse length"; "number of pulses to rotate the chopper for"): one pulse period is       *)
(* K * num / den ticks.                                                                     *)
CoversPulsesOf(c, rep, np) ==
    Len(rep) = 0 \/
    LET lo == MinOf({ rep[j][1] : j \in 1..Len(rep) })
        hi == MaxOf({ rep[j][2] : j \in 1..Len(rep) })
    IN (hi - lo) * c.den >= np * c.K * c.num

(* duration = width of the slit that is under the beam, divided by |omega| = 1             *)
SlitUnder(c, tau) == CHOOSE i \in 1..Len(c.slits) : CellAt(c, tau) \in Cells(c.slits[i], c.K)
DurationIsWidthOf(c, rep, dur) ==
    LET oc == OpenCells(c)
    IN \A j \in 1..Len(rep) :
          CellAt(c, rep[j][1]) \in oc => dur[j] = Width(c.slits[SlitUnder(c, rep[j][1])])

-----------------------------------------------------------------------------
(* (b) THE DOCUMENTED FORMULAS (module documentation of scippneutron.chopper.disk_chopper) *)
(*   Delta t(theta) = (bp + ph - theta) / omega  (+ one period if anticlockwise)           *)
(*   clockwise:      begin <-> open,  end <-> close                                         *)
(*   anticlockwise:  begin <-> close, end <-> open                                          *)
(*   the slit angles are repeated over the turns -1 .. n-1, shifted so that later          *)
(*   repetitions are later in time; n = max(|f| / f_pulse, 1)                               *)
DeltaT(c, th, bug) ==
    LET ph == IF bug = "phasesign" THEN -c.ph ELSE c.ph
    IN IF c.cw THEN th - c.bp - ph                 \* omega = -1
       ELSE c.bp + ph - th + c.K                   \* omega = +1, plus one period

RepAngle(c, th, k) == IF c.cw THEN th + k * c.K ELSE th - k * c.K

OpenEdge(c, i, bug)  == IF c.cw \/ bug = "swap" THEN c.slits[i][1] ELSE c.slits[i][2]
CloseEdge(c, i, bug) == IF c.cw \/ bug = "swap" THEN c.slits[i][2] ELSE c.slits[i][1]

PairOf(c, i, k, bug) == << DeltaT(c, RepAngle(c, OpenEdge(c, i, bug), k), bug),
                           DeltaT(c, RepAngle(c, CloseEdge(c, i, bug), k), bug) >>

(* turns first..last, slits in the given order within each turn                            *)
ReportedTurns(c, first, last, bug) ==
    LET n == Len(c.slits)
    IN [ j \in 1..((last - first + 1) * n) |->
            PairOf(c, ((j-1) % n) + 1, ((j-1) \div n) + first, bug) ]

NRep(c) == IF c.den = 1 THEN c.num ELSE 1
ReportedDirect(c, bug) ==
    IF bug = "truncate" /\ NRep(c) >= 2 THEN ReportedTurns(c, -1, NRep(c) - 2, bug)   \* one rotation too few
    ELSE IF bug = "gap" THEN ReportedTurns(c, -1, -1, bug) \o ReportedTurns(c, 1, NRep(c) - 1, bug)
    ELSE ReportedTurns(c, -1, NRep(c) - 1, bug)

(* Expansion over np source pulses ("number of pulses to rotate the chopper for"): the     *)
(* disk keeps rotating uniformly; np pulse periods = np * num / den rotations.             *)
Rotations(c, np) == (np * c.num + c.den - 1) \div c.den          \* ceiling
PulsePeriod(c)   == (c.K * c.num) \div c.den                      \* ticks; needs den | K*num

Shift(rep, d) == [ j \in 1..Len(rep) |-> << rep[j][1] + d, rep[j][2] + d >> ]
RECURSIVE PerPulse(_, _, _)
PerPulse(c, np, bug) ==      \* the direct result repeated with one offset per pulse
    IF np = 0 THEN <<>>
    ELSE PerPulse(c, np - 1, bug) \o Shift(ReportedDirect(c, bug), (np - 1) * PulsePeriod(c))

Expanded(c, np, bug) ==
    IF bug = "perpulse" THEN PerPulse(c, np, bug)
    ELSE ReportedTurns(c, -1, Rotations(c, np) - 1, bug)

Durations(rep) == [ j \in 1..Len(rep) |-> rep[j][2] - rep[j][1] ]
=============================================================================
