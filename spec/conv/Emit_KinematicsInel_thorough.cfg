SPECIFICATION Spec
CONSTANTS
  Speeds <- MC_SpeedsFull
  Lengths = {1, 2, 3, 4, 5, 8}
  Deltas <- MC_Deltas
  Bug = "none"
  MaxBanks = 1
  Emit = TRUE
INVARIANT TypeOK
INVARIANT ArrivalAfterT0
INVARIANT T0Linear
INVARIANT EnergyConservation
INVARIANT Boundary
INVARIANT NoInf
INVARIANT EmitFlight
CHECK_DEADLOCK FALSE
