---------------------------- MODULE CifLexerDefs ----------------------------
(* The lexical grammar of CIF 1.1 (International Tables G, 2.2.7; the formal grammar   *)
(* of https://www.iucr.org/resources/cif/spec/version1.1/cifsyntax) as a state machine *)
(* over code points, written from the grammar, not from scippneutron.                   *)
(*                                                                                      *)
(*   <OrdinaryChar>  = printable ASCII except  " # $ ' _ ; [ ]  and blank               *)
(*   <NonBlankChar>  = printable ASCII except blank                                     *)
(*   <AnyPrintChar>  = <NonBlankChar> | SP | HT                                         *)
(*   <WhiteSpace>    = { SP | HT | eol | comment }+ ;  comment = '#' AnyPrintChar* eol  *)
(*   <Tag>           = '_' NonBlankChar+                                                *)
(*   unquoted string = OrdinaryChar NonBlankChar*  at the start of a line,              *)
(*                     (OrdinaryChar | ';') NonBlankChar*  elsewhere                    *)
(*   quoted string   = q AnyPrintChar* q  where the closing q is the first q that is    *)
(*                     followed by white space (or the end of the file)                 *)
(*   text field      = <eol>';' ... <eol>';'   (opened / closed by ';' in column 1)     *)
(*   reserved words  = data_<name>  save_<name>  loop_  stop_  global_ (case-insens.)   *)
(*   reserved openers: an unquoted string must not start with  $  [  ]                  *)
(*                                                                                      *)
(* Text is a sequence of code points.  Lex(text) = [t |-> tokens, e |-> first error].   *)
(* A token is [k |-> kind, s |-> code points]; kinds: "tag" (s without '_'), "val",     *)
(* "data" (s = block name), "save", "loop", "stop", "global".  CIF 1.1 has three line  *)
(* terminators, LF, CR LF and a bare CR: a CR acts exactly like an LF (and the LF of a   *)
(* CR LF pair is swallowed), so a CR inside a comment ENDS the comment, a CR inside a    *)
(* quoted string is an error, a CR inside a text field is a line break of the value and  *)
(* CR ';' closes a text field.  Values are therefore compared after NormalizeBreaks.     *)
(* Any other code point outside {HT, LF, CR, 32..126} is an error.                       *)
EXTENDS Integers, Sequences, FiniteSets, SequencesExt

HT == 9    LF == 10   CR == 13   SP == 32   DQ == 34   HASH == 35   DOLLAR == 36   SQ == 39
SEMI == 59 LBR == 91  RBR == 93  US == 95   BSL == 92

IsBlank(c)    == c \in {SP, HT, LF}
IsLegal(c)    == c = HT \/ c = LF \/ (c >= 32 /\ c <= 126)
IsNonBlank(c) == c >= 33 /\ c <= 126
Special       == {DQ, HASH, DOLLAR, SQ, US, SEMI, LBR, RBR}
IsOrdinary(c) == IsNonBlank(c) /\ c \notin Special

Lower(c)    == IF c >= 65 /\ c <= 90 THEN c + 32 ELSE c
LowerSeq(s) == [i \in 1..Len(s) |-> Lower(s[i])]
HasPrefix(s, p) == Len(s) >= Len(p) /\ SubSeq(s, 1, Len(p)) = p

KwData   == <<100, 97, 116, 97, 95>>          \* data_
KwSave   == <<115, 97, 118, 101, 95>>         \* save_
KwLoop   == <<108, 111, 111, 112, 95>>        \* loop_
KwStop   == <<115, 116, 111, 112, 95>>        \* stop_
KwGlobal == <<103, 108, 111, 98, 97, 108, 95>> \* global_

(* TRUE iff the sequence contains LF immediately followed by ';' *)
HasLfSemi(s) == \E i \in 1..(Len(s) - 1) : s[i] = LF /\ s[i+1] = SEMI
HasChar(s, c) == \E i \in 1..Len(s) : s[i] = c

(* Remove leading and trailing blanks (SP, HT, LF, CR): "strings are recovered up to   *)
(* surrounding blanks".                                                                *)
Strip(s) ==
    LET nb == { i \in 1..Len(s) : ~(IsBlank(s[i]) \/ s[i] = CR) }
    IN IF nb = {} THEN <<>>
       ELSE LET lo == CHOOSE i \in nb : \A j \in nb : i <= j
                hi == CHOOSE i \in nb : \A j \in nb : i >= j
            IN SubSeq(s, lo, hi)

-----------------------------------------------------------------------------
(* Lexer state: m mode, b buffer of the token being read, t tokens so far, bol = the   *)
(* next character is the first of its line, e first error ("" = none).                 *)
(* Modes: "ws" between tokens, "com" comment, "uq" unquoted token / tag / reserved     *)
(* word, "sq"/"dq" inside a quoted string, "sqe"/"dqe" just after a quote character    *)
(* that closes the string iff the next character is blank, "tf" text field, "tfl" text *)
(* field just after an eol, "tfe" just after the closing ';' of a text field.          *)
L0 == [m |-> "ws", b |-> <<>>, t |-> <<>>, bol |-> TRUE, e |-> "", cr |-> FALSE]   \* cr: the previous character was a CR

Err(st, msg) == IF st.e = "" THEN [st EXCEPT !.e = msg] ELSE st

(* token for a completed unquoted character run *)
UqToken(b) ==
    LET lb == LowerSeq(b) IN
    IF b[1] = US THEN [k |-> "tag", s |-> Tail(b)]
    ELSE IF HasPrefix(lb, KwData) THEN [k |-> "data", s |-> SubSeq(b, 6, Len(b))]
    ELSE IF HasPrefix(lb, KwSave) THEN [k |-> "save", s |-> SubSeq(b, 6, Len(b))]
    ELSE IF lb = KwLoop THEN [k |-> "loop", s |-> <<>>]
    ELSE IF lb = KwStop THEN [k |-> "stop", s |-> <<>>]
    ELSE IF lb = KwGlobal THEN [k |-> "global", s |-> <<>>]
    ELSE [k |-> "val", s |-> b]

EmitUq(st) ==
    LET tok == UqToken(st.b)
        st1 == [st EXCEPT !.t = Append(st.t, tok), !.b = <<>>]
    IN IF tok.k \in {"tag", "data"} /\ tok.s = <<>> THEN Err(st1, "empty_tag_or_block_name")
       ELSE st1

EmitVal(st) == [st EXCEPT !.t = Append(st.t, [k |-> "val", s |-> st.b]), !.b = <<>>]

AfterBlank(st, c) == [st EXCEPT !.m = "ws", !.bol = (c = LF)]

StepLegal(st, c) ==
    CASE st.m = "ws" ->
           IF c = LF THEN [st EXCEPT !.bol = TRUE]
           ELSE IF c \in {SP, HT} THEN [st EXCEPT !.bol = FALSE]
           ELSE IF c = HASH THEN [st EXCEPT !.m = "com", !.bol = FALSE]
           ELSE IF c = SEMI /\ st.bol THEN [st EXCEPT !.m = "tf", !.b = <<>>, !.bol = FALSE]
           ELSE IF c = SQ THEN [st EXCEPT !.m = "sq", !.b = <<>>, !.bol = FALSE]
           ELSE IF c = DQ THEN [st EXCEPT !.m = "dq", !.b = <<>>, !.bol = FALSE]
           ELSE IF c \in {DOLLAR, LBR, RBR}
                THEN Err([st EXCEPT !.m = "uq", !.b = <<c>>, !.bol = FALSE], "reserved_opener")
           ELSE [st EXCEPT !.m = "uq", !.b = <<c>>, !.bol = FALSE]
      [] st.m = "com" -> IF c = LF THEN AfterBlank(st, c) ELSE st
      [] st.m = "uq"  -> IF IsBlank(c) THEN AfterBlank(EmitUq(st), c)
                         ELSE [st EXCEPT !.b = Append(st.b, c)]
      [] st.m \in {"sq", "dq"} ->
           LET q == IF st.m = "sq" THEN SQ ELSE DQ IN
           IF c = q THEN [st EXCEPT !.m = IF st.m = "sq" THEN "sqe" ELSE "dqe"]
           ELSE IF c = LF THEN Err(AfterBlank(EmitVal(st), c), "eol_in_quoted_string")
           ELSE [st EXCEPT !.b = Append(st.b, c)]
      [] st.m \in {"sqe", "dqe"} ->
           LET q == IF st.m = "sqe" THEN SQ ELSE DQ IN
           IF IsBlank(c) THEN AfterBlank(EmitVal(st), c)
           ELSE IF c = q THEN [st EXCEPT !.b = Append(st.b, q)]     \* previous q was content
           ELSE [st EXCEPT !.m = IF st.m = "sqe" THEN "sq" ELSE "dq",
                           !.b = Append(Append(st.b, q), c)]
      [] st.m = "tf"  -> IF c = LF THEN [st EXCEPT !.m = "tfl"]
                         ELSE [st EXCEPT !.b = Append(st.b, c)]
      [] st.m = "tfl" -> IF c = SEMI THEN [EmitVal(st) EXCEPT !.m = "tfe"]
                         ELSE IF c = LF THEN [st EXCEPT !.b = Append(st.b, LF)]
                         ELSE [st EXCEPT !.m = "tf", !.b = Append(Append(st.b, LF), c)]
      [] st.m = "tfe" -> IF IsBlank(c) THEN AfterBlank(st, c)
                         ELSE Err([st EXCEPT !.m = "uq", !.b = <<c>>],
                                  "text_field_terminator_not_followed_by_blank")

Step(st, c) ==
    IF c = CR THEN [StepLegal(st, LF) EXCEPT !.cr = TRUE]            \* a line terminator like LF
    ELSE IF c = LF /\ st.cr THEN [st EXCEPT !.cr = FALSE]             \* the LF of a CR LF pair
    ELSE IF IsLegal(c) THEN [StepLegal(st, c) EXCEPT !.cr = FALSE]
    ELSE IF c > 126 THEN Err([st EXCEPT !.cr = FALSE], "non_ascii_character")
    ELSE Err([st EXCEPT !.cr = FALSE], "control_character")

Finish(st) ==
    CASE st.m = "uq" -> EmitUq(st)
      [] st.m \in {"sqe", "dqe"} -> EmitVal(st)
      [] st.m \in {"sq", "dq"} -> Err(EmitVal(st), "unterminated_quoted_string")
      [] st.m \in {"tf", "tfl"} -> Err(EmitVal(st), "unterminated_text_field")
      [] OTHER -> st

Lex(text) == LET st == Finish(FoldLeft(Step, L0, text)) IN [t |-> st.t, e |-> st.e]

-----------------------------------------------------------------------------
(* Reference quoting: for every string that CIF 1.1 can carry there is a way to write  *)
(* it.  Representable = printable ASCII + HT + LF + CR and no line end immediately     *)
(* followed by ';'.  SafeQuote(v) = [txt |-> characters, own |-> must start in column 1].          *)
(* CR LF and bare CR read as LF: what a value is "up to the spelling of its line ends" *)
(* (not recursive: the judge applies it to values of several hundred characters) *)
NormalizeBreaks(c) ==
    LET idx  == [i \in 1..Len(c) |-> i]
        kept == SelectSeq(idx, LAMBDA i : ~(c[i] = LF /\ i > 1 /\ c[i - 1] = CR))    \* the LF of a CR LF pair goes
    IN [k \in 1..Len(kept) |-> IF c[kept[k]] = CR THEN LF ELSE c[kept[k]]]
Representable(v) == (\A i \in 1..Len(v) : IsLegal(v[i]) \/ v[i] = CR) /\ ~HasLfSemi(NormalizeBreaks(v))

StartsReserved(v) ==
    LET lv == LowerSeq(v) IN
    \/ HasPrefix(lv, KwData) \/ HasPrefix(lv, KwSave) \/ HasPrefix(lv, KwLoop)
    \/ HasPrefix(lv, KwStop) \/ HasPrefix(lv, KwGlobal)

CanBeUnquoted(v) ==
    /\ Len(v) > 0
    /\ \A i \in 1..Len(v) : IsNonBlank(v[i])
    /\ IsOrdinary(v[1])
    /\ ~StartsReserved(v)

(* q followed by a blank inside v would close a q-quoted string early *)
QuoteThenBlank(v, q) == \E i \in 1..(Len(v) - 1) : v[i] = q /\ IsBlank(v[i+1])

SafeQuote(v) ==
    IF HasChar(v, LF) \/ HasChar(v, CR) THEN [txt |-> <<SEMI>> \o v \o <<LF, SEMI>>, own |-> TRUE]
    ELSE IF CanBeUnquoted(v) THEN [txt |-> v, own |-> FALSE]
    ELSE IF ~QuoteThenBlank(v, SQ) THEN [txt |-> <<SQ>> \o v \o <<SQ>>, own |-> FALSE]
    ELSE IF ~QuoteThenBlank(v, DQ) THEN [txt |-> <<DQ>> \o v \o <<DQ>>, own |-> FALSE]
    ELSE [txt |-> <<SEMI>> \o v \o <<LF, SEMI>>, own |-> TRUE]

(* The quoting rule of a writer that only looks for blanks and quote characters        *)
(* (negative control: TLC must find strings for which it is wrong).                     *)
NaiveQuote(v) ==
    IF HasChar(v, LF) \/ HasChar(v, CR) THEN [txt |-> <<SEMI, SP>> \o v \o <<LF, SEMI>>, own |-> TRUE]
    ELSE IF HasChar(v, SQ) /\ HasChar(v, DQ)
         THEN [txt |-> <<SEMI, SP>> \o v \o <<LF, SEMI>>, own |-> TRUE]
    ELSE IF HasChar(v, SQ) THEN [txt |-> <<DQ>> \o v \o <<DQ>>, own |-> FALSE]
    ELSE IF HasChar(v, DQ) \/ HasChar(v, SP) \/ v = <<>>
         THEN [txt |-> <<SQ>> \o v \o <<SQ>>, own |-> FALSE]
    ELSE [txt |-> v, own |-> FALSE]

(* Comment block as a writer produces it: "# " before every line of the comment text.  *)
(* Lines = pieces between LFs; a final LF does not start another line; "" has none.    *)
RECURSIVE CommentLines(_)
CommentLines(c) ==
    IF c = <<>> THEN <<>>
    ELSE LET lfs == { i \in 1..Len(c) : c[i] = LF } IN
         IF lfs = {} THEN <<HASH, SP>> \o c \o <<LF>>
         ELSE LET i == CHOOSE k \in lfs : \A j \in lfs : k <= j
              IN <<HASH, SP>> \o SubSeq(c, 1, i - 1) \o <<LF>> \o CommentLines(SubSeq(c, i + 1, Len(c)))

(* the same for comment text whose lines end in CR LF or in a bare CR *)
CommentLinesAnyBreak(c) == CommentLines(NormalizeBreaks(c))

TagT == <<US, 116>>   \* _t
TagU == <<US, 117>>   \* _u
ValZ == <<122>>       \* z
=============================================================================
