CONSTANTS
  SrcBox <- C1
  DetBox <- C1
  Scales = {2, 3}
  Exps = {20, 40}
  Ks = {1, 3}
