"""Growth module: time_at_sample_from_tof (spec/conv/Growth_TimeAtSample.tla), hosted by C05.

TLC checks on every flight of the model that the kernel formula t_pulse + tof - L2 lambda m_n / h is
the moment the neutron passed the sample (= t_pulse + tof L1 / (L1 + L2)) and rejects two wrong
variants; it prints every flight with the exact rational answer in natural units (h = m_n = 1).  Each
flight is replayed into the real kernel in physical units (tof and pulse time in s / ms / us / ns,
L2 in m / mm, wavelength in angstrom / nm, float64 and float32): the result must equal the formula
evaluated exactly on the floats handed over (mpmath) to 1e-11 of the magnitudes involved (1e-5 for
float32), carry the unit of the pulse time and agree with the specification's rational answer.
Deviations are GROWTH-FINDINGs (beyond C05).
"""
from __future__ import annotations

from fractions import Fraction

import numpy as np
import scipp as sc

from .core import MachineryError
from .refmap import H, LENGTH, MN, TIME, mpf
from .tlc import require_ok


def run(ctx):
    from scippneutron.conversion.tof import time_at_sample_from_tof

    res = ctx.tlc('conv/Growth_MC_TimeAtSample.tla', 'Growth_MC_TimeAtSample.cfg', workers=1, timeout=300)
    require_ok(ctx, res, 'TimeAtSample model')
    for b in ('l1', 'plus'):
        ctx.tlc('conv/Growth_MC_TimeAtSample.tla', f'Growth_Neg_TimeAtSample_{b}.cfg', workers=1,
                expect_error=True, timeout=300)
    flights = res.tagged('FLIGHT')
    if len(flights) < 100:
        raise MachineryError(f'only {len(flights)} flights exported')
    rng = ctx.rng
    tunits, lunits, wunits = ('s', 'ms', 'us', 'ns'), ('m', 'mm'), ('angstrom', 'nm')
    nviol = 0
    for i, (_, tp, l1, l2, v, tof, lam, ans) in enumerate(flights):
        if not ctx.thorough and i % 3:
            continue
        d0 = Fraction(rng.choice([1, 2, 10, 25]), rng.choice([1, 4]))          # metres per model length
        lam0 = Fraction(rng.choice([1, 2, 5]), rng.choice([1, 2, 8]))          # angstrom per model wavelength
        tau = d0 * lam0 * LENGTH['angstrom'] * MN / H                          # seconds per model time
        tu, lu, wu = rng.choice(tunits), rng.choice(lunits), rng.choice(wunits)
        dt = 'float32' if i % 5 == 4 else 'float64'
        f = (lambda x: float(np.float32(x))) if dt == 'float32' else float
        pulse_f = f(Fraction(tp) * tau / TIME[tu])
        tof_f = f(Fraction(*tof) * tau / TIME[tu])
        l2_f = f(Fraction(l2) * d0 / LENGTH[lu])
        lam_f = f(Fraction(*lam) * lam0 * LENGTH['angstrom'] / LENGTH[wu])
        args = dict(pulse_time=sc.scalar(pulse_f, unit=tu, dtype=dt), tof=sc.array(dims=['e'], values=[tof_f], unit=tu, dtype=dt),
                    L2=sc.scalar(l2_f, unit=lu, dtype=dt), wavelength=sc.array(dims=['e'], values=[lam_f], unit=wu, dtype=dt))
        ctx.case(nontrivial_id=('tas', i))
        try:
            out = time_at_sample_from_tof(**args)
        except Exception as e:  # noqa: BLE001
            where = 'the wavelength is not given in angstrom' if wu != 'angstrom' else 'the wavelength is given in angstrom'
            ctx.growth_finding(f'time_at_sample_from_tof raised {type(e).__name__} for float operands when {where}',
                               {'exc': repr(e), 'units': [tu, lu, wu]})
            continue
        leg = Fraction(l2_f) * LENGTH[lu] * Fraction(lam_f) * LENGTH[wu] * MN / H        # seconds
        want_s = Fraction(pulse_f) * TIME[tu] + Fraction(tof_f) * TIME[tu] - leg
        mag = abs(Fraction(pulse_f) * TIME[tu]) + abs(Fraction(tof_f) * TIME[tu]) + abs(leg)
        tol = (Fraction(1, 10**5) if dt == 'float32' else Fraction(1, 10**11)) * mag
        if out.unit != sc.Unit(tu):
            ctx.growth_finding('time_at_sample_from_tof: result is not in the unit of the pulse time', {'unit': str(out.unit)})
            continue
        got_s = Fraction(float(out.values[0])) * TIME[tu]
        if abs(got_s - want_s) > tol:
            nviol += 1
            ctx.growth_finding(f'time_at_sample_from_tof differs from t_pulse + tof - L2 lambda m_n / h ({dt})',
                               {'got_s': float(got_s), 'want_s': float(want_s), 'units': [tu, lu, wu]})
        # and the formula on the rounded inputs is the specification's answer up to input rounding
        spec_s = Fraction(*ans) * tau
        if abs(want_s - spec_s) > (Fraction(1, 10**5) if dt == 'float32' else Fraction(1, 10**13)) * mag * 8:
            raise MachineryError('oracle of time_at_sample disagrees with the specification')
    ctx.extra['time_at_sample_flights_replayed'] = len(flights) if ctx.thorough else (len(flights) + 2) // 3
    ctx.sample({'time_at_sample_flight': [str(x) for x in flights[0][1:]]})
