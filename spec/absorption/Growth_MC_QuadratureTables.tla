-------------------- MODULE Growth_MC_QuadratureTables --------------------
(* bounds for Growth_QuadratureTables (tuples cannot be written in a cfg) *)
EXTENDS Growth_QuadratureTables

MC_GensQuick == {<<0, 0>>, <<1, 0>>, <<1, 2>>}
MC_GensThorough == {<<0, 0>>, <<1, 0>>, <<1, 1>>, <<1, 2>>, <<-1, 2>>}
MC_GroupsQuick == {"C2", "D2", "C6h"}
MC_GroupsThorough == GroupNames
===========================================================================
