SPECIFICATION Spec
CONSTANTS
  NX = 1
  NY = 1
  NDim = 2
  Bug = "unsorted"
  ClickX <- MC_GeoX
  ClickY <- MC_GeoY
  DragD <- MC_GeoDrag
  MaxShapes = 2
  Names <- MC_GeoNames
  Sim = FALSE
  SimLen = 0
INVARIANT TypeOK
INVARIANT AtMostOneActive
INVARIANT OnlyAllowedKinds
INVARIANT PendingNeedsTool
INVARIANT Coherent
INVARIANT MaskIsClosedBox
INVARIANT CornerOrderIrrelevant
INVARIANT OnPointIsMasked
INVARIANT DocWellFormed
INVARIANT SaveEnabledIffName
INVARIANT SavedFileWellFormed
PROPERTY ToggleKeepsMasks
PROPERTY ActivationIsExclusive
PROPERTY RemoveKeepsTheRest
PROPERTY EditsAreLocal
PROPERTY MasksFollowShapes
PROPERTY GrowthOnlyBySecondClick
CHECK_DEADLOCK FALSE
