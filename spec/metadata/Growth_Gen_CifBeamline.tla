----------------------- MODULE Growth_Gen_CifBeamline -----------------------
(* spec -> code: the complete decision table (facility class x Source) with the set of      *)
(* allowed outcomes and the reference outcome, for replay into CIF.with_beamline.            *)
EXTENDS Growth_CifBeamlineDefs, TLC, Json, IOUtils, SequencesExt

Rows == {[fc |-> fc, given |-> s.given, type |-> s.type, probe |-> s.probe,
          allowed |-> SetToSeq(Allowed(fc, s)), reference |-> Reference(fc, s)] :
            fc \in FacilityClasses, s \in Sources}
ASSUME ndJsonSerialize(IOEnv.TABLE_FILE, SetToSeq(Rows))
ASSUME PrintT(<<"GEN", Cardinality(Rows)>>)

VARIABLE x
Init == x = 0
Next == x' = x
=============================================================================
