SPECIFICATION Spec
CONSTANTS
  Universe <- MC_UniverseSmall
  MaxHist = 2
  Bug = "cache_casefold"
INVARIANT SameAsDeclarative
INVARIANT NeverAnotherRow
INVARIANT MassOnlyForIsotopes
INVARIANT CacheFaithful
CHECK_DEADLOCK FALSE
