------------------------------ MODULE Cylinder ------------------------------
(* The solid cylinder of scippneutron.absorption as a state machine.                          *)
(*                                                                                            *)
(* State: a description `cyl` of the solid, a probe point `pt`, and (after Shoot) a ray.       *)
(* Actions = the operations the property quantifies over:                                      *)
(*   Rotate(q), Translate(tau)  move sample and probe point together rigidly                  *)
(*   OtherEnd                   re-describe the same solid from its other end                 *)
(*   Shoot(s, n)                send a ray through the (unmoved) solid                        *)
(* Properties (one INVARIANT each):                                                           *)
(*   FrameOK            the frame stays a proper rational rotation, the axis a unit vector    *)
(*   InsideInvariant    Inside(g.cyl, g.pt) <=> Inside(cyl, pt) for every rigid motion g and   *)
(*                      Inside(OtherEnd(cyl), pt) <=> Inside(cyl, pt)                         *)
(*   ChordSandwich      the closed-form chord interval agrees with pointwise membership of the *)
(*                      sampled points s + (j/K) n, j = 0..J  (inner/outer integer bounds of   *)
(*                      irrational roots; equality where the discriminant is a perfect square) *)
(*   LengthIsMeasure    PathLength = length of {t >= 0 : Inside(s + t n)}: it differs from the *)
(*                      number of sampled points inside, divided by K, by less than 1/K        *)
(*   ClassOK            the ray classes are consistent with the length being zero / positive   *)
EXTENDS CylinderDefs, TLC

CONSTANTS AxisQuats,   \* quaternions whose rotation takes e_z to the initial axis
          Bases,       \* initial base points (vectors)
          Radii, Heights,
          Points,      \* probe points (vectors)
          CubeQuats,   \* rotations with integer matrices
          SkewQuats,   \* rotations with fractional matrices (at most one per behaviour)
          Shifts,      \* translations (vectors)
          MaxMoves,
          Starts, Dirs,\* ray starts (vectors) and unit directions
          K, J,        \* sampling of the ray parameter: t = j/K, j = 0..J
          Bug          \* "none" | "otherend_keeps_axis" | "noclip"  (negative controls)

VARIABLES cyl, pt, ins0, ray, moves, skew
vars == <<cyl, pt, ins0, ray, moves, skew>>

NoRay == [s |-> <<0, 0, 0, 1>>, n |-> <<0, 0, 0, 1>>]
HasRay == IsUnit(ray.n)
Origin == <<0, 0, 0, 1>>

Init == /\ \E q \in AxisQuats, b \in Bases, r \in Radii, h \in Heights : cyl = MkCyl(q, b, r, h)
        /\ pt \in Points
        /\ ins0 = Inside(cyl, pt)
        /\ ray = NoRay
        /\ moves = 0
        /\ skew = 0

Rotate(q, isSkew) ==
    /\ ~HasRay /\ moves < MaxMoves
    /\ (isSkew => skew = 0)
    /\ cyl' = MoveCyl(q, Origin, cyl)
    /\ pt' = MovePt(q, Origin, pt)
    /\ moves' = moves + 1
    /\ skew' = IF isSkew THEN 1 ELSE skew
    /\ UNCHANGED <<ins0, ray>>

Translate(tau) ==
    /\ ~HasRay /\ moves < MaxMoves
    /\ cyl' = MoveCyl(<<1, 0, 0, 0>>, tau, cyl)
    /\ pt' = MovePt(<<1, 0, 0, 0>>, tau, pt)
    /\ moves' = moves + 1
    /\ UNCHANGED <<ins0, ray, skew>>

OtherEnd ==
    /\ ~HasRay /\ moves < MaxMoves
    /\ cyl' = IF Bug = "otherend_keeps_axis"
              THEN [OtherEndCyl(cyl) EXCEPT !.m = cyl.m]
              ELSE OtherEndCyl(cyl)
    /\ moves' = moves + 1
    /\ UNCHANGED <<pt, ins0, ray, skew>>

Shoot(s, n) ==
    /\ ~HasRay /\ moves = 0
    /\ ray' = [s |-> s, n |-> n]
    /\ pt' = Origin
    /\ ins0' = Inside(cyl, Origin)
    /\ UNCHANGED <<cyl, moves, skew>>

Next == \/ \E q \in CubeQuats : Rotate(q, FALSE)
        \/ \E q \in SkewQuats : Rotate(q, TRUE)
        \/ \E tau \in Shifts : Translate(tau)
        \/ OtherEnd
        \/ \E s \in Starts, n \in Dirs : Shoot(s, n)

Spec == Init /\ [][Next]_vars

-----------------------------------------------------------------------------
FrameOK == /\ IsRotation(cyl.m, cyl.k)
           /\ cyl.b[4] > 0 /\ pt[4] > 0
           /\ Sq(cyl.m[1][3]) + Sq(cyl.m[2][3]) + Sq(cyl.m[3][3]) = Sq(cyl.k)

InsideInvariant == Inside(cyl, pt) = ins0

(* closed version of the hit interval (single touching points kept) *)
ClosedHit(sq) ==
    LET P == RayParts(cyl, ray)
        I == Inter(SlabIv(cyl, P), CylIv(cyl, P, sq))
    IN IF I.kind = "none" THEN None
       ELSE LET lo == RMax(I.lo, RZero) IN IF RLe(lo, I.hi) THEN Iv(lo, I.hi) ELSE None

ChordSandwich ==
    HasRay =>
      LET inner == InnerIv(cyl, ray)
          outer == ClosedHit(SqHi(cyl, ray))
      IN \A j \in 0..J :
           LET t == <<j, K>>
               ins == Inside(cyl, RayPoint(ray, j, K))
           IN /\ InIv(inner, t) => ins
              /\ ins => InIv(outer, t)

(* the length the specification reports (negative control "noclip": not clipped to t >= 0) *)
SpecLength ==
    IF Bug = "noclip"
    THEN LET P == RayParts(cyl, ray)
             I == Inter(SlabIv(cyl, P), CylIv(cyl, P, SqLo(cyl, ray)))
         IN IF I.kind = "iv" /\ RLt(I.lo, I.hi) THEN RSub(I.hi, I.lo) ELSE RZero
    ELSE PathLength(cyl, ray)

SampleCount == Cardinality({j \in 0..J : Inside(cyl, RayPoint(ray, j, K))})

(* a closed interval of length L contains between floor(L K) and floor(L K)+1 points j/K, as long *)
(* as the samples reach beyond its end; checked where the length is rational                      *)
LengthIsMeasure ==
    (HasRay /\ ExactCase(cyl, ray)) =>
      LET L == SpecLength
          cnt == SampleCount
          hit == InnerIv(cyl, ray)
          covered == hit.kind = "none" \/ RLt(hit.hi, <<J, K>>)
      IN covered =>
           /\ (cnt - 1) * L[2] <= L[1] * K           \* (cnt-1)/K <= L
           /\ L[1] * K < (cnt + 1) * L[2]            \* L < (cnt+1)/K

ClassOK ==
    HasRay =>
      LET cls == RayClass(cyl, ray)
      IN /\ cls \in RayClasses \cup {"undecided"}
         /\ (cls \in ZeroClasses /\ ExactCase(cyl, ray)) => PathLength(cyl, ray) = RZero
         /\ (cls \in {"from_inside", "from_outside", "parallel_hit"}) => RLt(RZero, LenOf(InnerIv(cyl, ray)))
         /\ (cls = "from_inside") => Inside(cyl, ray.s)
=============================================================================
