---------------------------- MODULE UnitsKernels ----------------------------
(* C07: a state machine over the unit x dtype grid of one kernel.  A state is a kernel with  *)
(* a unit and a dtype chosen for every operand; Reexpress changes the unit of one operand     *)
(* (the physical scenario P stays the same), Retype changes the dtype of one operand,        *)
(* Reshape (hardening round, enabled by WithShapes) hands a data operand over as a 0-d        *)
(* variable instead of an array or back: neither output unit nor precision class may change.  *)
EXTENDS UnitsKernelsDefs, TLC

CONSTANTS TimeUnits, LengthUnits, EnergyUnits, AngleUnits, AccelUnits, InvLengthUnits,
          DTypeSet, Kernels, Bug,
          WithShapes     \* BOOLEAN: explore the shapes of the data operands as well

VARIABLES k, U, D,
          Z              \* the data operands currently handed over as 0-d variables
vars == <<k, U, D, Z>>

UnitsOfFam(f) == CASE f = "time" -> TimeUnits [] f = "length" -> LengthUnits
                   [] f = "energy" -> EnergyUnits [] f = "angle" -> AngleUnits
                   [] f = "accel" -> AccelUnits [] f = "invlength" -> InvLengthUnits

CanonUnit(f) == CASE f = "time" -> "s" [] f = "length" -> "m" [] f = "energy" -> "J"
                  [] f = "angle" -> "rad" [] f = "accel" -> "m/s^2" [] f = "invlength" -> "1/m"

(* the physical scenario: one fixed magnitude per operand (any would do: it cancels) *)
P0(kk) == [a \in ArgSet(kk) |->
             CASE ArgFam[a] = "time" -> <<-3, 0, 0>> [] ArgFam[a] = "length" -> <<1, 0, 0>>
               [] ArgFam[a] = "energy" -> <<-22, 0, 0>> [] ArgFam[a] = "angle" -> Z3
               [] ArgFam[a] = "accel" -> <<1, 0, 0>> [] ArgFam[a] = "invlength" -> <<10, 0, 0>>]

Init == /\ k \in Kernels
        /\ U = [a \in ArgSet(k) |-> CanonUnit(ArgFam[a])]
        /\ D = [a \in ArgSet(k) |-> "float64"]
        /\ Z = {}

Reexpress(a, u) == /\ a \in ArgSet(k) /\ u \in UnitsOfFam(ArgFam[a]) /\ u # U[a]
                   /\ U' = [U EXCEPT ![a] = u] /\ UNCHANGED <<k, D, Z>>
Retype(a, d)    == /\ a \in ArgSet(k) /\ d \in DTypeSet /\ d # D[a]
                   /\ D' = [D EXCEPT ![a] = d] /\ UNCHANGED <<k, U, Z>>
Reshape(a)      == /\ WithShapes /\ a \in Kernel[k].data
                   /\ Z' = (IF a \in Z THEN Z \ {a} ELSE Z \cup {a})
                   /\ UNCHANGED <<k, U, D>>
AllUnits == TimeUnits \cup LengthUnits \cup EnergyUnits \cup AngleUnits \cup AccelUnits \cup InvLengthUnits
Next == \E a \in DOMAIN ArgFam : \/ \E u \in AllUnits : Reexpress(a, u)
                                 \/ \E d \in DTypeSet : Retype(a, d)
                                 \/ Reshape(a)
Spec == Init /\ [][Next]_vars

-----------------------------------------------------------------------------
Out == OutName(k, U, Bug)
Res == ResultDTypeZ(Kernel[k].data, D, Z, Bug)

TypeOK == /\ k \in KernelNames
          /\ \A a \in ArgSet(k) : UnitFam(U[a]) = ArgFam[a] /\ D[a] \in AllDTypes
          /\ Z \subseteq Kernel[k].data

(* the documented output unit has the dimension of every term of the documented formula;      *)
(* internal quantities have their required dimension; sin() only sees angles                   *)
DimensionOK ==
    /\ UnitFam(Out) # "unknown"
    /\ \A mono \in Kernel[k].terms : MonoDim(k, mono) = V4Scale(2, UnitDim(Out))
    /\ \A x \in Kernel[k].aux :
          MonoDim(k, x[1]) = IF x[2] = "one" THEN Z4 ELSE V4Scale(2, FamDim[x[2]])
    /\ \A a \in Kernel[k].trig : ArgFam[a] \in {"angle", "length"}

(* the recipe "convert the constant to out-unit / operand units, multiply the numbers" yields  *)
(* the unit-independent physical value, whatever units the operands are expressed in           *)
UnitEquivariance ==
    \A mono \in Kernel[k].terms :
        TermPhysical(k, mono, U, P0(k), Bug) = TermDefinition(k, mono, P0(k))

(* the output unit depends on the donor operand only *)
OutUnitRule ==
    Out = OutName(k, [a \in ArgSet(k) |-> IF a \in Donors(k) THEN U[a] ELSE CanonUnit(ArgFam[a])], Bug)
OutUnitStep == [][ \A a \in ArgSet(k) : (U'[a] # U[a] /\ a \notin Donors(k)) => Out' = Out ]_vars

(* precision rule: total; integer or double data operands force double; dtypes of other         *)
(* operands are irrelevant                                                                     *)
DTypeRule ==
    /\ Res \in {"float32", "float64"}
    /\ (\E a \in Kernel[k].data : D[a] # "float32") => Res = "float64"
    /\ Kernel[k].data = {} => Res = "float64"
    /\ (Kernel[k].data # {} /\ \A a \in Kernel[k].data : D[a] = "float32") => Res = "float32"
DTypeStep == [][ \A a \in ArgSet(k) : (D'[a] # D[a] /\ a \notin Kernel[k].data) => Res' = Res ]_vars
(* the shape of an operand changes neither the output unit nor the precision class *)
ShapeStep == [][ Z' # Z => (Out' = Out /\ Res' = Res) ]_vars
=============================================================================
