------------------------ MODULE Growth_NexusChopper ------------------------
(* GROWTH spec: NeXus group -> extract_chopper_from_nexus -> DiskChopper.from_nexus.         *)
(*                                                                                          *)
(* Layer (b), the PROCEDURE, as a state machine with one action per documented step:         *)
(*   Extract | UseAsIs          post-process the raw group, or hand it over unprocessed      *)
(*   CheckType                  only single choppers                                          *)
(*   LookupPosition             position is mandatory                                         *)
(*   GetScalar(f)               rotation_speed, beam_position, phase: present, a Variable,    *)
(*                              0-dimensional (time-dependent data is refused)                *)
(*   SplitEdges                 slit_edges -> begin/end (even/odd entries), or take           *)
(*                              slit_begin/slit_end; never both                               *)
(*   CheckFrequency             rotation_speed carries a frequency unit                       *)
(*   CheckEdges                 same length, begin <= end, no two slits share a point of the  *)
(*                              circle (sorted-neighbour procedure with wrap across TDC)      *)
(*   BroadcastHeight            scalar slit_height -> one entry per slit                      *)
(*   Reimport                   the dict of the finished chopper goes through from_nexus once *)
(*                              more (round trip)                                             *)
(* The order of the steps is ONE admissible order; the invariants tie the outcome to the     *)
(* order-free decision table of Growth_NexusChopperDefs (layer a) and to the physical disk.   *)
EXTENDS Growth_NexusChopperInputs, TLC

CONSTANT Bug     \* "none" | "halves" | "nowrap" | "conflict_ignored" | "height_unchecked"

VARIABLES raw,      \* the group given by the caller
          direct,   \* TRUE: handed to from_nexus without post-processing
          cur,      \* the group from_nexus works on
          pc, outcome,
          sb, se,   \* begin / end arrays after SplitEdges
          res,      \* the constructed chopper
          expect    \* Reimport: the chopper whose dict is being re-imported
vars == <<raw, direct, cur, pc, outcome, sb, se, res, expect>>

NoResult == [ n |-> -1, begin |-> <<>>, end |-> <<>>, height |-> [present |-> FALSE, vals |-> <<>>],
              radius |-> FALSE ]

Init == /\ raw \in Inputs
        /\ direct = FALSE
        /\ cur = raw /\ pc = "start" /\ outcome = "pending"
        /\ sb = <<>> /\ se = <<>> /\ res = NoResult /\ expect = NoResult

Refuse(cls) == outcome' = cls /\ pc' = "done" /\ UNCHANGED <<raw, direct, cur, sb, se, res, expect>>
Goto(next)  == pc' = next /\ UNCHANGED <<raw, direct, cur, outcome, sb, se, res, expect>>

Extract == /\ pc = "start"
           /\ cur' = ExtractGroup(raw) /\ pc' = "type"
           /\ UNCHANGED <<raw, direct, outcome, sb, se, res, expect>>
UseAsIs == /\ pc = "start"
           /\ direct' = TRUE /\ pc' = "type"
           /\ UNCHANGED <<raw, cur, outcome, sb, se, res, expect>>

CheckType == pc = "type" /\ IF SingleType(cur.type) THEN Goto("position") ELSE Refuse("NotImplementedError")

LookupPosition == pc = "position" /\ IF cur.position = "vector" THEN Goto("rotation_speed") ELSE Refuse("KeyError")

GetScalar(f, next) ==
    /\ pc = f
    /\ LET x == FormOf(cur, f) IN
       IF MissingForm(x) THEN Refuse("ValueError")
       ELSE IF x \in {"dataarray", "log1", "logN", "dlog1", "dlogN"} THEN Refuse("TypeError")
       ELSE IF x \in {"array1", "arrayN"} THEN Refuse("DimensionError")
       ELSE Goto(next)

(* every second entry, the way an array is sliced with a stride                              *)
RECURSIVE Stride2(_)
Stride2(s) == IF Len(s) <= 1 THEN s ELSE <<Head(s)>> \o Stride2(SubSeq(s, 3, Len(s)))
SplitBegin(s) == IF Bug = "halves" THEN SubSeq(s, 1, Len(s) \div 2) ELSE Stride2(s)
SplitEnd(s)   == IF Bug = "halves" THEN SubSeq(s, Len(s) \div 2 + 1, Len(s))
                 ELSE IF s = <<>> THEN <<>> ELSE Stride2(Tail(s))

SplitEdges ==
    /\ pc = "split"
    /\ IF "slit_edges" \in cur.keys
       THEN IF cur.keys # {"slit_edges"} /\ Bug # "conflict_ignored" THEN Refuse("ValueError")
            ELSE IF cur.shape # "1d" THEN Refuse("DimensionError")
            ELSE LET b == SplitBegin(cur.vals)  e == SplitEnd(cur.vals) IN
                 IF Len(b) # Len(e) THEN Refuse("DimensionError")
                 ELSE IF \E i \in 1..Len(b) : b[i] > e[i] THEN Refuse("ValueError")
                 ELSE /\ sb' = b /\ se' = e /\ pc' = "frequency"
                      /\ UNCHANGED <<raw, direct, cur, outcome, res, expect>>
       ELSE IF ~({"slit_begin", "slit_end"} \subseteq cur.keys) THEN Refuse("KeyError")
            ELSE /\ sb' = OddElems(cur.vals) /\ se' = EvenElems(cur.vals) /\ pc' = "frequency"
                 /\ UNCHANGED <<raw, direct, cur, outcome, res, expect>>

CheckFrequency == pc = "frequency" /\ IF cur.unit \in FreqUnits THEN Goto("edges") ELSE Refuse("UnitError")

CheckEdges ==
    /\ pc = "edges"
    /\ IF Len(sb) # Len(se) THEN Refuse("DimensionError")
       ELSE IF \E i \in 1..Len(sb) : sb[i] > se[i] THEN Refuse("ValueError")
       ELSE IF ~ProcValid([ i \in 1..Len(sb) |-> << sb[i], se[i] >> ], cur.K,
                          IF Bug = "nowrap" THEN "nowrap" ELSE "none")
            THEN Refuse("ValueError")
       ELSE Goto("height")

BroadcastHeight ==
    /\ pc = "height"
    /\ LET n == Len(sb)
           accept(h) == /\ res' = [ n |-> n, begin |-> sb, end |-> se, height |-> h,
                                    radius |-> cur.radius = "scalar" ]
                        /\ outcome' = "accepted" /\ pc' = "done"
                        /\ UNCHANGED <<raw, direct, cur, sb, se, expect>>
       IN  IF cur.height \in {"absent", "typo", "none"} THEN accept([present |-> FALSE, vals |-> <<>>])
           ELSE IF cur.height = "scalar" THEN accept([present |-> TRUE, vals |-> [ i \in 1..n |-> cur.hvals[1] ]])
           ELSE IF Bug = "height_unchecked" THEN accept([present |-> TRUE, vals |-> cur.hvals])
           ELSE IF cur.height = "other_dim" \/ Len(cur.hvals) # n THEN Refuse("DimensionError")
           ELSE accept([present |-> TRUE, vals |-> cur.hvals])

Reimport ==
    /\ pc = "done" /\ outcome = "accepted" /\ expect = NoResult
    /\ expect' = res
    /\ raw' = GroupOfResult(res, cur.K) /\ cur' = raw' /\ direct' = TRUE
    /\ pc' = "type" /\ outcome' = "pending" /\ sb' = <<>> /\ se' = <<>> /\ res' = NoResult

Next == \/ Extract \/ UseAsIs \/ CheckType \/ LookupPosition
        \/ GetScalar("rotation_speed", "beam_position") \/ GetScalar("beam_position", "phase")
        \/ GetScalar("phase", "split")
        \/ SplitEdges \/ CheckFrequency \/ CheckEdges \/ BroadcastHeight \/ Reimport

Spec == Init /\ [][Next]_vars

-----------------------------------------------------------------------------
Finished == pc = "done" /\ Specified(cur)
Accepted == Finished /\ outcome = "accepted"

(* accepted <=> no row of the decision table is broken; a refusal carries the class of a      *)
(* broken row                                                                                  *)
Admitted == Finished => IF Acceptable(cur) THEN outcome = "accepted"
                        ELSE outcome \in AllowedClasses(cur)

ResultIsDeclared == Accepted => res = ResultOf(cur)

(* n_slits = number of edge pairs; pairs keep their order and their partners                  *)
PairingInOrder ==
    Accepted => /\ res.n = NPairs(cur) /\ Len(res.begin) = res.n /\ Len(res.end) = res.n
                /\ \A i \in 1..res.n : /\ << res.begin[i], res.end[i] >> = PairsOf(cur)[i]
                                       /\ res.begin[i] < res.end[i]

(* the disk that was described is the disk that was built: same open cells, and the number   *)
(* of slits is the number of separate openings on the circle                                  *)
DiskPreserved ==
    Accepted => LET oc == OpenCellsOf(res.begin, res.end, cur.K) IN
                /\ oc = UNION { Cells(PairsOf(cur)[i], cur.K) : i \in 1..NPairs(cur) }
                /\ NumberOfArcs(oc, cur.K) = res.n

HeightPerSlit ==
    Accepted => IF cur.height \in {"absent", "typo", "none"} THEN ~res.height.present
                ELSE /\ res.height.present /\ Len(res.height.vals) = res.n
                     /\ \A i \in 1..res.n :
                           res.height.vals[i] = cur.hvals[IF cur.height = "scalar" THEN 1 ELSE i]

(* from_nexus of the dict of an accepted chopper reproduces the chopper                       *)
RoundTrip == (pc = "done" /\ expect # NoResult) => (outcome = "accepted" /\ res = expect)
RoundTripDeclared ==
    Accepted => LET g == GroupOfResult(res, cur.K) IN Acceptable(g) /\ ResultOf(g) = res

(* post-processing: idempotent, loses nothing, and never turns an acceptable group into a     *)
(* refused one or changes what is built from it                                               *)
ExtractIdempotent   == pc = "start" => ExtractGroup(ExtractGroup(raw)) = ExtractGroup(raw)
ExtractConservative ==
    (pc = "start" /\ Specified(raw) /\ Acceptable(raw)) =>
        (Acceptable(ExtractGroup(raw)) /\ ResultOf(ExtractGroup(raw)) = ResultOf(raw))
ExtractKeepsSlits   == pc = "start" => LET p == ExtractGroup(raw) IN
                       /\ p.keys = raw.keys /\ p.vals = raw.vals /\ p.shape = raw.shape
                       /\ p.height = raw.height /\ p.hvals = raw.hvals /\ p.radius = raw.radius
                       /\ p.position = raw.position /\ p.unit = raw.unit /\ p.extra = raw.extra
(* after post-processing no NXlog is left in the fields from_nexus reads, and the type is set *)
ExtractedLayout     == pc = "start" => LET p == ExtractGroup(raw) IN
                       /\ p.type # "absent" /\ p.tdc # "log_time_only"
                       /\ \A f \in ScalarFields : FormOf(p, f) \notin {"log1", "logN", "dlog1", "dlogN"}

TypeOK == /\ pc \in {"start", "type", "position", "rotation_speed", "beam_position", "phase", "split",
                      "frequency", "edges", "height", "done"}
          /\ outcome \in {"pending", "accepted", "NotImplementedError", "KeyError", "ValueError", "TypeError",
                           "DimensionError", "UnitError"}
          /\ (pc = "done") = (outcome # "pending")
=============================================================================
