----------------------------- MODULE CifObjects -----------------------------
(* The object semantics of CifObjDefs explored exhaustively for short programs over a     *)
(* small universe (awkward values, 2 chunks, 1 loop, 3 blocks): after every operation      *)
(* every block's document is written by the reference writer and read back, and an "add"   *)
(* changes the document of exactly the block it was applied to (a copy is independent of   *)
(* its original).  Negative control Bug = "copylist": copies share the content list.       *)
EXTENDS CifObjDefs

CONSTANTS MaxOps, Vals, Bug

VARIABLE ops
vars == <<ops>>

S == FoldLeft(LAMBDA T, o : ObjStepM(T, o, Bug), O0, ops)

TagN(k) == <<116>> \o Digits(k)                         \* t<k>: a fresh data name per operation
Fresh == Len(ops) * 3 + 1
PairOf(k, v) == [tag |-> TagN(k), cell |-> SCell(v)]

Do(o) == /\ Len(ops) < MaxOps
         /\ ops' = Append(ops, o)

NewChunk == \E v \in Vals, n \in 0..2 :
              /\ Len(S.chunks) < 2
              /\ Do([op |-> "chunk", pairs |-> [q \in 1..n |-> PairOf(Fresh + q - 1, v)]])
SetPair  == \E c \in 1..Len(S.chunks), v \in Vals : Do([op |-> "set", c |-> c, tag |-> TagN(Fresh), cell |-> SCell(v)])
NewLoop  == \E v \in Vals :
              /\ Len(S.loops) < 1
              /\ Do([op |-> "loop", cols |-> << [tag |-> TagN(Fresh), cells |-> <<SCell(v), SCell(<<97>>)>>] >>])
AddCol   == \E l \in 1..Len(S.loops), v \in Vals :
              Do([op |-> "col", l |-> l, tag |-> TagN(Fresh), cells |-> <<SCell(<<98>>), SCell(v)>>])
NewBlock == \E all \in BOOLEAN :
              /\ Len(S.blocks) < 2
              /\ Do([op |-> "block", name |-> <<98>> \o Digits(Len(S.blocks) + 1),
                     content |-> IF all THEN [i \in 1..Len(S.chunks) |-> [k |-> "c", i |-> i]]
                                             \o [i \in 1..Len(S.loops) |-> [k |-> "l", i |-> i]]
                                 ELSE <<>>])
AddRef   == \E b \in 1..Len(S.blocks) :
              \/ \E i \in 1..Len(S.chunks) : Do([op |-> "add", b |-> b, k |-> "c", i |-> i])
              \/ \E i \in 1..Len(S.loops)  : Do([op |-> "add", b |-> b, k |-> "l", i |-> i])
              \/ \E v \in Vals : Do([op |-> "adddict", b |-> b, pairs |-> <<PairOf(Fresh, v)>>])
CopyBlk  == \E b \in 1..Len(S.blocks) : Len(S.blocks) < 3 /\ Do([op |-> "copy", b |-> b])

Init == ops = <<>>
Next == NewChunk \/ SetPair \/ NewLoop \/ AddCol \/ NewBlock \/ AddRef \/ CopyBlk
Spec == Init /\ [][Next]_vars

-----------------------------------------------------------------------------
AsStrings(doc) ==     \* cells -> the strings themselves
    [name |-> doc.name,
     items |-> [j \in 1..Len(doc.items) |->
                  [k |-> doc.items[j].k, tags |-> doc.items[j].tags,
                   vals |-> [c \in 1..Len(doc.items[j].vals) |-> doc.items[j].vals[c].s]]]]

EveryBlockReadsBack ==
    \A b \in 1..Len(S.blocks) :
       LET d == BlockDoc(S, b) IN
       DocVerdict(<<d>>, Read(WriteDoc(<<AsStrings(d)>>))) = <<"ok", 0, 0, 0>>

(* the state after the step, computed from ops' *)
SNext == FoldLeft(LAMBDA T, o : ObjStepM(T, o, Bug), O0, ops')
AddChangesOneBlock ==
    [][LET o == ops'[Len(ops')] IN
       o.op \in {"add", "adddict"} =>
         \A b \in 1..Len(S.blocks) : b # o.b => BlockDoc(SNext, b) = BlockDoc(S, b)]_vars
(* a pair set on a chunk appears in exactly the blocks that refer to that chunk *)
SetReachesReferrers ==
    [][LET o == ops'[Len(ops')] IN
       o.op = "set" =>
         \A b \in 1..Len(S.blocks) :
            (BlockDoc(SNext, b) # BlockDoc(S, b)) <=> (\E j \in 1..Len(S.lists[S.blocks[b].list]) :
                                                          S.lists[S.blocks[b].list][j] = [k |-> "c", i |-> o.c])]_vars
TypeOK == Len(ops) <= MaxOps
=============================================================================
