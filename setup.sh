#!/bin/sh
# Offline setup: vendor mpmath for the refinement mapping, syntax-check every TLA+ module.
set -e
cd "$(dirname "$0")"
if [ ! -d .pydeps/mpmath ]; then
  /venv/bin/pip install -q --no-index --find-links /opt/veriftools/wheels --target .pydeps mpmath
fi
mkdir -p evidence replays
fail=0
for f in spec/*/*.tla; do
  [ -e "$f" ] || continue
  case "$f" in *_TTrace_*) continue;; esac
  d=$(dirname "$f")
  if ! (cd "$d" && tla-sany "$(basename "$f")" >/tmp/sany.$$ 2>&1); then
    echo "SANY failed: $f"; cat /tmp/sany.$$; fail=1
  fi
done
rm -f /tmp/sany.$$
exit $fail
