--------------------------- MODULE AtomTablesDefs ---------------------------
(* State-free definitions for the bundled nuclear data of scippneutron.atoms.                 *)
(*                                                                                            *)
(* The three tables are constants read by TLC itself from a JSON export of the repository's    *)
(* CSV files (env TABLES_FILE; regenerated on every run by harness/lib_atoms.py with Python's  *)
(* csv module, independently of scippneutron's own parser; the CommunityModules CSVRead        *)
(* operator cannot read these files: it drops trailing empty fields and cannot skip the         *)
(* comment line).  All values stay TEXT; names come with their code points:                    *)
(*   Tab.scat[i]    = [name, cp, f]   f = 16 texts: 8 quantities x (value, uncertainty)          *)
(*   Tab.weights[i] = [name, cp, f]   f = <<Z, weight, uncertainty>>                             *)
(*   Tab.masses[i]  = [name, cp, f]   f = <<mass, uncertainty>>                                  *)
(*   Tab.headers    = code points of the header words of the files                              *)
(*                                                                                            *)
(* Declarative meaning of a lookup (the property):                                             *)
(*   ScatteringParams(n) = the row of Tab.scat whose first column is exactly n, else Reject     *)
(*   Atom(n)             = n an element symbol of Tab.weights: that row, no mass;                *)
(*                         n an isotope name of Tab.masses (mass number + element symbol): the   *)
(*                         row of its element for Z and weight, and its own row for the mass;    *)
(*                         anything else: Reject.                                                *)
(* The implementation-shaped counterpart (linear scan for an exact match, element = the run of  *)
(* letters after optional leading digits, memoisation) lives in AtomTables.tla.                 *)
EXTENDS Integers, Sequences, FiniteSets, Json, IOUtils

Tab == JsonDeserialize(IOEnv.TABLES_FILE)

NScat == Len(Tab.scat)
NWeights == Len(Tab.weights)
NMasses == Len(Tab.masses)
ScatNames == { Tab.scat[i].cp : i \in 1..NScat }
WeightNames == { Tab.weights[i].cp : i \in 1..NWeights }
MassNames == { Tab.masses[i].cp : i \in 1..NMasses }

-----------------------------------------------------------------------------
(* characters *)
IsDigit(c) == c \in 48..57
IsUpper(c) == c \in 65..90
IsLower(c) == c \in 97..122
IsLetter(c) == IsUpper(c) \/ IsLower(c)
Toggle(c) == IF IsUpper(c) THEN c + 32 ELSE IF IsLower(c) THEN c - 32 ELSE c
AsSeq(f) == SubSeq(f, 1, Len(f))                 \* a function on 1..n as a proper sequence value
UpperOf(n) == AsSeq([i \in 1..Len(n) |-> IF IsLower(n[i]) THEN n[i] - 32 ELSE n[i]])
LowerOf(n) == AsSeq([i \in 1..Len(n) |-> IF IsUpper(n[i]) THEN n[i] + 32 ELSE n[i]])
SwapOf(n) == AsSeq([i \in 1..Len(n) |-> Toggle(n[i])])

(* number of leading digits *)
RECURSIVE LeadDigits(_, _)
LeadDigits(n, i) == IF i <= Len(n) /\ IsDigit(n[i]) THEN LeadDigits(n, i + 1) ELSE i - 1
(* an isotope name is <mass number><element symbol>; its element is what follows the digits *)
ElementOf(n) == SubSeq(n, LeadDigits(n, 1) + 1, Len(n))
IsElementSyntax(n) == Len(n) \in 1..2 /\ IsUpper(n[1]) /\ \A i \in 2..Len(n) : IsLower(n[i])
IsIsotopeSyntax(n) == LeadDigits(n, 1) \in 1..3 /\ n[1] # 48 /\ IsElementSyntax(ElementOf(n))

-----------------------------------------------------------------------------
(* the periodic table, independent of the files: Z of a symbol is its position *)
PeriodicTable == <<
  "H","He","Li","Be","B","C","N","O","F","Ne","Na","Mg","Al","Si","P","S","Cl","Ar","K","Ca",
  "Sc","Ti","V","Cr","Mn","Fe","Co","Ni","Cu","Zn","Ga","Ge","As","Se","Br","Kr","Rb","Sr","Y","Zr",
  "Nb","Mo","Tc","Ru","Rh","Pd","Ag","Cd","In","Sn","Sb","Te","I","Xe","Cs","Ba","La","Ce","Pr","Nd",
  "Pm","Sm","Eu","Gd","Tb","Dy","Ho","Er","Tm","Yb","Lu","Hf","Ta","W","Re","Os","Ir","Pt","Au","Hg",
  "Tl","Pb","Bi","Po","At","Rn","Fr","Ra","Ac","Th","Pa","U","Np","Pu","Am","Cm","Bk","Cf","Es","Fm",
  "Md","No","Lr","Rf","Db","Sg","Bh","Hs","Mt","Ds","Rg","Cn","Nh","Fl","Mc","Lv","Ts","Og" >>
ZOfSymbol(name) == CHOOSE z \in 1..Len(PeriodicTable) : PeriodicTable[z] = name

-----------------------------------------------------------------------------
(* declarative lookups.  A result is [kind |-> "reject"] or                                     *)
(*   [kind |-> "scat", row |-> i]                   i indexes Tab.scat                          *)
(*   [kind |-> "atom", w |-> i, m |-> j]            i indexes Tab.weights, j Tab.masses or 0     *)
Reject == [kind |-> "reject"]
IdxIn(tbl, n) == CHOOSE i \in 1..Len(tbl) : tbl[i].cp = n

DeclScat(n) == IF n \in ScatNames THEN [kind |-> "scat", row |-> IdxIn(Tab.scat, n)] ELSE Reject
DeclAtom(n) ==
    IF n \in WeightNames THEN [kind |-> "atom", w |-> IdxIn(Tab.weights, n), m |-> 0]
    ELSE IF n \in MassNames /\ ElementOf(n) \in WeightNames
         THEN [kind |-> "atom", w |-> IdxIn(Tab.weights, ElementOf(n)), m |-> IdxIn(Tab.masses, n)]
    ELSE Reject

(* outcome classes without row indices (cheap: set membership only) *)
ScatOutcome(n) == IF n \in ScatNames THEN "row" ELSE "reject"
AtomOutcome(n) == IF n \in WeightNames THEN "element"
                  ELSE IF n \in MassNames /\ ElementOf(n) \in WeightNames THEN "isotope"
                  ELSE "reject"

(* blank pattern of a row: TRUE where the table has a value *)
Present(f) == [i \in 1..Len(f) |-> f[i] # ""]

-----------------------------------------------------------------------------
(* near-miss names of n: proper prefixes and suffixes, one character added in front or behind,   *)
(* case changes, a blank inserted, header words *)
ExtraChars == {32, 9, 10, 48, 49, 57, 72, 101, 120, 44, 46, 45}     \* space tab LF 0 1 9 H e x , . -
NearMisses(n) ==
    ( { SubSeq(n, 1, k) : k \in 0..(Len(n) - 1) }
      \cup { SubSeq(n, k, Len(n)) : k \in 2..Len(n) }
      \cup { n \o <<c>> : c \in ExtraChars } \cup { <<c>> \o n : c \in ExtraChars }
      \cup { UpperOf(n), LowerOf(n), SwapOf(n) }
      \cup { [n EXCEPT ![i] = Toggle(n[i])] : i \in 1..Len(n) }
      \cup { SubSeq(n, 1, k) \o <<32>> \o SubSeq(n, k + 1, Len(n)) : k \in 1..(Len(n) - 1) }
      \cup { Tab.headers[i] : i \in 1..Len(Tab.headers) } ) \ {n}

(* other ways in which people write the isotope n = <mass number><symbol>: symbol first ("He3"),    *)
(* with a hyphen or underscore ("He-3", "3-He", "He_3"), with a caret ("^3He").  None of them is a    *)
(* first-column entry, so each must be rejected (unless it happens to be tabulated itself).            *)
DigitsOf(n) == SubSeq(n, 1, LeadDigits(n, 1))
OtherNotations(n) ==
    IF LeadDigits(n, 1) = 0 THEN {}
    ELSE { ElementOf(n) \o DigitsOf(n), ElementOf(n) \o <<45>> \o DigitsOf(n), DigitsOf(n) \o <<45>> \o ElementOf(n),
           ElementOf(n) \o <<95>> \o DigitsOf(n), <<94>> \o n } \ {n}
(* the same element with a neighbouring mass number (last digit one up / one down): tabulated or not,   *)
(* it is another nuclide and must never be answered with the data of n                                *)
Neighbours(n) ==
    LET d == LeadDigits(n, 1)
    IN IF d = 0 THEN {}
       ELSE (IF n[d] < 57 THEN { [n EXCEPT ![d] = n[d] + 1] } ELSE {}) \cup
            (IF n[d] > 48 THEN { [n EXCEPT ![d] = n[d] - 1] } ELSE {})

(* ways of handing a wavelength / a number density to Material.attenuation_coefficient: the law does   *)
(* not depend on them                                                                                *)
NumTypes == {"float64", "float32", "int64", "int32"}
WavelengthLayouts == {"0d", "1d", "1d_unsorted", "2d_transposed"}

-----------------------------------------------------------------------------
(* attenuation coefficient on rationals <<p, q>>, q > 0:                                         *)
(*   mu = n (sigma_s + sigma_a * lambda / 1.7982 A),   1.7982 = 8991/5000                         *)
(* with n in 1/A^3, sigma in A^2, lambda in A  =>  mu in 1/A                                     *)
RECURSIVE GcdN(_, _)
GcdN(x, y) == IF y = 0 THEN x ELSE GcdN(y, x % y)
RNorm(x) == LET a == IF x[1] < 0 THEN -x[1] ELSE x[1]
                g == GcdN(a, x[2])
            IN IF g = 0 THEN x ELSE <<x[1] \div g, x[2] \div g>>
RMul(x, y) == RNorm(<<x[1] * y[1], x[2] * y[2]>>)
RAdd(x, y) == RNorm(<<x[1] * y[2] + y[1] * x[2], x[2] * y[2]>>)
REq(x, y) == x[1] * y[2] = y[1] * x[2]
RLt(x, y) == x[1] * y[2] < y[1] * x[2]
InvRefWavelength == <<5000, 8991>>
Attenuation(n, ss, sa, lam) == RMul(n, RAdd(ss, RMul(sa, RMul(lam, InvRefWavelength))))
=============================================================================
