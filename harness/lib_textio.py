"""Shared helpers for the text-I/O checks (C14 CIF, C15 XYE).

Nothing in here is an oracle.  The CIF lexer/parser below is a *helper* port of
spec/textio/CifLexerDefs.tla / CifDocDefs.tla: the drivers use it to find the token that stands
where a number (or an escaped non-ASCII string) was supplied, so that the numeric comparison can be
done outside TLC.  The token text found is handed to TLC inside the event, and TLC (Trace_Cif)
checks with its own lexer that exactly this token stands in that position — if helper and
specification ever disagree the event is rejected, never silently accepted.
"""

from __future__ import annotations

import math
import re
from fractions import Fraction

import mpmath

HT, LF, CR, SP, DQ, HASH, DOLLAR, SQ, SEMI, LBR, RBR, US = 9, 10, 13, 32, 34, 35, 36, 39, 59, 91, 93, 95
SPECIAL = {DQ, HASH, DOLLAR, SQ, US, SEMI, LBR, RBR}
BLANK = {SP, HT, LF}


def cps(s: str) -> list[int]:
    return [ord(c) for c in s]


# --------------------------------------------------------------------------- helper lexer / parser
def py_lex(text: str, with_error_index: bool = False):
    """Port of CifLexerDefs!Lex.  Returns (tokens, first_error); token = (kind, str).
    with_error_index: additionally the number of tokens completed when the first error was seen
    (the offending token is tokens[that index] for errors raised at the start of a token)."""
    m, b, toks, bol, err = 'ws', [], [], True, ''
    err_at = [None]

    def seterr(e):
        nonlocal err
        if not err:
            err = e
            err_at[0] = len(toks)

    def emit_uq():
        nonlocal b
        s = ''.join(b)
        low = s.lower()
        if s[0] == '_':
            tok = ('tag', s[1:])
        elif low.startswith('data_'):
            tok = ('data', s[5:])
        elif low.startswith('save_'):
            tok = ('save', s[5:])
        elif low == 'loop_':
            tok = ('loop', '')
        elif low == 'stop_':
            tok = ('stop', '')
        elif low == 'global_':
            tok = ('global', '')
        else:
            tok = ('val', s)
        toks.append(tok)
        if tok[0] in ('tag', 'data') and not tok[1]:
            seterr('empty_tag_or_block_name')
        b = []

    def emit_val():
        nonlocal b
        toks.append(('val', ''.join(b)))
        b = []

    prev_cr = False
    for ch in text:
        c = ord(ch)
        # CIF 1.1 line terminators: LF, CR LF and a bare CR (CifLexerDefs!Step): a CR acts like an LF,
        # the LF of a CR LF pair is swallowed
        if c == CR:
            ch, c, was_cr = '\n', LF, True
        elif c == LF and prev_cr:
            prev_cr = False
            continue
        else:
            was_cr = False
        prev_cr = was_cr
        if not (c == HT or c == LF or 32 <= c <= 126):
            seterr('non_ascii_character' if c > 126 else 'control_character')
            continue
        blank = c in BLANK
        if m == 'ws':
            if c == LF:
                bol = True
            elif blank:
                bol = False
            elif c == HASH:
                m, bol = 'com', False
            elif c == SEMI and bol:
                m, b, bol = 'tf', [], False
            elif c == SQ:
                m, b, bol = 'sq', [], False
            elif c == DQ:
                m, b, bol = 'dq', [], False
            else:
                if c in (DOLLAR, LBR, RBR):
                    seterr('reserved_opener')
                m, b, bol = 'uq', [ch], False
        elif m == 'com':
            if c == LF:
                m, bol = 'ws', True
        elif m == 'uq':
            if blank:
                emit_uq()
                m, bol = 'ws', c == LF
            else:
                b.append(ch)
        elif m in ('sq', 'dq'):
            q = SQ if m == 'sq' else DQ
            if c == q:
                m = m + 'e'
            elif c == LF:
                emit_val()
                m, bol = 'ws', True
                seterr('eol_in_quoted_string')
            else:
                b.append(ch)
        elif m in ('sqe', 'dqe'):
            q = SQ if m == 'sqe' else DQ
            if blank:
                emit_val()
                m, bol = 'ws', c == LF
            elif c == q:
                b.append(chr(q))
            else:
                b.append(chr(q))
                b.append(ch)
                m = m[:2]
        elif m == 'tf':
            if c == LF:
                m = 'tfl'
            else:
                b.append(ch)
        elif m == 'tfl':
            if c == SEMI:
                emit_val()
                m = 'tfe'
            elif c == LF:
                b.append('\n')
            else:
                b.append('\n')
                b.append(ch)
                m = 'tf'
        elif m == 'tfe':
            if blank:
                m, bol = 'ws', c == LF
            else:
                seterr('text_field_terminator_not_followed_by_blank')
                m, b = 'uq', [ch]
    if m == 'uq':
        emit_uq()
    elif m in ('sqe', 'dqe'):
        emit_val()
    elif m in ('sq', 'dq'):
        emit_val()
        seterr('unterminated_quoted_string')
    elif m in ('tf', 'tfl'):
        emit_val()
        seterr('unterminated_text_field')
    if with_error_index:
        return toks, err, err_at[0]
    return toks, err


def py_parse(tokens):
    """Port of CifDocDefs!Parse.  Returns (blocks, error); block = {'name', 'items'};
    item = {'k': 'pair'|'loop', 'tags': [...], 'vals': [...]}."""
    blocks, st, tags, vals, err = [], 'start', [], [], ''

    def seterr(e):
        nonlocal err
        if not err:
            err = e

    def close_loop():
        nonlocal st, tags, vals
        blocks[-1]['items'].append({'k': 'loop', 'tags': tags, 'vals': vals})
        if len(vals) % len(tags):
            seterr('loop_values_not_a_multiple_of_tags')
        st, tags, vals = 'block', [], []

    def block_step(tok):
        nonlocal st, tags, vals
        k, s = tok
        if k == 'data':
            blocks.append({'name': s, 'items': []})
            st = 'block'
        elif k == 'tag':
            st, tags = 'tagged', [s]
        elif k == 'loop':
            st, tags, vals = 'lhead', [], []
        elif k == 'val':
            seterr('value_without_tag')
        else:
            seterr('reserved_word_save_stop_or_global')

    for tok in tokens:
        k, s = tok
        if st == 'start':
            if k != 'data':
                blocks.append({'name': '', 'items': []})
                st = 'block'
                seterr('content_before_data_block')
            block_step(tok)
        elif st == 'block':
            block_step(tok)
        elif st == 'tagged':
            if k == 'val':
                blocks[-1]['items'].append({'k': 'pair', 'tags': tags, 'vals': [s]})
                st, tags = 'block', []
            else:
                st = 'block'
                seterr('tag_without_value')
                block_step(tok)
        elif st == 'lhead':
            if k == 'tag':
                tags = [*tags, s]
            elif k == 'val' and tags:
                st, vals = 'lbody', [s]
            else:
                st = 'block'
                seterr('loop_without_tags_or_values')
                block_step(tok)
        elif st == 'lbody':
            if k == 'val':
                vals.append(s)
            else:
                close_loop()
                block_step(tok)
    if st == 'tagged':
        seterr('tag_without_value')
    elif st == 'lhead':
        seterr('loop_without_tags_or_values')
    elif st == 'lbody':
        close_loop()
    return blocks, err


def py_read(text: str):
    toks, le = py_lex(text)
    blocks, pe = py_parse(toks)
    return blocks, le, pe


# --------------------------------------------------------------------------- string classes
RESERVED_FIRST = '_#$;[]'
_KW_PREFIX = ('data_', 'save_', 'loop_', 'stop_', 'global_')


def is_ambiguous_keyword_prefix(v: str) -> bool:
    """loop_x / stop_x / global_x: CIF 1.1 reserves the exact words; whether longer unquoted words
    with that prefix are allowed is read differently by different parsers -> not generated."""
    low = v.lower()
    return any(low.startswith(k) and len(low) > len(k) for k in ('loop_', 'stop_', 'global_'))


def norm_breaks(v: str) -> str:
    """CR LF and bare CR read as LF (CifLexerDefs!NormalizeBreaks): a value up to the spelling of its line ends."""
    return v.replace('\r\n', '\n').replace('\r', '\n')


def str_class(v: str) -> str:
    low = v.lower()
    if '\n;' in norm_breaks(v):
        return 'lf_semi'
    if '\r' in v:
        return 'cr'
    if any(low.startswith(k) for k in _KW_PREFIX):
        return 'keyword'
    if v and v[0] in RESERVED_FIRST:
        return 'reserved_first'
    if '\t' in v:
        return 'tab'
    if any(ord(c) > 126 for c in v):
        return 'non_ascii'
    if not v:
        return 'empty'
    if '\n' in v:
        return 'multi_line'
    if "'" in v or '"' in v:
        return 'quotes'
    if ' ' in v:
        return 'blanks'
    return 'simple'


DEFECT_CLASSES = ('lf_semi', 'keyword', 'reserved_first', 'tab')

CLASS_TEXT = {
    'lf_semi': "string value containing LF followed by ';'",
    'keyword': 'CIF reserved word (data_ save_ loop_ stop_ global_) as string value',
    'reserved_first': 'string value starting with reserved character (_ # $ ; [ ])',
    'tab': 'string value with embedded TAB',
    'non_ascii': 'non-ASCII string value',
    'empty': 'empty string value',
    'multi_line': 'multi-line string value',
    'cr': 'string value with CR or CR LF line ends',
    'quotes': 'string value with quote characters',
    'blanks': 'string value with blanks',
    'simple': 'plain string value',
    'number': 'number',
    'number_with_variance': 'number with variance',
}


def escaped(v: str) -> str:
    """What an ASCII escape of v keeps verbatim is not prescribed; only used to locate v in text."""
    return v.encode('ascii', 'backslashreplace').decode('ascii')


def how_written(text: str, v: str, tag: str | None = None) -> str:
    """How the writer delimited v (used only to make violation signatures specific).  With `tag`
    (a pair's data name) the characters behind the tag decide; otherwise v is searched in the text
    behind the first block heading, complete delimiters first."""
    e = escaped(v)
    if tag is not None:
        i = text.find('_' + tag)
        if i >= 0:
            rest = text[i + 1 + len(tag):]
            if rest.startswith('\n; ' + e):
                return 'as text field'
            if rest.startswith(" '"):
                return 'single-quoted'
            if rest.startswith(' "'):
                return 'double-quoted'
            if rest.startswith(' ' + e) or rest.startswith('\n' + e):
                return 'unquoted'
            if rest.startswith('\n;'):
                return 'as text field'
    if not e:
        return 'in unrecognised form'
    body = text[max(text.find('data_'), 0):]
    q = re.escape(e)
    for pattern, how in ((r'\n; ' + q + r'\n;', 'as text field'), (r'(?<![^ \n])' + q + r'(?![^ \n])', 'unquoted'),
                         ("'" + q + r"'(?![^ \n])", 'single-quoted'), ('"' + q + r'"(?![^ \n])', 'double-quoted'),
                         (r'\n; ?' + q, 'as text field')):
        if re.search(pattern, body):
            return how
    return 'in unrecognised form'


# --------------------------------------------------------------------------- numbers
_NUM = re.compile(r'^([+-]?)(\d*)(?:\.(\d*))?(?:[eE]([+-]?\d+))?(?:\((\d+)\))?$')


def parse_cif_number(tok: str):
    """-> (value, unit_of_last_digit, su or None, su_digits or None) as Fractions, or None."""
    m = _NUM.match(tok)
    if not m:
        return None
    sign, ip, fp, ex, su = m.groups()
    fp = fp or ''
    if not (ip or fp):
        return None
    if ex is not None and abs(int(ex)) > 5000:
        return None     # not a number any double could have been printed as (and 10**ex would not terminate in reasonable time)
    unit = Fraction(10) ** (int(ex or 0) - len(fp))
    val = int((ip or '0') + fp) * unit
    if sign == '-':
        val = -val
    return val, unit, (int(su) * unit if su is not None else None), su


def _ulp(x: Fraction) -> Fraction:
    f = abs(float(x))
    if not math.isfinite(f):
        f = 1.7976931348623157e308
    return Fraction(math.ulp(f))


def _sqrt_frac(v) -> Fraction:
    """sqrt of a float variance, correct to 60 digits, as a Fraction."""
    with mpmath.workdps(80):
        r = mpmath.sqrt(mpmath.mpf(v))
        if r == 0:
            return Fraction(0)
        man, exp = int(r.man), int(r.exp)
        return Fraction(man) * Fraction(2) ** exp


def number_ok(tok: str, x, var=None) -> bool:
    """The token reads as the supplied number 'to printed precision'.

    Tolerance (derived, not tuned): half a unit of the last printed digit; for the value(su)
    notation additionally half a unit of the last *non-zero* digit of the su (trailing zeros of an
    su are place holders, `123460(100)` claims hundreds); plus 4 ulp of the double, because nobody
    can ask a float64 to be recovered more finely than it is stored.  The su itself must equal
    sqrt(variance) within the same tolerance.  A value printed without su is accepted for a
    supplied variance only if that variance is 0.
    """
    p = parse_cif_number(tok)
    if p is None:
        return False
    val, unit, su, su_digits = p
    xf = Fraction(x)
    tol = unit / 2
    if su is not None:
        tz = len(su_digits) - len(su_digits.rstrip('0'))
        if int(su_digits) == 0:
            tz = 0
        tol = max(tol, unit * Fraction(10) ** tz / 2)
    if abs(val - xf) > tol + 4 * _ulp(xf):
        return False
    if var is None:
        return su is None
    sd = _sqrt_frac(var)
    if su is None:
        return sd == 0
    return abs(su - sd) <= tol + 4 * _ulp(sd)


def su_ok(tok: str, var) -> bool:
    """A separate _su column cell equals sqrt(variance) to printed precision (+ 4 ulp)."""
    p = parse_cif_number(tok)
    if p is None or p[2] is not None:
        return False
    val, unit, _, _ = p
    sd = _sqrt_frac(var)
    return abs(val - sd) <= unit / 2 + 4 * _ulp(sd)


def ascii_parts_kept(tok: str, v: str) -> bool:
    """Escaped token is ASCII and contains the ASCII runs of v in order (the escape itself is not
    prescribed by the property).  Blank runs at the edges are not required."""
    if any(ord(c) > 126 for c in tok):
        return False
    pos = 0
    for run in re.findall(r'[\x21-\x7e]+', v):
        i = tok.find(run, pos)
        if i < 0:
            return False
        pos = i + len(run)
    return True
