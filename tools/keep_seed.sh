#!/bin/sh
# tools/keep_seed.sh <worktree> <ID> <name>  — store a confirmed seeded change under /verif/seeded/<ID>-<name>/ and
# run the property's quick check against it (scratch copy, /repo untouched).
wt=$1; id=$2; name=$3
dst=/verif/seeded/$id-$name
mkdir -p "$dst"
cp "$wt/SEED/patch.diff" "$wt/SEED/demo.py" "$wt/SEED/meta.json" "$wt/SEED/confirm.json" "$dst/"
cd /verif && tools/mutant_run.sh "$dst/patch.diff" "$id" quick | tee "$dst/check_quick.txt"
