SPECIFICATION ESpec
CONSTANTS
  Pulses <- MC_Pulses
  Choppers <- MC_Choppers
  MaxChops = 3
  FinalDist = 8
  L = 12
  Stride = 211
