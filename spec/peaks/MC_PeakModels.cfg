SPECIFICATION Spec
CONSTANTS
  Parts = {"names", "horner", "lorentz", "units", "typed", "reuse"}
  Bug = "none"
  Letters <- MC_Letters2
  MaxPrefixLen = 2
  MaxLeaves = 2
  PolyDegs = {1, 2}
  UnknownNames <- MC_Unknown
  Coefs <- MC_Coefs
  Xs <- MC_Xs
  MaxDeg = 4
  Amps <- MC_Amps
  Locs <- MC_Locs
  Scales = {1, 2, 3, 4}
  MaxOffset = 9
  UnitExps <- MC_UnitExps
  TCoefs <- MC_TCoefs
  TMaxDeg = 2
INVARIANT ModelWellFormed
INVARIANT NamesInjective
INVARIANT StripRecoversBase
INVARIANT AllNamesCarryPrefix
INVARIANT CompositeIsDisjointUnion
INVARIANT CallAcceptedIffExact
INVARIANT RoutingIsDeclared
INVARIANT PrefixIsRenaming
INVARIANT HornerIsSum
INVARIANT HornerIsHornerForm
INVARIANT LorentzSymmetric
INVARIANT LorentzHalfMaximum
INVARIANT LorentzMonotone
INVARIANT LorentzSignOfAmplitude
INVARIANT GaussHalfMaximum
INVARIANT UnitsImplied
INVARIANT WrongUnitNoticed
INVARIANT TypedRefusalNeedsIntegerOperand
INVARIANT TypedValueIsSum
INVARIANT TypedNothingNarrowed
INVARIANT ArgumentsUnchanged
INVARIANT Repeatable
PROPERTY RefusalLeavesModel
CHECK_DEADLOCK FALSE
