"""C20 — bundled nuclear data are returned verbatim; attenuation follows the 1/v law.

Spec: spec/atoms/AtomTablesDefs.tla (tables as constants read by TLC from a JSON export of the CSV files,
declarative lookups, element/isotope rule, periodic table, near-miss generator, attenuation law on
rationals), AtomTables.tla (lookups with memoisation as a state machine: documented mechanism vs
declarative meaning), MC_AtomTables.tla, Cases_AtomTables.tla, Trace_AtomTables.tla.
harness/lib_atoms.py reads the CSV files with Python's csv module (never with scippneutron's parser) and
regenerates the JSON on every run (CommunityModules' CSVRead cannot read these files, see lib_atoms).

1. TLC, exhaustive on a sub-table: for every history of lookups over real names and all their near-miss
   names the memoised linear-scan mechanism answers exactly as the declarative definition; negative
   controls (case-folded cache key, prefix match, stripped blanks) must be rejected.
2. TLC on the FULL tables: data facts (unique names, name syntax, every isotope's element tabulated,
   Z = position in the periodic table, uncertainty only next to a value); near-miss names of every
   selected row with the expected outcome (spec -> code); the attenuation law on a rational grid.
3. code -> spec over ALL 371 + 118 + 3557 rows (plus repeated lookups in random order and the near-miss
   names): every field of Atom.for_isotope / ScatteringParams.for_isotope is compared here with
   float(text) of the table (exact equality), variance with float(text)**2 (<= 1 ulp), unit string,
   blank => None; one event per lookup; Trace_AtomTables.tla decides name membership, row identity,
   blank pattern column by column, Z, mass only for isotopes, weight only where tabulated.  Any exception
   counts as rejection of an unknown name (DESIGN §3.4).
4. Material.attenuation_coefficient for tabulated isotopes and for the rational grid, wavelengths and
   number densities in several units, against n(sigma_s + sigma_a*lambda/1.7982 A) evaluated exactly
   (Fractions; the floats handed to the code are taken as exact rationals), relative 1e-14, and
   convertible to 1/m (dimension 1/length).

TLC cannot compare floats: equality of a returned double with float(text) is evaluated here and handed
to TLC as one letter per CSV column (b/m/x).  Returned objects are never mutated (aliasing of the cached
objects is C09's subject).

Hardening round (HARDENING.md; all inside the quantifier "every row, near-miss names, wavelengths and
densities in any units"):
  * names (items 3, 8): besides the cut / extended / re-cased names TLC now enumerates (a) names tabulated
    only in ANOTHER table than the one the entry point reads (elements and nuclides of the weight / mass
    tables without a row in the scattering table), (b) other notations of every isotope ("He3", "He-3",
    "3-He", "He_3", "^3He"), (c) the neighbouring mass numbers of every isotope - each with the outcome
    the tables dictate; the state machine has a fourth negative control (a parser accepting "He3").
  * number types, layouts, units (items 1, 2, 5, 7): wavelength and number density are handed over as
    float64, float32, int64 or int32 (AtomTablesDefs!NumTypes; integer types only for integer values),
    the wavelength as 0-d variable, list, unsorted list or transposed 2-d array (WavelengthLayouts; arrays
    only with parameters without uncertainties - scipp refuses to broadcast variances, which is a
    refusal, not an answer), the two cross-sections of a hand-made ScatteringParams in different units.
    The expectation is computed from the numbers actually handed over (a float32 is taken as the exact
    rational it is); tolerance 1e-14, and 1e-6 when an operand is float32 (a correct implementation may
    then work in single precision: eps32 = 6e-8 per operation).
  * second use (item 6): the same Material and the same wavelength variable are used twice (the second
    result is judged, and the variable handed over must still hold the same numbers); the first use of a
    unit is float32 / integer, float64 follows; at the end of the run a sample of lookups and attenuation
    cases is evaluated again in reverse order (events with pass = 2; TLC checks they are the same cases).
  * reference_wavelength() itself must be 1.7982 angstrom.
  * self-tests (item 11): the corrupted events of the trace control derive from synthetic events built
    from the tables and the specification's grid, not from what the implementation returned; violations
    are reported before the control runs; a Z of any integral type is accepted.
"""

from __future__ import annotations

import json
import math
import numbers
import os
import threading
from fractions import Fraction as F

import numpy as np

from .. import lib_atoms as A
from ..core import MachineryError
from ..refmap import ulp_diff
from ..tlc import require_ok, write_ndjson

WORKERS = int(os.environ.get('VERIF_TLC_WORKERS', '16'))

RULE = ('names = first-column entries of the three bundled tables (all 4046 rows) and their near-miss names '
        '(proper prefixes/suffixes, one character added, case changes, inserted blank, header words, other '
        'notations, neighbouring mass numbers, names tabulated only in another table); '
        'non-trivial = lookup of a tabulated name with at least one value, or a near-miss that is itself '
        'another tabulated name; attenuation: isotopes with both cross-sections tabulated')

LENGTH_TO_M = {'angstrom': F(1, 10**10), 'nm': F(1, 10**9), 'pm': F(1, 10**12), 'm': F(1), 'um': F(1, 10**6),
               'mm': F(1, 1000), 'cm': F(1, 100), 'fm': F(1, 10**15)}
AREA_TO_M2 = {'barn': F(1, 10**28), 'angstrom**2': F(1, 10**20), 'fm**2': F(1, 10**30), 'm**2': F(1), 'cm**2': F(1, 10**4),
              'nm**2': F(1, 10**18), 'pm**2': F(1, 10**24)}
SECOND = ' [second evaluation of the same case, after other calls]'


def _name(cp):
    return ''.join(chr(c) for c in cp)


def _letter(var, text, unit, is_std=False):
    """One CSV column against the returned Variable (or None)."""
    if is_std:
        if var is None or var.variance is None:
            return 'b'
        if text == '':
            return 'x'
        want = float(text) ** 2
        return 'm' if ulp_diff(float(var.variance), want) <= 1 else 'x'
    if var is None:
        return 'b'
    if text == '':
        return 'x'
    return 'm' if float(var.value) == float(text) else 'x'


def _var_ok(var, unit):
    """Shape/unit contract of one returned Variable."""
    import scipp as sc

    return var is None or (isinstance(var, sc.Variable) and var.ndim == 0 and var.unit == sc.Unit(unit)
                           and var.dtype == sc.DType.float64)


class Tables:
    def __init__(self, t):
        self.t = t
        self.scat = {r['name']: (i + 1, r) for i, r in enumerate(t['scat'])}
        self.weights = {r['name']: (i + 1, r) for i, r in enumerate(t['weights'])}
        self.masses = {r['name']: (i + 1, r) for i, r in enumerate(t['masses'])}


def _lookup_scat(ctx, tb, name, tid):
    from scippneutron.atoms import ScatteringParams

    ev = {'ev': 'scat', 'tid': tid, 'cp': [ord(c) for c in name], 'out': 'ok', 'row': 0, 'pat': ['b'] * 16,
          'units_ok': True, 'name_ok': True, 'pass': 1, 'of': 0}
    try:
        p = ScatteringParams.for_isotope(name)
    except Exception as e:  # noqa: BLE001  any exception = rejection
        ev['out'] = 'raised'
        ev['exc'] = type(e).__name__
        return ev, None
    row = tb.scat.get(name)
    ev['row'] = row[0] if row else 0
    f = row[1]['f'] if row else [''] * 16
    try:
        ev['name_ok'] = p.isotope == name
        pat, uok = [], True
        for q, (attr, unit) in enumerate(A.SCAT_FIELDS):
            var = getattr(p, attr)
            pat += [_letter(var, f[2 * q], unit), _letter(var, f[2 * q + 1], unit, is_std=True)]
            uok = uok and _var_ok(var, unit)
        ev['pat'], ev['units_ok'] = pat, bool(uok)
    except Exception as e:  # noqa: BLE001
        ctx.violation(f'ScatteringParams result cannot be read ({type(e).__name__})', {'name': name, 'exc': repr(e)[:200]})
        ev['pat'] = ['x'] * 16
    return ev, p


def _prop_or_none(obj, attr):
    """atomic_weight / atomic_mass raise ValueError where nothing is tabulated: that is 'nothing'."""
    try:
        return getattr(obj, attr), None
    except ValueError:
        return None, None
    except Exception as e:  # noqa: BLE001
        return None, e


def _lookup_atom(ctx, tb, name, tid):
    from scippneutron.atoms import Atom

    ev = {'ev': 'atom', 'tid': tid, 'cp': [ord(c) for c in name], 'out': 'ok', 'wrow': 0, 'mrow': 0, 'z': 0,
          'wpat': ['b', 'b'], 'mpat': ['b', 'b'], 'units_ok': True, 'name_ok': True, 'pass': 1, 'of': 0}
    try:
        a = Atom.for_isotope(name)
    except Exception as e:  # noqa: BLE001
        ev['out'] = 'raised'
        ev['exc'] = type(e).__name__
        return ev, None
    element = name.lstrip('0123456789')
    wrow = tb.weights.get(element)
    mrow = tb.masses.get(name)
    ev['wrow'] = wrow[0] if wrow else 0
    ev['mrow'] = mrow[0] if mrow else 0
    wf = wrow[1]['f'] if wrow else ['0', '', '']
    mf = mrow[1]['f'] if mrow else ['', '']
    try:
        ev['name_ok'] = a.isotope == name
        # the atomic number as a number: any integral type (int, numpy integer) is the same number
        ev['z'] = int(a.z) if isinstance(a.z, numbers.Integral) and not isinstance(a.z, bool) and abs(int(a.z)) < 10**6 else -1
        w, e1 = _prop_or_none(a, 'atomic_weight')
        m, e2 = _prop_or_none(a, 'atomic_mass')
        for e in (e1, e2):
            if e is not None:
                ctx.violation(f'Atom property raised {type(e).__name__}', {'name': name, 'exc': repr(e)[:200]})
        ev['wpat'] = [_letter(w, wf[1], 'Da'), _letter(w, wf[2], 'Da', is_std=True)]
        ev['mpat'] = [_letter(m, mf[0], 'Da'), _letter(m, mf[1], 'Da', is_std=True)]
        ev['units_ok'] = bool(_var_ok(w, 'Da') and _var_ok(m, 'Da'))
    except Exception as e:  # noqa: BLE001
        ctx.violation(f'Atom result cannot be read ({type(e).__name__})', {'name': name, 'exc': repr(e)[:200]})
        ev['wpat'] = ['x', 'x']
    return ev, a


# ------------------------------------------------------------------------------------------------ attenuation
def _as_type(x: F, typ):
    """The number handed over for the rational x in number type typ, and its exact rational value."""
    if typ in ('int64', 'int32'):
        if x.denominator != 1 or abs(x) >= (2**31 if typ == 'int32' else 2**53):
            raise MachineryError(f'{x} is not an {typ}')
        return int(x), F(int(x))
    v = float(np.float32(float(x))) if typ == 'float32' else float(x)
    return v, F(v)


def _types_for(x: F, exact_only):
    """Number types in which x can be handed over; exact_only: only those that hold x exactly."""
    out = []
    for typ in ('float64', 'float32', 'int64', 'int32'):
        if typ.startswith('int'):
            if x.denominator == 1 and abs(x) < (2**31 if typ == 'int32' else 2**53):
                out.append(typ)
        elif not exact_only or F(float(np.float32(float(x))) if typ == 'float32' else float(x)) == x:
            out.append(typ)
    return out


def _wavelength_var(vals, unit, typ, lay):
    import scipp as sc

    if lay == '0d':
        return sc.scalar(vals[0], unit=unit, dtype=typ)
    if lay in ('1d', '1d_unsorted'):
        return sc.array(dims=['wavelength'], values=np.array(vals), unit=unit, dtype=typ)
    k = len(vals) // 2                                   # '2d_transposed': dims (a: 2, b: k), memory order (b, a)
    buf = np.ascontiguousarray(np.array(vals).reshape(2, k).T)
    return sc.array(dims=['b', 'a'], values=buf, unit=unit, dtype=typ).transpose(['a', 'b'])


_RECYCLED: list = []      # Material objects that have been evaluated and belong to no pool


def _mu_event(ctx, tid, S, first=None, of=0):
    """One call of Material.attenuation_coefficient.  S (the case, kept for the second evaluation):
      sp, n (Fraction, 1/n_unit^3), n_unit, lam (list of Fractions in lam_unit), lam_unit, ss_m2, sa_m2 (exact
      cross-sections in m^2 of the numbers held by sp), wl_type, n_type, lay, twice, small (spec's integers)."""
    import scipp as sc
    from scippneutron.absorption import Material

    lay, wl_type, n_type = S.get('lay', '0d'), S.get('wl_type', 'float64'), S.get('n_type', 'float64')
    ev = {'ev': 'mu', 'tid': tid, 'small': False, 'n': [0, 1], 'ss': [0, 1], 'sa': [0, 1], 'lam': [1, 1],
          'want': [0, 1], 'raised': False, 'dim_ok': True, 'rel_ok': True, 'kept': True,
          'wl_type': wl_type, 'n_type': n_type, 'lay': lay, 'case': first['case'] if first else tid,
          'pass': 2 if of else 1, 'of': of}
    nv, n_exact = _as_type(S['n'], n_type)
    lam = [_as_type(x, wl_type) for x in S['lam']]
    # exact expectation in 1/m from the numbers actually handed over
    n_m3 = n_exact / LENGTH_TO_M[S['n_unit']] ** 3
    want = [n_m3 * (S['ss_m2'] + S['sa_m2'] * (le * LENGTH_TO_M[S['lam_unit']] / LENGTH_TO_M['angstrom'])
                    / A.REFERENCE_WAVELENGTH_ANGSTROM) for _, le in lam]
    if S.get('small') is not None:
        ev.update(small=True, **S['small'])
    info = {'n': f'{nv} 1/{S["n_unit"]}^3 ({n_type})', 'lambda': f'{[v for v, _ in lam]} {S["lam_unit"]} ({wl_type}, {lay})',
            'want_per_m': [float(w) for w in want], 'want_exact': want[0], 'S': S,
            'same_objects_used_twice': bool(S.get('twice'))}
    tol = F(1, 10**6) if 'float32' in (wl_type, n_type) else F(1, 10**14)
    try:
        pool, mkey = S.get('pool') if not of else None, (id(S['sp']), nv, S['n_unit'], n_type)
        mat = pool.get(mkey) if pool is not None else None
        if mat is None:
            dens = sc.scalar(nv, unit=f'1/{S["n_unit"]}**3', dtype=n_type)
            if pool is None and _RECYCLED and tid % 3 == 1:
                # a Material is a plain (mutable) dataclass: an object that has been evaluated before is given
                # another sample (both fields reassigned); the law holds for what it describes NOW
                mat = _RECYCLED.pop(0)
                mat.scattering_params = S['sp']
                mat.effective_sample_number_density = dens
                info['material_object_reassigned'] = True
            else:
                mat = Material(S['sp'], dens)
            if pool is not None:
                pool[mkey] = mat                           # the same Material object serves several cases
        info['material_object_used_before'] = bool(S.get('reused'))
        wl = _wavelength_var([v for v, _ in lam], S['lam_unit'], wl_type, lay)
        before = np.array(wl.values, copy=True)
        info['wavelength_dtype'] = str(wl.dtype)
        got = mat.attenuation_coefficient(wl)
        if S.get('twice'):
            got = mat.attenuation_coefficient(wl)      # same Material, same wavelength variable: judged
        if pool is None and len(_RECYCLED) < 4:
            _RECYCLED.append(mat)
        ev['kept'] = bool(np.array_equal(np.array(wl.values), before) and wl.unit == sc.Unit(S['lam_unit'])
                          and str(wl.dtype) == wl_type)
    except Exception as e:  # noqa: BLE001
        ev['raised'] = True
        info['exc'] = repr(e)[:200]
        return ev, info
    try:
        g = got.to(unit='1/m')
        if set(g.dims) != set(wl.dims) or len(g.dims) != len(wl.dims):
            raise ValueError(f'result has dims {g.dims}, wavelength has {wl.dims}')
        if g.dims != wl.dims:
            g = g.transpose(list(wl.dims))
        gv = np.array(g.values, dtype=float).reshape(-1)
        if gv.shape != (len(lam),):
            raise ValueError(f'result has {gv.shape} elements')
    except Exception as e:  # noqa: BLE001
        ev['dim_ok'] = False
        info['unit'] = str(getattr(got, 'unit', None))
        info['exc'] = repr(e)[:200]
        return ev, info
    # flattened order of the variable (as it was BEFORE the call) = order in which the result is read back
    order = {float(v): i for i, (v, _) in enumerate(lam)}
    info['got_per_m'] = gv.tolist()
    ok = True
    for x, gi in zip(before.reshape(-1), gv, strict=True):
        w = want[order[float(x)]] if float(x) in order else None
        if w is None or not math.isfinite(gi):
            ok = False
        elif w == 0:
            ok = ok and gi == 0.0
        else:
            ok = ok and abs(F(float(gi)) - w) <= abs(w) * tol
    ev['rel_ok'] = bool(ok)
    return ev, info


def _mu_key(ev, clause, second):
    pres = []
    if ev['lay'] != '0d':
        pres.append(f'{ev["lay"]} wavelength')
    if ev['wl_type'] != 'float64':
        pres.append(f'{ev["wl_type"]} wavelength')
    if ev['n_type'] != 'float64':
        pres.append(f'{ev["n_type"]} density')
    return (f'Material.attenuation_coefficient: {clause.replace("_", " ")}' + (f' [{", ".join(pres)}]' if pres else '')
            + (SECOND if second else ''))


class _Bg(threading.Thread):
    """TLC runs next to the Python work of the driver (tlc.run gives every run its own metadir); not counted
    by tlc.run (count=False): the main thread adds the states up after join()."""

    def __init__(self, ctx, jobs):
        super().__init__(daemon=True)
        self.ctx, self.jobs, self.results, self.error = ctx, jobs, [], None

    def run(self):
        try:
            for kw in self.jobs:
                kw = dict(kw)
                module, cfg = kw.pop('module'), kw.pop('cfg')
                self.results.append((kw.get('expect_error', False), self.ctx.tlc(module, cfg, count=False, **kw)))
        except BaseException as e:  # noqa: BLE001  re-raised by finish()
            self.error = e

    def finish(self, what):
        self.join()
        if self.error is not None:
            raise self.error
        for (neg, res), w in zip(self.results, what, strict=True):
            if neg:
                continue
            require_ok(self.ctx, res, w)
            self.ctx.states += res.generated
            self.ctx.distinct_states += res.distinct
            self.ctx.transitions += max(res.generated - 1, 0)
        return [r for _, r in self.results]


def run(ctx):
    import scipp as sc
    from scippneutron.atoms import ScatteringParams

    ctx.rule = RULE
    ctx.assume('any exception raised for an untabulated name counts as rejection (DESIGN §3.4)')
    ctx.assume('atomic_weight / atomic_mass raising ValueError is the documented way of returning nothing')
    ctx.assume('the CSV files next to the imported scippneutron.atoms are the bundled tables; they are read '
               'independently with Python\'s csv module')
    ctx.assume('wavelength arrays are combined only with cross-sections that carry no uncertainty (scipp refuses to '
               'broadcast variances); with a float32 operand the law is required to 1e-6 only')
    ctx.extra['tolerances'] = {'value': 'float(text) exactly', 'variance': 'float(text)**2 within 1 ulp',
                               'attenuation': '1e-14 relative to the exact rational (1e-6 with a float32 operand)'}
    import time
    t_ = [time.time()]

    def mark(name):
        ctx.extra.setdefault('timing_s', {})[name] = round(time.time() - t_[0], 1)
        t_[0] = time.time()

    t = A.read_tables()
    tb = Tables(t)
    full, mini = ctx.tmp / 'tables.json', ctx.tmp / 'mini.json'
    A.write_json(full, t)
    A.write_json(mini, A.mini_tables(t))
    counts = (len(t['scat']), len(t['weights']), len(t['masses']))
    ctx.extra['rows'] = {'scat': counts[0], 'weights': counts[1], 'masses': counts[2]}

    # ---- 1. design: memoised mechanism = declarative meaning; negative controls (in the background)
    env = {'TABLES_FILE': mini}
    mod = 'atoms/MC_AtomTables.tla'
    w2 = max(WORKERS // 2, 1)
    bugs = ('cache_casefold', 'prefix_match', 'strip', 'renotation')
    model_bg = _Bg(ctx, [{'module': mod, 'cfg': 'MC_AtomTables.cfg', 'env': env, 'workers': w2, 'timeout': 900},
                         {'module': mod, 'cfg': 'MC_AtomTables_thorough.cfg' if ctx.thorough else 'MC_AtomTables_wide.cfg',
                          'env': env, 'workers': w2, 'timeout': 1500}]
                   + [{'module': mod, 'cfg': f'Neg_AtomTables_{bug}.cfg', 'env': env, 'expect_error': True,
                       'workers': w2, 'timeout': 300} for bug in bugs])
    model_bg.start()

    # ---- 2. full tables: facts, near-miss cases, attenuation grid (constant evaluation, also in the background)
    #         the evaluation is single-threaded: the cases of the two entry points come from two TLC processes
    near_f, att_f = {p: ctx.tmp / f'near-{p}.ndjson' for p in ('scat', 'atom')}, ctx.tmp / 'att.ndjson'
    cases_bg = {p: _Bg(ctx, [{'module': 'atoms/Cases_AtomTables.tla', 'cfg': None, 'workers': 1, 'timeout': 1500,
                              'env': {'TABLES_FILE': full, 'NEAR_FILE': near_f[p], 'ATT_FILE': att_f, 'PART': p,
                                      'STRIDE': 1 if ctx.thorough else 12}}]) for p in ('scat', 'atom')}
    for b in cases_bg.values():
        b.start()

    events, infos = [], []

    def add(ev, info=None):
        events.append(ev)
        infos.append(info)

    # ---- 0. the constant of the law
    try:
        from scippneutron.atoms import reference_wavelength

        ref = reference_wavelength()
        rv = float(ref.to(unit='angstrom', dtype='float64').value)
        if not abs(rv - 1.7982) <= 4e-16 * 1.7982:
            ctx.violation('reference_wavelength() is not 1.7982 angstrom', {'got': repr(ref)[:200]})
    except Exception as e:  # noqa: BLE001
        ctx.violation(f'reference_wavelength() cannot be read as a length ({type(e).__name__})', {'exc': repr(e)[:200]})
    ctx.case(nontrivial_id='reference_wavelength')

    # ---- 3a. all rows, in a seeded random order, each looked up again later (memoised or not)
    order = ([('scat', r['name']) for r in t['scat']] + [('atom', r['name']) for r in t['weights']]
             + [('atom', r['name']) for r in t['masses']])
    ctx.rng.shuffle(order)
    repeats = ctx.rng.sample(order, 600 if ctx.thorough else 150)
    first = {}
    first_line = {}
    for api, name in order + repeats + order[:100]:
        ev, obj = (_lookup_scat if api == 'scat' else _lookup_atom)(ctx, tb, name, len(events))
        add(ev, {'api': api, 'name': name})
        key = (api, name)
        sig = json.dumps({k: v for k, v in ev.items() if k != 'tid'}, sort_keys=True)
        if key in first and first[key] != sig:
            ctx.violation(f'{api} lookup: a repeated lookup of the same name gives a different answer',
                          {'name': name, 'first': first[key], 'again': sig})
        first.setdefault(key, sig)
        first_line.setdefault(key, len(events))
        nontrivial = ev['out'] == 'ok' and (any(x == 'm' for x in ev.get('pat', [])) or api == 'atom')
        ctx.case(nontrivial_id=key if nontrivial else None)

    mark('lookups_all_rows')
    res = cases_bg['scat'].finish(['Cases_AtomTables (scat)'])[0]
    res_atom = cases_bg['atom'].finish(['Cases_AtomTables (atom)'])[0]
    if not res_atom.tagged('NEAR') or not res.tagged('NEAR'):
        raise MachineryError('Cases_AtomTables did not report its near-miss sets')
    facts = res.tagged('FACT')
    if len(facts) != 5:
        raise MachineryError(f'expected 5 data facts, got {facts}')
    for _, fact, ok in facts:
        ctx.case(nontrivial_id=('fact', fact))
        if ok is not True:
            ctx.violation(f'bundled tables: {fact} does not hold', {'fact': fact})
    cnt = res.tagged('COUNTS')
    if not cnt or tuple(cnt[0][1:]) != counts:
        raise MachineryError(f'TLC and the harness read different tables: {cnt} vs {counts}')

    mark('tlc_cases_wait')
    # ---- 3b. near-miss names enumerated by TLC (spec -> code); the expected outcome is checked directly
    #          and the event is judged again by TLC
    n_near = {}
    near_lines = []
    near_recs = [json.loads(line) for p in ('scat', 'atom') for line in open(near_f[p])]
    if True:
        for rec in near_recs:
            name = _name(rec['cp'])
            ev, _ = (_lookup_scat if rec['api'] == 'scat' else _lookup_atom)(ctx, tb, name, len(events))
            add(ev, {'api': rec['api'], 'name': name, 'near': True, 'expect': rec['expect'], 'src': rec['src']})
            near_lines.append(len(events))
            n_near[rec['src']] = n_near.get(rec['src'], 0) + 1
            ctx.case(nontrivial_id=(rec['api'], name) if rec['expect'] != 'reject' else None)
    ctx.extra['near_miss_cases'] = n_near

    mark('near_miss_lookups')
    # ---- 4. attenuation
    n_mu = 0
    mu_lines = []

    def mu(S, nontrivial):
        nonlocal n_mu
        ev, info = _mu_event(ctx, len(events), S)
        add(ev, info)
        mu_lines.append(len(events))
        n_mu += 1
        ctx.case(nontrivial_id=nontrivial)
        return ev, info

    with open(att_f) as fh:
        grid = [json.loads(x) for x in fh]
    for i, rec in enumerate(grid):
        n, ss, sa, lam = (F(*rec[k]) for k in ('n', 'ss', 'sa', 'lam'))
        # sigma in angstrom^2 (= 1e-20 m^2), n in 1/angstrom^3, lambda in angstrom, varied units below
        lam_unit = ('angstrom', 'nm', 'pm', 'm')[i % 4]
        n_unit = ('angstrom', 'nm', 'angstrom', 'pm')[(i // 4) % 4]
        lam_u = lam * LENGTH_TO_M['angstrom'] / LENGTH_TO_M[lam_unit]
        n_u = n * (LENGTH_TO_M[n_unit] / LENGTH_TO_M['angstrom']) ** 3
        if F(float(lam_u)) != lam_u or F(float(n_u)) != n_u:
            # not representable after the unit change: keep the spec's own units for this case
            lam_unit, n_unit, lam_u, n_u = 'angstrom', 'angstrom', lam, n
        exact_inputs = F(float(lam_u)) == lam_u and F(float(n_u)) == n_u and F(float(ss)) == ss and F(float(sa)) == sa
        # the two cross-sections in different area units where the numbers stay exact
        sa_unit = ('angstrom**2', 'fm**2', 'pm**2', 'barn')[(i // 16) % 4]
        sa_u = sa * AREA_TO_M2['angstrom**2'] / AREA_TO_M2[sa_unit]
        if F(float(sa_u)) != sa_u:
            sa_unit, sa_u = 'angstrom**2', sa
        sp = ScatteringParams('Fake', absorption_cross_section=sc.scalar(float(sa_u), unit=sa_unit),
                              total_scattering_cross_section=sc.scalar(float(ss), unit='angstrom**2'))
        small = {'n': rec['n'], 'ss': rec['ss'], 'sa': rec['sa'], 'lam': rec['lam'], 'want': rec['mu']}
        # number types that hold the very same numbers (so that the spec's exact value stays the expectation)
        wl_type = ctx.rng.choice(_types_for(lam_u, True)) if exact_inputs and i % 2 else 'float64'
        n_type = ctx.rng.choice(_types_for(n_u, True)) if exact_inputs and i % 3 == 0 else 'float64'
        S = {'sp': sp, 'n': n_u, 'n_unit': n_unit, 'lam': [lam_u], 'lam_unit': lam_unit,
             'ss_m2': F(float(ss)) * AREA_TO_M2['angstrom**2'], 'sa_m2': F(float(sa_u)) * AREA_TO_M2[sa_unit],
             'small': small if exact_inputs else None, 'wl_type': wl_type, 'n_type': n_type, 'twice': i % 5 == 0}
        ev, info = mu(S, ('mu-grid', i) if sa != 0 else None)
        if exact_inputs:
            # the spec's value (1/angstrom) must be what the harness' formula gives (1/m)
            if F(*rec['mu']) * 10**10 != info['want_exact']:
                raise MachineryError(f'harness formula and spec Attenuation disagree on {rec}')
        info.update(grid=rec, cross_section_units=f'angstrom**2, {sa_unit}')
    # the grid's wavelengths as arrays (per density / cross-section pair): list, unsorted list, transposed 2-d
    by_mat = {}
    for rec in grid:
        by_mat.setdefault((tuple(rec['n']), tuple(rec['ss']), tuple(rec['sa'])), []).append(rec)
    for j, ((n_, ss_, sa_), recs) in enumerate(sorted(by_mat.items())):
        n, ss, sa = F(*n_), F(*ss_), F(*sa_)
        if not all(F(float(x)) == x for x in (n, ss, sa)):
            continue
        lams = sorted({F(*r['lam']) for r in recs})
        lams = [x for x in lams if F(float(x)) == x][:4]
        if len(lams) < 4:
            lams = (lams + [F(1, 2), F(3), F(5, 4), F(7)])[:4]
        lay = ('1d', '1d_unsorted', '2d_transposed')[j % 3]
        if lay != '1d':
            lams = [lams[2], lams[0], lams[3], lams[1]]
        sp = ScatteringParams('Fake', absorption_cross_section=sc.scalar(float(sa), unit='angstrom**2'),
                              total_scattering_cross_section=sc.scalar(float(ss), unit='angstrom**2'))
        wl_type = 'float32' if j % 4 == 1 and all(F(float(np.float32(float(x)))) == x for x in lams) else 'float64'
        S = {'sp': sp, 'n': n, 'n_unit': 'angstrom', 'lam': lams, 'lam_unit': 'angstrom',
             'ss_m2': ss * AREA_TO_M2['angstrom**2'], 'sa_m2': sa * AREA_TO_M2['angstrom**2'], 'small': None,
             'wl_type': wl_type, 'n_type': 'float64', 'lay': lay, 'twice': j % 2 == 0}
        mu(S, ('mu-array', j) if sa != 0 else None)

    # real isotopes: both cross-sections tabulated
    cand = [r for r in t['scat'] if r['f'][12] != '' and r['f'][14] != '']
    if ctx.thorough:
        picks = cand
    else:
        # the extremes of the tabulated cross-sections always, a seeded sample of the rest
        by_sa = sorted(cand, key=lambda r: A.dec(r['f'][14]))
        by_ss = sorted(cand, key=lambda r: A.dec(r['f'][12]))
        nz = [r for r in by_sa if A.dec(r['f'][14]) != 0]
        fixed = by_sa[:3] + nz[:6] + by_sa[-6:] + by_ss[:4] + by_ss[-4:]
        names = {r['name'] for r in fixed}
        picks = fixed + ctx.rng.sample([r for r in cand if r['name'] not in names], 70)
    # the first call in a unit the warm-up is unlikely to have used is a single precision / integer one
    fresh_units = ['fm', 'mm', 'cm', 'um']
    for r in picks:
        try:
            sp = ScatteringParams.for_isotope(r['name'])
        except Exception:  # noqa: BLE001  (already reported by the lookup events)
            continue
        ss_m2, sa_m2 = A.dec(r['f'][12]) * AREA_TO_M2['barn'], A.dec(r['f'][14]) * AREA_TO_M2['barn']
        for k in range(3 if ctx.thorough else 2):
            if fresh_units and k == 0:
                lam_unit = fresh_units.pop()
                lam_A = F(2)
                lam = lam_A * LENGTH_TO_M['angstrom'] / LENGTH_TO_M[lam_unit]
                types = [x for x in _types_for(lam, False) if x != 'float64']
                seq = [ctx.rng.choice(types), 'float64']
            else:
                lam_unit = ctx.rng.choice(['angstrom', 'nm', 'pm', 'm', 'um'])
                lam = F(ctx.rng.choice([0.1, 0.25, 1.0, 1.7982, 2.5, 6.0, 20.0])) * LENGTH_TO_M['angstrom'] / LENGTH_TO_M[lam_unit]
                seq = [ctx.rng.choice(_types_for(lam, False)) if ctx.rng.random() < 0.3 else 'float64']
            n_unit = ctx.rng.choice(['angstrom', 'nm', 'nm', 'pm', 'm', 'cm', 'um'])
            n = F(ctx.rng.choice([0.001, 0.0722, 0.5, 1.0, 3.0])) * (LENGTH_TO_M[n_unit] / LENGTH_TO_M['angstrom']) ** 3
            whole = ctx.rng.random() < 0.3 and n >= 1
            if whole:
                n = F(round(n))                                         # an integer number density, handed over as such
            for wl_type in seq:
                n_type = ctx.rng.choice(_types_for(n, False)) if ctx.rng.random() < 0.3 else 'float64'
                ints = [x for x in _types_for(n, False) if x.startswith('int')]
                if whole and ints and ctx.rng.random() < 0.8:
                    n_type = ctx.rng.choice(ints)
                S = {'sp': sp, 'n': n, 'n_unit': n_unit, 'lam': [lam], 'lam_unit': lam_unit, 'ss_m2': ss_m2, 'sa_m2': sa_m2,
                     'small': None, 'wl_type': wl_type, 'n_type': n_type, 'twice': ctx.rng.random() < 0.2}
                _, info = mu(S, ('mu', r['name'], lam_unit, n_unit, wl_type, n_type))
                info.update(isotope=r['name'])
        # integer-typed wavelengths (2 angstrom, 1 nm, 180 pm, ...): same law
        pool = {}
        lam_unit, lam_i = ctx.rng.choice([('angstrom', 1), ('angstrom', 2), ('angstrom', 6), ('nm', 1), ('nm', 2), ('pm', 180), ('pm', 250)])
        S = {'sp': sp, 'n': F(0.0722), 'n_unit': 'angstrom', 'lam': [F(lam_i)], 'lam_unit': lam_unit, 'ss_m2': ss_m2, 'sa_m2': sa_m2,
             'small': None, 'wl_type': ctx.rng.choice(['int64', 'int32']), 'n_type': 'float64', 'pool': pool}
        _, info = mu(S, ('mu-int', r['name'], lam_unit, lam_i))
        info.update(isotope=r['name'])
        # the same Material object asked for the same NUMBER in two units (1 angstrom / 1 nm, 2 angstrom / 2 nm)
        v = ctx.rng.choice([1, 2])
        typ = ctx.rng.choice(['float64', 'float64', 'int64'])
        for lam_unit in ctx.rng.sample(['angstrom', 'nm'], 2):
            S = {'sp': sp, 'n': F(0.0722), 'n_unit': 'angstrom', 'lam': [F(v)], 'lam_unit': lam_unit, 'ss_m2': ss_m2,
                 'sa_m2': sa_m2, 'small': None, 'wl_type': typ, 'n_type': 'float64', 'pool': pool, 'reused': True}
            _, info = mu(S, ('mu-same-number', r['name'], lam_unit, v))
            info.update(isotope=r['name'])
        # the tabulated numbers without their uncertainties with a list of wavelengths
        if r['f'][13] == '' and r['f'][15] == '':
            lams = [F(x) for x in ctx.rng.sample([0.1, 0.5, 1.0, 1.7982, 4.0, 9.0, 20.0], 4)]
            lay = ctx.rng.choice(['1d_unsorted', '2d_transposed', '1d_unsorted'])
            S = {'sp': sp, 'n': F(0.0722), 'n_unit': 'angstrom', 'lam': lams, 'lam_unit': 'angstrom', 'ss_m2': ss_m2,
                 'sa_m2': sa_m2, 'small': None, 'wl_type': 'float64', 'n_type': 'float64', 'lay': lay, 'twice': True,
                 'pool': pool}
            _, info = mu(S, ('mu-array', r['name']))
            info.update(isotope=r['name'])
    ctx.extra['attenuation_cases'] = n_mu

    mark('attenuation')
    # ---- 5. second evaluation (item 6): a sample of lookups and attenuation cases again, last ones first
    n_first = len(events)
    again = ctx.rng.sample(sorted(first_line.items()), 600 if ctx.thorough else 250) + [
        ((infos[l - 1]['api'], infos[l - 1]['name']), l) for l in ctx.rng.sample(near_lines, 600 if ctx.thorough else 250)]
    for (api, name), line in reversed(again):
        ev, _ = (_lookup_scat if api == 'scat' else _lookup_atom)(ctx, tb, name, len(events))
        ev['pass'], ev['of'] = 2, line
        add(ev, dict(infos[line - 1], second=True))
        ctx.case()
    for line in reversed(ctx.rng.sample(mu_lines, min(len(mu_lines), 300 if ctx.thorough else 120))):
        ev, info = _mu_event(ctx, len(events), infos[line - 1]['S'], first=events[line - 1], of=line)
        for k in ('isotope', 'grid'):
            if k in infos[line - 1]:
                info[k] = infos[line - 1][k]
        add(ev, info)
        ctx.case()
    ctx.extra['events_second_evaluation'] = len(events) - n_first

    for kind in ('scat', 'atom', 'mu'):
        e = next((e for e in events if e['ev'] == kind and (kind == 'mu' or e['out'] == 'ok')), None)
        if e:
            ctx.sample(e)
    ctx.extra['events'] = {k: sum(1 for e in events if e['ev'] == k) for k in ('scat', 'atom', 'mu')}
    ctx.extra['lookups_rejected'] = sum(1 for e in events if e.get('out') == 'raised')
    ctx.extra['rejection_classes'] = sorted({e['exc'] for e in events if 'exc' in e})
    mus = [e for e in events if e['ev'] == 'mu']
    ctx.extra['attenuation_presentations'] = {
        'wavelength_types': {x: sum(1 for e in mus if e['wl_type'] == x) for x in ('float64', 'float32', 'int64', 'int32')},
        'density_types': {x: sum(1 for e in mus if e['n_type'] == x) for x in ('float64', 'float32', 'int64', 'int32')},
        'layouts': {x: sum(1 for e in mus if e['lay'] == x) for x in ('0d', '1d', '1d_unsorted', '2d_transposed')}}

    mark('second_evaluation')
    tf = ctx.tmp / 'c20.ndjson'
    write_ndjson(tf, [{k: v for k, v in e.items() if k != 'exc'} for e in events])
    tr = ctx.tlc('atoms/Trace_AtomTables.tla', workers=1, env={'TRACE_FILE': str(tf), 'TABLES_FILE': full},
                 timeout=1500)
    require_ok(ctx, tr, 'Trace_AtomTables')
    done = tr.tagged('DONE')
    if not done or done[0][1] != len(events):
        raise MachineryError(f'trace validation incomplete: {done} vs {len(events)} events')
    ctx.traces(len(events))
    mark('tlc_trace')
    rejected = {line: clause for _, line, _tid, clause in tr.tagged('REJECT')}
    for line in sorted(rejected):
        clause = rejected[line]
        ev, info = events[line - 1], infos[line - 1]
        if clause.startswith('oracle_') or clause == 'unknown_event':
            raise MachineryError(f'harness and TLA+ specification disagree: {clause} on {ev} {info}')
        second = ev['pass'] == 2 and ev['of'] not in rejected
        if ev['ev'] == 'mu':
            ctx.violation(_mu_key(ev, clause, second), {'event': ev, 'info': {k: v for k, v in info.items() if k != 'S'}})
            continue
        api = 'ScatteringParams.for_isotope' if ev['ev'] == 'scat' else 'Atom.for_isotope'
        name = info['name']
        if clause == 'unknown_name_accepted':
            cls = _near_class(name, tb, ev['ev'])
            key = f'{api}: untabulated name accepted ({cls})'
        else:
            key = f'{api}: {clause.replace("_", " ")}'
        ctx.violation(key + (SECOND if second else ''), {'name': name, 'event': ev, 'info': info})

    _trace_control(ctx, t, grid, full)
    mark('trace_control')
    model_bg.finish(['AtomTables model (histories)', 'AtomTables model (wide universe)'] + ['negative control'] * len(bugs))

    # ---------------------------------------------------------------- growth (hosted here for its time budget):
    # the bundled quadrature tables as symmetric measures, the disk x line product construction, the node-count
    # rule of Cylinder.quadrature and the labelled layout of compute_transmission_map
    # (spec/absorption/Growth_*.tla; deviations are GROWTH-FINDINGs, not violations of C20)
    mark('tlc_model_wait')
    from .. import lib_growth_absorption
    ctx.run_growth(lib_growth_absorption.run, 'lib_growth_absorption')
    mark('growth_module')


def _trace_control(ctx, t, grid, full):
    """Vacuity guard of the trace specification.  Synthetic events are built from the tables and the
    specification's attenuation grid alone (nothing the implementation returned enters): TLC must accept each,
    and must reject every copy corrupted in one field with the expected clause (a removed event is caught by
    the DONE count)."""
    def pat(f):
        return ['m' if x != '' else 'b' for x in f]

    def cps(name):
        return [ord(c) for c in name]

    look = {'out': 'ok', 'units_ok': True, 'name_ok': True, 'pass': 1, 'of': 0}
    si, srow = next((i, r) for i, r in enumerate(t['scat']) if r['f'][0] != '' and r['f'][1] == '')
    scat = dict(look, ev='scat', cp=cps(srow['name']), row=si + 1, pat=pat(srow['f']))
    unknown = dict(look, ev='scat', cp=cps('Xx'), row=0, pat=['b'] * 16, out='raised')
    windex = {r['name']: (i, r) for i, r in enumerate(t['weights'])}
    wi, wrow = next((i, r) for i, r in enumerate(t['weights']) if r['f'][1] != '')
    elem = dict(look, ev='atom', cp=cps(wrow['name']), wrow=wi + 1, mrow=0, z=int(wrow['f'][0]), wpat=pat(wrow['f'][1:3]),
                mpat=['b', 'b'])
    bi, brow = next((i, r) for i, r in enumerate(t['weights']) if r['f'][1] == '')
    noweight = dict(look, ev='atom', cp=cps(brow['name']), wrow=bi + 1, mrow=0, z=int(brow['f'][0]), wpat=['b', 'b'],
                    mpat=['b', 'b'])
    mi, mrow = next((i, r) for i, r in enumerate(t['masses']) if windex[r['name'].lstrip('0123456789')][1]['f'][1] != '')
    ei, erow = windex[mrow['name'].lstrip('0123456789')]
    iso = dict(look, ev='atom', cp=cps(mrow['name']), wrow=ei + 1, mrow=mi + 1, z=int(erow['f'][0]), wpat=pat(erow['f'][1:3]),
               mpat=pat(mrow['f']))
    rec = next(r for r in grid if r['sa'][0] != 0)
    mu = {'ev': 'mu', 'small': True, 'n': rec['n'], 'ss': rec['ss'], 'sa': rec['sa'], 'lam': rec['lam'], 'want': rec['mu'],
          'raised': False, 'dim_ok': True, 'rel_ok': True, 'kept': True, 'wl_type': 'float64', 'n_type': 'float64',
          'lay': '0d', 'case': 5, 'pass': 1, 'of': 0}
    good = [scat, unknown, elem, noweight, iso, mu]
    cases = [(g, 'ok') for g in good] + [(dict(g, **{'pass': 2, 'of': i + 1}), 'ok') for i, g in enumerate(good)]
    p1, p2, p3 = (list(scat['pat']) for _ in range(3))
    p1[0], p2[1], p3[0] = 'b', 'x', 'x'
    cases += [(dict(scat, pat=p1), 'nothing_where_table_has_value'), (dict(scat, pat=p2), 'value_where_table_is_blank'),
              (dict(scat, pat=p3), 'value_differs_from_table'), (dict(scat, out='raised'), 'tabulated_name_rejected'),
              (dict(scat, row=scat['row'] % 300 + 1), 'oracle_row_is_not_the_named_row'), (dict(scat, units_ok=False), 'wrong_unit'),
              (dict(scat, name_ok=False), 'isotope_field_is_not_the_query'),
              (dict(scat, **{'pass': 2, 'of': 2}), 'oracle_replay_is_not_the_same_case'),
              (dict(scat, **{'pass': 2, 'of': 0}), 'oracle_replay_is_not_the_same_case'),
              (dict(scat, **{'pass': 2, 'of': 1, 'pat': p3}), 'value_differs_from_table'),
              (dict(unknown, out='ok'), 'unknown_name_accepted'),
              (dict(elem, z=elem['z'] + 1), 'Z_differs_from_table'), (dict(elem, mpat=['m', 'm']), 'mass_for_an_element'),
              (dict(elem, wpat=['b', 'b']), 'no_weight_although_tabulated'),
              (dict(elem, wpat=['x', elem['wpat'][1]]), 'weight_differs_from_table'),
              (dict(iso, mpat=['b', 'b']), 'no_mass_for_an_isotope'), (dict(iso, mpat=['x', 'm']), 'mass_differs_from_table'),
              (dict(noweight, wpat=['m', 'm']), 'weight_where_none_is_tabulated'),
              (dict(mu, rel_ok=False), 'attenuation_differs_from_law'),
              (dict(mu, dim_ok=False), 'attenuation_is_not_an_inverse_length'),
              (dict(mu, raised=True), 'attenuation_raised'),
              (dict(mu, kept=False), 'wavelength_argument_modified'),
              (dict(mu, want=[mu['want'][0] + 1, mu['want'][1]]), 'oracle_attenuation_formula'),
              (dict(mu, wl_type='float16'), 'oracle_unknown_number_type'),
              (dict(mu, lay='3d'), 'oracle_unknown_layout'),
              (dict(mu, **{'pass': 2, 'of': 6, 'case': 7}), 'oracle_replay_is_not_the_same_case'),
              (dict(mu, **{'pass': 2, 'of': 6, 'lay': '1d', 'wl_type': 'int32', 'rel_ok': False}), 'attenuation_differs_from_law')]
    out = []
    for i, (b, _) in enumerate(cases):
        b = dict(b)
        b['tid'] = i
        out.append(b)
    tf = ctx.tmp / 'c20-control.ndjson'
    write_ndjson(tf, out)
    tr = ctx.tlc('atoms/Trace_AtomTables.tla', workers=1, env={'TRACE_FILE': str(tf), 'TABLES_FILE': full},
                 timeout=600, count=False)
    require_ok(ctx, tr, 'Trace_AtomTables (control)')
    got = {line: clause for _, line, _tid, clause in tr.tagged('REJECT')}
    for i, (_, want) in enumerate(cases):
        if got.get(i + 1, 'ok') != want:
            raise MachineryError(f'trace control: event {i + 1} expected {want}, TLC said {got.get(i + 1, "ok")}')
    ctx.extra['trace_control'] = (f'{len(cases)} synthetic events (independent of the implementation): '
                                  f'{sum(1 for _, w in cases if w == "ok")} accepted, the corrupted ones rejected with the expected clause')


def _near_class(name, tb, api):
    """Stable description of how an accepted unknown name relates to a tabulated one."""
    import re

    names = tb.scat if api == 'scat' else {**tb.weights, **tb.masses}
    other = {**tb.weights, **tb.masses} if api == 'scat' else tb.scat
    if name in other:
        return ('element or nuclide tabulated only in the weight / mass tables' if api == 'scat'
                else 'name tabulated only in the scattering table')
    if name.strip() != name and name.strip() in names:
        return 'blank added to a tabulated name'
    if name != name.strip() or ' ' in name:
        return 'name with blanks'
    low = {k.lower(): k for k in names}
    if name.lower() in low:
        return 'case variant of a tabulated name'
    m = re.fullmatch(r'\^?([A-Z][a-z]?)[-_]?(\d+)', name) or re.fullmatch(r'\^?(\d+)[-_]?([A-Z][a-z]?)', name)
    if m:
        a, b = m.group(1), m.group(2)
        iso = (b + a) if a[0].isalpha() else (a + b)
        if iso != name and iso in names:
            return 'other notation of a tabulated isotope'
    if any(k.startswith(name) for k in names):
        return 'proper prefix of a tabulated name'
    if any(name.startswith(k) for k in names):
        return 'tabulated name with characters appended'
    if any(name.endswith(k) for k in names):
        return 'tabulated name with characters prepended'
    return 'other'



META = {
    'design_ref': 'DESIGN.md §5 C20',
    'technique': 'TLA+ specification of the three bundled tables (constants read by TLC from a JSON export of the '
                 'CSV files) with declarative lookups, a memoising lookup state machine model-checked by TLC, '
                 'TLC-generated near-miss names replayed into the code, and every recorded lookup of all 4046 rows '
                 'judged by TLC against the tables; attenuation law as exact rational arithmetic',
    'text': 'TLC proves on a sub-table that, for every history of lookups over real names and all their near-miss '
            'names, the memoised linear-scan mechanism (element = letters after optional digits) answers exactly as '
            'the declarative definition (the row whose first column is exactly the name, else rejection), and checks on '
            'the full tables that names are unique, follow the element/isotope syntax, every isotope has its element, '
            'and Z equals the position in an independently written periodic table. Atom.for_isotope and '
            'ScatteringParams.for_isotope are then called for every row of the three tables (random order, repeats) '
            'and for every TLC-generated near-miss name (cut, extended, re-cased, other notations, neighbouring mass '
            'numbers, names of the other tables); each field is compared with float(text) of the CSV file '
            '(exact; variance = float(text)^2 to 1 ulp; unit; blank => None) and TLC judges every recorded lookup: '
            'tabulated or not, row identity, blank pattern per column, Z, mass only for isotopes, weight only where '
            'tabulated, rejection of every other name. Material.attenuation_coefficient is compared with '
            'n(sigma_s + sigma_a*lambda/1.7982 A) in exact rational arithmetic (1e-14) in several units, number types '
            '(float64, float32, int64, int32) and wavelength layouts (0-d, lists, transposed 2-d), with repeated use of '
            'the same objects; a sample of all cases is evaluated a second time at the end of the run.',
    'note': 'Trusted: TLC, Python\'s csv/float parsing, scipp unit conversion to 1/m. float(text) equality and the '
            '1e-14 closeness are evaluated by the harness (TLC has no floats) and handed to TLC as letters/booleans. '
            'Sharing of cached mutable objects is C09, not checked here.',
}
