-------------------------- MODULE Growth_ChopperSvg --------------------------
(* The tracer of _svg.py as a state machine ("mimic an SVG path in that they maintain a state   *)
(* that gets updated with every segment": pen angle, rim or slit depth).  Slits are visited in  *)
(* the order of their begin angle; MoveTo the first begin, then per slit EdgeIn, ArcToEnd,      *)
(* EdgeOut and ArcToNextBegin, finally CloseTurn back to the start one turn later.              *)
EXTENDS Growth_ChopperSvgDefs

CONSTANTS K, SlitSets, Bug      \* Bug: "none" | "unsorted" | "smallarcs"

VARIABLES slits,    \* as given (order = label index)
          todo,     \* indices still to be traced, in tracing order
          angle,    \* pen angle in ticks (not reduced mod K)
          inner, path, marks, pc
vars == <<slits, todo, angle, inner, path, marks, pc>>

RECURSIVE OrderByBegin(_, _)
OrderByBegin(sl, I) ==
    IF I = {} THEN <<>>
    ELSE LET m == CHOOSE i \in I : \A j \in I : sl[i][1] < sl[j][1] \/ (sl[i][1] = sl[j][1] /\ i <= j)
         IN <<m>> \o OrderByBegin(sl, I \ {m})
Order(sl) == IF Bug = "unsorted" THEN [ i \in 1..Len(sl) |-> i ] ELSE OrderByBegin(sl, 1..Len(sl))

Large(from, to) == IF Bug = "smallarcs" THEN FALSE ELSE 2 * (to - from) > K

Init == /\ slits \in SlitSets /\ todo = Order(slits)
        /\ angle = 0 /\ inner = FALSE /\ path = <<>> /\ marks = <<>> /\ pc = "move"

MoveTo == /\ pc = "move"
          /\ IF todo = <<>> THEN pc' = "done" /\ UNCHANGED <<angle, path>>
             ELSE /\ angle' = slits[todo[1]][1] /\ path' = << <<"M", angle'>> >> /\ pc' = "in"
          /\ UNCHANGED <<slits, todo, inner, marks>>

EdgeIn == /\ pc = "in"
          /\ inner' = TRUE /\ path' = Append(path, <<"L", angle, TRUE>>)
          /\ marks' = Append(marks, <<"begin", todo[1] - 1, angle % K>>)
          /\ pc' = "arc" /\ UNCHANGED <<slits, todo, angle>>

ArcToEnd == /\ pc = "arc"
            /\ angle' = slits[todo[1]][2]
            /\ path' = Append(path, <<"A", angle', TRUE, Large(angle, angle')>>)
            /\ pc' = "out" /\ UNCHANGED <<slits, todo, inner, marks>>

EdgeOut == /\ pc = "out"
           /\ inner' = FALSE /\ path' = Append(path, <<"L", angle, FALSE>>)
           /\ marks' = Append(marks, <<"end", todo[1] - 1, angle % K>>)
           /\ todo' = Tail(todo)
           /\ pc' = IF Len(todo) = 1 THEN "close" ELSE "next"
           /\ UNCHANGED <<slits, angle>>

ArcToNextBegin == /\ pc = "next"
                  /\ angle' = slits[todo[1]][1]
                  /\ path' = Append(path, <<"A", angle', FALSE, Large(angle, angle')>>)
                  /\ pc' = "in" /\ UNCHANGED <<slits, todo, inner, marks>>

CloseTurn == /\ pc = "close"
             /\ LET start == path[1][2]
                    to == IF start < angle THEN start + K ELSE start
                IN angle' = to /\ path' = Append(path, <<"A", to, FALSE, Large(angle, to)>>)
             /\ pc' = "done" /\ UNCHANGED <<slits, todo, inner, marks>>

Next == MoveTo \/ EdgeIn \/ ArcToEnd \/ EdgeOut \/ ArcToNextBegin \/ CloseTurn
Spec == Init /\ [][Next]_vars

Drawn == pc = "done" /\ Len(slits) > 0
PathWellFormed   == Drawn => WellFormedPath(path) /\ DepthConsistent(path)
SlitsAreDrawn    == Drawn => InnerArcsAreTheSlits(path, slits, K) /\ OuterArcsAreTheRest(path, slits, K)
OneTurn          == Drawn => ExactlyOneTurn(path, K)
FlagsRight       == Drawn => LargeFlagsRight(path, K)
MarksAtTheEdges  == Drawn => MarksRight(marks, slits, K)
NothingForNoSlit == (pc = "done" /\ Len(slits) = 0) => path = <<>> /\ marks = <<>>
EmitCase == pc = "done" => PrintT(<<"SVGCASE", slits, path, marks>>)
=============================================================================
