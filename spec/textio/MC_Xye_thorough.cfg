SPECIFICATION Spec
CONSTANTS
  MaxHeader = 4
  MaxRows = 4
  Part = "all"
  Bug = "none"
INVARIANT TypeOK
INVARIANT TableTotalExclusive
INVARIANT RefusedNotLossy
INVARIANT RefusalIffUnwritable
INVARIANT FileWellFormed
INVARIANT RoundTrip
CHECK_DEADLOCK FALSE
