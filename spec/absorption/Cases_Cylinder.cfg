
