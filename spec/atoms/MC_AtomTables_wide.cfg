SPECIFICATION Spec
CONSTANTS
  Universe <- MC_UniverseLarge
  MaxHist = 1
  Bug = "none"
INVARIANT SameAsDeclarative
INVARIANT NeverAnotherRow
INVARIANT MassOnlyForIsotopes
INVARIANT CacheFaithful
CHECK_DEADLOCK FALSE
