SPECIFICATION Spec
CONSTANTS
  DetOrders <- MC_DetOrdersThorough
  SizeChoices = {1, 2, 3}
  WlDims = {"wavelength", "a"}
  WlSizes = {0, 1, 2, 3}
  Bug = "none"
INVARIANT ResultWellFormed
INVARIANT LabelsAreInputLabels
INVARIANT ExtentsAreInputExtents
INVARIANT ValuesSitAtTheirLabels
INVARIANT EveryPairOnce
INVARIANT DirectAndChunkedAgree
INVARIANT FlatMaterialSlicesEqual
INVARIANT OnlyValidInputsComputed
CHECK_DEADLOCK FALSE
