SPECIFICATION Spec
CONSTANTS
  Quats <- MC_Quats_quick
  Bs <- MC_Bs
  Hkls <- MC_Hkls_quick
  Bug = "stale_rotation"
INVARIANT NonSingular
INVARIANT HklInverse
INVARIANT UBProduct
INVARIANT RotationKeepsNorm
INVARIANT Lossless
CHECK_DEADLOCK FALSE
