SPECIFICATION ESpec
CONSTANTS
  K = 12
  MaxSlits = 3
  BeamPos = {0, 5}
  Phases <- MC_Phases12
  Ratios <- MC_Ratios
  MaxPulses = 4
  Stride = 41
  SlitStride = 23
