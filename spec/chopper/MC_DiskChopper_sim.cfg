SPECIFICATION Spec
CONSTANTS
  K = 360
  MaxSlits = 6
  BeamPos <- MC_BeamSim
  Phases <- MC_PhasesSim
  Ratios <- MC_Ratios
  MinPulses = 1
  MaxPulses = 4
  MaxTurns = 16
  Again = FALSE
  Pick = 3
  Bug = "none"
INVARIANT TypeOK
INVARIANT RejectedIffOverlap
INVARIANT ValidationIgnoresListingOrder
INVARIANT RefusedIffOutOfPhase
INVARIANT OpenBeforeClose
INVARIANT MaximalOpen
INVARIANT OncePerRotation
INVARIANT NoneMissing
INVARIANT DurationIsWidth
INVARIANT ExpandOnePulse
CHECK_DEADLOCK FALSE
