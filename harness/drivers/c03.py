"""C03 — straight-beamline geometry equals its Euclidean definition; 2theta is stable.

Spec: spec/conv/Lattice.tla (exact vector algebra, 24 lattice rotations, angle classes),
BeamlineDefs.tla (beams, exact squared lengths, group actions as operators, near-degenerate dyadic
families), Beamline.tla (state machine over a lattice box: rotations / translations / rescalings /
swap as actions; invariance and range as action properties and invariants), BeamlineCases.tla
(constant-level export of replay cases), Trace_Beamline.tla (judge of recorded executions).

1. TLC, exhaustive: angle class invariant under every group action, lengths transform as Euclidean
   lengths, Cauchy-Schwarz/Lagrange (0 <= 2theta <= pi, end points), law of cosines between the two
   Ltotal definitions.  Two negative controls (sign slip of the scattered beam; rescaling that is
   not a similarity) must be rejected.
2. spec -> code (M1): TLC writes every (base configuration, transformation) pair with the exact
   integers (L1^2, L2^2, |det-src|^2, b1.b2, |b1xb2|^2) of both sides, and the near-degenerate
   dyadic families with their exact symbolic terms.  The driver replays each into the kernels of
   conversion.beamline and the scippneutron.L1/L2/Ltotal/two_theta/incident_beam/scattered_beam
   accessors at power-of-two scales (norms 1e-6..1e6) and several length units, as per-pixel arrays
   and (sub-sampled) as scalars.
3. code -> spec (M2): seeded random float vectors / positions far outside the lattice (generic,
   nearly parallel, nearly antiparallel, nearly perpendicular, exactly degenerate).  Every float is a
   dyadic rational, so the same oracle is exact for them.
4. Every replayed case is written as one NDJSON event and judged by TLC (Trace_Beamline): for
   lattice cases TLC recomputes the transformed configuration and the exact integers with the
   spec's operators from what the harness *fed to the code* and compares them with what the harness
   *used as reference*.

What TLC cannot decide (no reals): the last step 2theta = atan2(sqrt(cross2), dot) and L = sqrt(n).
The driver evaluates them with mpmath (60 digits) from the spec's exact integers / the exact
rational products of the floats, measures |code - exact| and hands the error to TLC as an integer
number of 1e-16 rad (angles) or 2^-53 (relative, lengths).  Tolerances: 2theta 3e-15 rad absolute
(DESIGN 3.4: "about 1e-15" read as < 7 ulp(pi)); lengths 4 eps relative (norm = 3 products, 2
sums, 1 sqrt: <= 2.5 eps; Ltotal adds one rounding).  The exact products of the near-degenerate
families (2^-80) exceed TLC's 32-bit integers: TLC supplies the small integer terms, the driver
assembles them with Python integers and checks them against the rational products of the floats it
actually passed.  scipp vectors are float64 only; float32 occurs only in total_beam_length(L1, L2)
(float32 + float32, and mixed float32 / float64 operands judged at float32 accuracy).

Hardening round (HARDENING.md items 2, 4-9, 11):
5. Layouts (BeamlineDefs!Layouts / Element, exported by BeamlineCases as "lay" records, judged by
   Trace_Beamline!JudgeLay): every layout x shared record x pixel record; the shared roles are passed as 0-d
   variables, the others per pixel in the memory arrangements BeamlineDefs!Memories (flat, strided, 2-d grid,
   2-d grid whose operands list y, x in different orders); accessors on DataArray and Dataset; the
   coordinate graph of conversion.graph.beamline with all intermediate coordinates kept, and its
   single-purpose graphs; two_theta with the two beams in different length units; operands compared
   bit-for-bit after the calls.  Random float "instruments" in the mixed layouts with the shared sample
   1e-10..1e-8 from the origin ("rlay").  Every call is wrapped on its own (first failing call named).
6. Homogeneous batches: the near-degenerate families are evaluated one call per (scale, unit, family, end of
   the range, length ratio) so that predicates over a whole operand (allclose / all / any) become true; a
   sub-sample of lattice pairs and family members is evaluated as 0-d variables.
7. Second use: a sample of all cases is evaluated again at the end in shuffled order; the result objects of
   one batch are held while a second batch of the same shape runs and only then judged.
Results of the wrong shape and non-finite results are verdicts (result_has_wrong_shape, 2^30 error units).
"""

from __future__ import annotations

import json
import math
import os
from fractions import Fraction

import numpy as np
import scipp as sc

from .. import lib_geom as G
from ..core import MachineryError
from ..tlc import require_ok, write_ndjson

RULE = ('lattice configurations (source, sample, detector) x {24 rotations, translations, beam '
        'rescalings, swap} replayed at power-of-two scales 2^-19..2^16 and units m/mm/angstrom/km; '
        'dyadic near-degenerate families b2 = +-k b1 + 2^-e p and b2 = q + 2^-e p (q.b1 = 0), '
        'e in {20,30,40}; seeded random float vectors with norms 1e-6..1e6; layouts (shared 0-d / per-pixel '
        'operands, strided / 2-d / mixed dim order, DataArray / Dataset, coordinate graphs); second use.  Non-trivial = both '
        'beams non-zero and the kernels returned; identity = (family, integers, scale, unit).')

# TLC workers: the small models do not scale beyond ~8; VERIF_TLC_WORKERS lowers it on shared machines
WORKERS = min(8, int(os.environ.get('VERIF_TLC_WORKERS', '8') or 8))
ANG_UNIT = 1e-16
ANG_TOL = 30
LEN_TOL = 8
UNITS = ('m', 'mm', 'angstrom', 'km')
SCALES = (0, -19, 10, -10, 16)


# ------------------------------------------------------------------------------ measuring
def _ang_units(got, refs):
    """|got - ref| in units of 1e-16 rad, rounded up.  Fast float estimate (upper bound: +3 units
    for the rounding of the reference to a float), exact mpmath evaluation wherever that estimate
    comes near the tolerance."""
    got = np.asarray(got, dtype='float64')
    reff = np.array([float(r) for r in refs])
    with np.errstate(invalid='ignore'):
        est = np.ceil(np.abs(got - reff) / ANG_UNIT) + 3
    out = np.empty(len(got), dtype='int64')
    for i in range(len(got)):
        if not math.isfinite(got[i]):
            out[i] = 2**30
        elif est[i] > 20:
            out[i] = G.units_of(G.mpf(float(got[i])) - refs[i], ANG_UNIT)
        else:
            out[i] = int(est[i])
    return out


def _len_units(got, refs):
    """relative error of lengths in units of 2^-53 (same fast/exact scheme)."""
    got = np.asarray(got, dtype='float64')
    out = np.empty(len(got), dtype='int64')
    for i in range(len(got)):
        r = refs[i]
        g = float(got[i])
        if not math.isfinite(g):
            out[i] = 2**30
            continue
        if r == 0:
            out[i] = 0 if g == 0 else 2**30
            continue
        rf = float(r)
        est = math.ceil(abs(g - rf) / (rf * 2.0 ** -53)) + 1
        out[i] = est if est <= 5 else G.relerr_units(g, r)
    return out


def _vecs(values, unit):
    return sc.vectors(dims=['pixel'], values=np.asarray(values, dtype='float64'), unit=unit)


def _call_all(src, smp, det, unit, scalar=False):
    """Call every kernel and accessor of the property on one batch; returns dict of numpy arrays
    (or raises whatever the implementation raises)."""
    import scippneutron as scn
    from scippneutron.conversion import beamline as bl

    if scalar:
        S, M, D = (sc.vector(np.asarray(v, dtype='float64'), unit=unit) for v in (src, smp, det))
    else:
        S, M, D = _vecs(src, unit), _vecs(smp, unit), _vecs(det, unit)
    b1 = bl.straight_incident_beam(source_position=S, sample_position=M)
    b2 = bl.straight_scattered_beam(position=D, sample_position=M)
    l1 = bl.L1(incident_beam=b1)
    l2 = bl.L2(scattered_beam=b2)
    lt = bl.total_beam_length(L1=l1, L2=l2)
    lns = bl.total_straight_beam_length_no_scatter(source_position=S, position=D)
    tt = bl.two_theta(incident_beam=b1, scattered_beam=b2)
    tsw = bl.two_theta(incident_beam=b2, scattered_beam=b1)
    data = sc.scalar(1.0) if scalar else sc.ones(dims=['pixel'], shape=[len(src)])
    da = sc.DataArray(data, coords={'source_position': S, 'sample_position': M, 'position': D})
    a_b1, a_b2 = scn.incident_beam(da), scn.scattered_beam(da)
    a_l1, a_l2 = scn.L1(da), scn.L2(da)
    a_lt, a_lns = scn.Ltotal(da, scatter=True), scn.Ltotal(da, scatter=False)
    a_tt = scn.two_theta(da)
    lens = (l1, l2, lt, lns, a_l1, a_l2, a_lt, a_lns)
    unit_ok = (all(v.unit == sc.Unit(unit) and v.dtype == sc.DType.float64 for v in lens)
               and all(v.unit == sc.Unit(unit) and v.dtype == sc.DType.vector3 for v in (b1, b2, a_b1, a_b2))
               and all(v.unit == sc.Unit('rad') and v.dtype == sc.DType.float64 for v in (tt, tsw, a_tt)))

    def arr(v):
        return np.atleast_1d(v.values) if v.dtype != sc.DType.vector3 else np.asarray(v.values).reshape(-1, 3)

    return {'b1': arr(b1), 'b2': arr(b2), 'l1': arr(l1), 'l2': arr(l2), 'lt': arr(lt), 'lns': arr(lns),
            'tt': arr(tt), 'tsw': arr(tsw), 'a_b1': arr(a_b1), 'a_b2': arr(a_b2), 'a_l1': arr(a_l1),
            'a_l2': arr(a_l2), 'a_lt': arr(a_lt), 'a_lns': arr(a_lns), 'a_tt': arr(a_tt),
            'unit_ok': bool(unit_ok)}


_BAD = {'returned': False, 'shape_ok': False, 'beams_exact': False, 'unit_ok': False, 'e_len': 0, 'inrange': False,
        'e_tt': 0, 'e_sw': 0, 'e_acc': 0, 'e_acclen': 0}
_SCALAR_KEYS = ('l1', 'l2', 'lt', 'lns', 'tt', 'tsw', 'a_l1', 'a_l2', 'a_lt', 'a_lns', 'a_tt')
_VECTOR_KEYS = ('b1', 'b2', 'a_b1', 'a_b2')


def _call(ctx, src, smp, det, unit, what, scalar=False):
    """Run the kernels / accessors on a batch; None (and a violation) if the implementation raised."""
    n = len(src)
    try:
        if scalar:
            parts = [_call_all(src[i], smp[i], det[i], unit, scalar=True) for i in range(n)]
            return {k: (np.concatenate([p[k] for p in parts]) if k != 'unit_ok' else all(p[k] for p in parts))
                    for k in parts[0]}
        return _call_all(src, smp, det, unit)
    except Exception as e:  # noqa: BLE001
        ctx.violation(f'beamline kernels raised {type(e).__name__} ({what})',
                      {'exc': repr(e), 'src': np.asarray(src)[:2], 'smp': np.asarray(smp)[:2],
                       'det': np.asarray(det)[:2], 'unit': unit})
        return None


def _shapes_ok(r, n):
    return all(np.shape(r[k]) == (n,) for k in _SCALAR_KEYS) and all(np.shape(r[k]) == (n, 3) for k in _VECTOR_KEYS)


def _judge_r(r, n, eb1, eb2, ref_len, ref_ang):
    """Project every element of a batch result to the integer observation record of the trace events.
    eb1/eb2: expected beams (float arrays, exact), ref_len: per element tuple of exact (L1, L2, Lns)
    as mpf, ref_ang: exact angle as mpf.  Results of the wrong shape and non-finite results become
    verdicts (shape_ok / 2^30 error units), never an exception of the driver."""
    if r is None:
        return [dict(_BAD) for _ in range(n)]
    if not _shapes_ok(r, n):
        return [dict(_BAD, returned=True) for _ in range(n)]
    beams_ok = ((r['b1'] == eb1).all(axis=1) & (r['b2'] == eb2).all(axis=1)
                & (r['a_b1'] == eb1).all(axis=1) & (r['a_b2'] == eb2).all(axis=1))
    rl1 = [t[0] for t in ref_len]
    rl2 = [t[1] for t in ref_len]
    rlt = [t[0] + t[1] for t in ref_len]
    rln = [t[2] for t in ref_len]
    e_len = np.maximum.reduce([_len_units(r['l1'], rl1), _len_units(r['l2'], rl2),
                               _len_units(r['lt'], rlt), _len_units(r['lns'], rln)])
    e_acclen = np.maximum.reduce([_len_units(r['a_l1'], rl1), _len_units(r['a_l2'], rl2),
                                  _len_units(r['a_lt'], rlt), _len_units(r['a_lns'], rln)])
    e_tt = _ang_units(r['tt'], ref_ang)
    e_sw = _ang_units(r['tsw'], ref_ang)
    e_acc = _ang_units(r['a_tt'], ref_ang)
    pi_up = math.nextafter(math.pi, 4.0)  # float(pi) < pi < pi_up: results may round up to pi_up
    inr = np.array([(0.0 <= v <= pi_up) for arr_ in (r['tt'], r['tsw'], r['a_tt']) for v in arr_]
                   ).reshape(3, n).all(axis=0)
    return [{'returned': True, 'shape_ok': True, 'beams_exact': bool(beams_ok[i]), 'unit_ok': bool(r['unit_ok']),
             'e_len': int(e_len[i]), 'inrange': bool(inr[i]), 'e_tt': int(e_tt[i]), 'e_sw': int(e_sw[i]),
             'e_acc': int(e_acc[i]), 'e_acclen': int(e_acclen[i])} for i in range(n)]


def _observe(ctx, src, smp, det, unit, eb1, eb2, ref_len, ref_ang, what, scalar=False):
    r = _call(ctx, src, smp, det, unit, what, scalar=scalar)
    obs = _judge_r(r, len(src), eb1, eb2, ref_len, ref_ang)
    if r is not None and not obs[0]['shape_ok']:
        r = None
    return obs, r


class _Pool:
    """A sample of evaluated cases (inputs + oracle values) kept for the second-use pass at the end."""

    def __init__(self):
        self.items = []

    def add(self, first, unit, src, smp, det, eb1, eb2, ref_len, ref_ang):
        self.items.append({'first': first, 'unit': unit, 'src': np.array(src), 'smp': np.array(smp),
                           'det': np.array(det), 'eb1': np.array(eb1), 'eb2': np.array(eb2),
                           'ref_len': ref_len, 'ref_ang': ref_ang})


# ------------------------------------------------------------------------------ lattice pairs
class _Refs:
    """mpmath references cached by the exact integers of the spec."""

    def __init__(self):
        self.sq = {}
        self.ang = {}

    def sqrt(self, n):
        v = self.sq.get(n)
        if v is None:
            v = self.sq[n] = G.mp_sqrt(n)
        return v

    def angle(self, d, c2):
        key = (d, c2)
        v = self.ang.get(key)
        if v is None:
            v = self.ang[key] = G.angle_from_pair(d, c2)
        return v


def _int_exact(c):
    """The harness' own exact integers of a configuration (numpy int64), independent of TLC's."""
    src, smp, det = (np.asarray(c[k], dtype='int64') for k in ('src', 'smp', 'det'))
    b1, b2 = smp - src, det - smp
    cr = np.cross(b1, b2)
    return {'n1': int(b1 @ b1), 'n2': int(b2 @ b2), 'nns': int((det - src) @ (det - src)),
            'dot': int(b1 @ b2), 'cr2': int(cr @ cr)}


def _pick_scale(i, c, c2):
    mx = max(max(abs(x) for v in cc.values() for x in v) for cc in (c, c2))
    for k in range(len(SCALES)):
        s = SCALES[(i + k) % len(SCALES)]
        if mx * 2.0 ** s * 1.7321 <= 1.0e6:
            return s
    return 0


def _replay_pairs(ctx, pairs, refs, events, pool):
    groups = {}
    for i, rec in enumerate(pairs):
        s = _pick_scale(i, rec['c'], rec['c2'])
        unit = UNITS[(i // len(SCALES)) % len(UNITS)]
        groups.setdefault((s, unit), []).append((i, rec))
    worst = 0
    for (s, unit), items in sorted(groups.items()):
        f = 2.0 ** s
        sides = []
        for side in ('c', 'c2'):
            cs = [rec[side] for _, rec in items]
            xs = [_int_exact(c) for c in cs]
            src = np.array([c['src'] for c in cs], dtype='float64') * f
            smp = np.array([c['smp'] for c in cs], dtype='float64') * f
            det = np.array([c['det'] for c in cs], dtype='float64') * f
            eb1 = (np.array([c['smp'] for c in cs]) - np.array([c['src'] for c in cs])).astype('float64') * f
            eb2 = (np.array([c['det'] for c in cs]) - np.array([c['smp'] for c in cs])).astype('float64') * f
            mf = G.mpf(2) ** s
            ref_len = [(refs.sqrt(x['n1']) * mf, refs.sqrt(x['n2']) * mf, refs.sqrt(x['nns']) * mf) for x in xs]
            ref_ang = [refs.angle(x['dot'], x['cr2']) for x in xs]
            obs, r = _observe(ctx, src, smp, det, unit, eb1, eb2, ref_len, ref_ang, f'lattice pair, unit {unit}')
            sides.append((xs, obs, r, src, smp, det, ref_ang))
            if side == 'c2':
                # the same transformed configurations once more as 0-d variables (a sub-sample): predicates
                # over a whole operand (allclose, all, any) behave differently on a single element
                idx = [j for j, (i, _) in enumerate(items) if i % 211 == 0]
                if idx:
                    sobs, _ = _observe(ctx, src[idx], smp[idx], det[idx], unit, eb1[idx], eb2[idx],
                                       [ref_len[j] for j in idx], [ref_ang[j] for j in idx],
                                       f'lattice configuration as scalars, unit {unit}', scalar=True)
                    for k, j in enumerate(idx):
                        rec = items[j][1]
                        events.append({'ev': 'again', 'tid': len(events), 'first': 'pair', 'how': 'scalar', 'unit': unit,
                                       'o': sobs[k], 'in': {'c': rec['c2'], 's': s}})
                        ctx.case(nontrivial_id=('pair-scalar', items[j][0]) if sobs[k]['returned'] else None)
                for j, (i, _) in enumerate(items):
                    if i % 53 == 7:
                        pool.add('pair', unit, src[j], smp[j], det[j], eb1[j], eb2[j], ref_len[j], ref_ang[j])
        (xs1, o1, r1, *_), (xs2, o2, r2, *_) = sides
        for j, (i, rec) in enumerate(items):
            if r1 is not None and r2 is not None:
                d = abs(float(r1['tt'][j]) - float(r2['tt'][j]))
                d_tt = int(math.ceil(d / ANG_UNIT)) if math.isfinite(d) else 2**30
            else:
                d_tt = 0
            worst = max(worst, o1[j]['e_tt'], o2[j]['e_tt'])
            events.append({'ev': 'pair', 'tid': len(events), 'act': rec['act'], 'p': rec['p'], 'c': rec['c'],
                           'c2': rec['c2'], 'x': xs1[j], 'x2': xs2[j], 's': s, 'unit': unit,
                           'o': o1[j], 'o2': o2[j], 'd_tt': d_tt})
            ok = o1[j]['returned'] and o2[j]['returned']
            ctx.case(nontrivial_id=('pair', rec['act'], str(rec['p']), str(rec['c']), s, unit) if ok else None)
    return worst


# ------------------------------------------------------------------------------ near-degenerate
def _replay_near(ctx, nears, events, pool):
    worst = 0
    groups = {}
    for i, rec in enumerate(nears):
        s = SCALES[i % len(SCALES)]
        unit = UNITS[(i // 3) % len(UNITS)]
        # one call per (scale, unit, family, end of the range, length ratio): every batch is homogeneous (all
        # its pixels nearly parallel with equal lengths, all nearly antiparallel, ...), so a shortcut taken
        # when a predicate holds for the WHOLE operand is taken here
        groups.setdefault((s, unit, rec['fam'], rec['sgn'], rec['k']), []).append(rec)
    for gi, ((s, unit, _fam, _sgn, _k), items) in enumerate(sorted(groups.items())):
        f = 2.0 ** s
        n = len(items)
        src = np.zeros((n, 3))
        smp = np.zeros((n, 3))
        det = np.zeros((n, 3))
        ref_len, ref_ang, terms_ok = [], [], []
        eb1_rows, eb2_rows = [], []
        for j, rec in enumerate(items):
            b1 = [int(x) for x in rec['b1']]
            e = int(rec['e'])
            if rec['fam'] == 'par':
                b2 = [Fraction(rec['sgn'] * rec['k'] * b1[a]) + Fraction(int(rec['p'][a]), 2**e) for a in range(3)]
            else:
                b2 = [Fraction(int(rec['q'][a])) + Fraction(int(rec['p'][a]), 2**e) for a in range(3)]
            b2f = [float(x) for x in b2]
            if any(Fraction(x) != y for x, y in zip(b2f, b2)):
                raise MachineryError(f'dyadic family member not representable: {rec}')
            # sample off the origin for every other member (exactly representable translation)
            off = [Fraction(3), Fraction(-2), Fraction(1)] if j % 2 else [Fraction(0)] * 3
            det_fr = [off[a] + b2[a] for a in range(3)]
            detf = [float(x) for x in det_fr]
            if any(Fraction(x) != y for x, y in zip(detf, det_fr)):
                raise MachineryError(f'translated dyadic family member not representable: {rec}')
            smp[j] = np.array([float(x) for x in off]) * f
            src[j] = np.array([float(off[a] - b1[a]) for a in range(3)]) * f
            det[j] = np.array(detf) * f
            eb1_rows.append(np.array(b1, dtype='float64') * f)
            eb2_rows.append(np.array(b2f) * f)
            # exact products of the floats actually passed (harness side) ...
            d, c2 = G.exact_pair([Fraction(x) for x in b1], b2)
            # ... must equal the spec's symbolic terms
            t = rec['t']
            d_spec = Fraction(t['d0']) + Fraction(t['d1'], 2**e)
            c_spec = Fraction(t['c0']) + Fraction(t['c1'], 2**e) + Fraction(t['c2'], 4**e)
            terms_ok.append(d == d_spec and c2 == c_spec)
            ref_ang.append(G.angle_from_pair(d, c2))
            mf = G.mpf(2) ** s
            nb2 = sum(x * x for x in b2)
            nns = sum((Fraction(b1[a]) + b2[a]) ** 2 for a in range(3))
            ref_len.append((G.mp_sqrt(sum(x * x for x in b1)) * mf, G.mp_sqrt(nb2) * mf, G.mp_sqrt(nns) * mf))
        eb1 = np.array(eb1_rows)
        eb2 = np.array(eb2_rows)
        obs, r = _observe(ctx, src, smp, det, unit, eb1, eb2, ref_len, ref_ang, f'near-degenerate family, unit {unit}')
        idx = list(range(gi % 7, n, 29)) or [0]
        sobs, _ = _observe(ctx, src[idx], smp[idx], det[idx], unit, eb1[idx], eb2[idx], [ref_len[j] for j in idx],
                           [ref_ang[j] for j in idx], f'near-degenerate family as scalars, unit {unit}', scalar=True)
        for k, j in enumerate(idx):
            events.append({'ev': 'again', 'tid': len(events), 'first': 'near', 'how': 'scalar', 'unit': unit, 'o': sobs[k],
                           'in': {'rec': items[j], 's': s}})
            ctx.case(nontrivial_id=('near-scalar', gi, j) if sobs[k]['returned'] else None)
        for j in range(gi % 11, n, 17):
            pool.add('near', unit, src[j], smp[j], det[j], eb1[j], eb2[j], ref_len[j], ref_ang[j])
        for j, rec in enumerate(items):
            if r is not None:
                v = float(r['tt'][j])
                side = 'zero' if v < 1e-3 else 'pi' if v > math.pi - 1e-3 else 'halfpi' if abs(v - math.pi / 2) < 1e-3 else 'other'
            else:
                side = 'other'
            worst = max(worst, obs[j]['e_tt'])
            events.append({'ev': 'near', 'tid': len(events), 'fam': rec['fam'], 'b1': rec['b1'], 'k': rec['k'],
                           'sgn': rec['sgn'], 'q': rec['q'], 'p': rec['p'], 'e': rec['e'], 't': rec['t'],
                           'terms_ok': bool(terms_ok[j]), 's': s, 'unit': unit, 'o': obs[j], 'side': side})
            ctx.case(nontrivial_id=('near', rec['fam'], str(rec['b1']), rec['k'], rec['sgn'], str(rec['q']),
                                    str(rec['p']), rec['e'], s) if obs[j]['returned'] else None)
    return worst


# ------------------------------------------------------------------------------ random floats (M2)
def _rand_unit(rng):
    while True:
        v = np.array([rng.gauss(0, 1) for _ in range(3)])
        n = np.linalg.norm(v)
        if n > 1e-3:
            return v / n


def _rand_norm(rng):
    return 10.0 ** rng.uniform(-6, 6)


def _gen_random(rng, n):
    """(src, smp, det) float triples; the beams are whatever float subtraction gives."""
    out = []
    for i in range(n):
        kind = i % 8
        u = _rand_unit(rng) * _rand_norm(rng)
        if kind in (0, 1):  # generic
            w = _rand_unit(rng) * _rand_norm(rng)
        elif kind == 2:  # nearly parallel
            w = u * 10.0 ** rng.uniform(-2, 2) + _rand_unit(rng) * np.linalg.norm(u) * 10.0 ** rng.uniform(-14, -4)
        elif kind == 3:  # nearly antiparallel
            w = -u * 10.0 ** rng.uniform(-2, 2) + _rand_unit(rng) * np.linalg.norm(u) * 10.0 ** rng.uniform(-14, -4)
        elif kind == 4:  # nearly perpendicular
            r = _rand_unit(rng)
            r = r - (r @ u) / (u @ u) * u
            w = r * _rand_norm(rng)
            w = w + u / np.linalg.norm(u) * np.linalg.norm(w) * 10.0 ** rng.uniform(-15, -6) * rng.choice([-1, 1])
        elif kind == 5:  # exactly parallel / antiparallel (power-of-two multiple: exact)
            w = u * rng.choice([1.0, -1.0, 0.5, -4.0, 2.0 ** 10, -(2.0 ** -7)])
        elif kind == 6:  # axis-aligned, mixed magnitudes inside one vector
            u = np.array([rng.choice([0.0, 1.0, -1.0]) for _ in range(3)]) * _rand_norm(rng)
            if not u.any():
                u = np.array([0.0, 0.0, 1.0])
            w = _rand_unit(rng) * _rand_norm(rng)
        else:  # tiny + huge components
            w = np.array([rng.uniform(-1, 1) * 10.0 ** rng.uniform(-6, 6) for _ in range(3)])
        if not (1e-6 <= np.linalg.norm(u) <= 1e6 and 1e-6 <= np.linalg.norm(w) <= 1e6):
            u = _rand_unit(rng) * 10.0 ** rng.uniform(-5, 5)
            w = _rand_unit(rng) * 10.0 ** rng.uniform(-5, 5)
        # positions: sample at the origin (beams are then exactly u and w) or at an offset
        if i % 50 == 0:
            # a sample a hair away from the origin of the coordinate system, next to a small beamline:
            # "almost at the origin" is not "at the origin" (these indices are also replayed as scalars)
            smp = _rand_unit(rng) * 10.0 ** rng.uniform(-10, -8)
            u = _rand_unit(rng) * 10.0 ** rng.uniform(-6, -4)
            w = _rand_unit(rng) * 10.0 ** rng.uniform(-6, -4)
        elif i % 3 == 0:
            smp = _rand_unit(rng) * 10.0 ** rng.uniform(-3, 3)
        else:
            smp = np.zeros(3)
        src = smp - u
        det = smp + w
        out.append((src, smp, det))
    return out


def _replay_random(ctx, n, events, pool, scalar_every=25):
    rng = ctx.rng
    triples = _gen_random(rng, n)
    worst = 0
    for b0 in range(0, n, 500):
        chunk = triples[b0:b0 + 500]
        unit = UNITS[(b0 // 500) % len(UNITS)]
        src = np.array([t[0] for t in chunk])
        smp = np.array([t[1] for t in chunk])
        det = np.array([t[2] for t in chunk])
        # expected beams: the correctly rounded differences of the exact rationals
        eb1 = np.array([[float(Fraction(float(m)) - Fraction(float(s))) for m, s in zip(mm, ss)] for mm, ss in zip(smp, src)])
        eb2 = np.array([[float(Fraction(float(d)) - Fraction(float(m))) for d, m in zip(dd, mm)] for dd, mm in zip(det, smp)])
        ref_len, ref_ang, keep = [], [], []
        for j in range(len(chunk)):
            u, w = G.fvec(eb1[j]), G.fvec(eb2[j])
            if not any(u) or not any(w):
                keep.append(False)
                ref_len.append((G.mpf(1),) * 3)
                ref_ang.append(G.mpf(0))
                continue
            keep.append(True)
            d, c2 = G.dot(u, w), G.norm2(G.cross(u, w))
            ref_ang.append(G.angle_from_pair(d, c2))
            # Lns: from the positions themselves, |det - src| with the float difference the
            # kernel forms (one rounding per component, exactly representable reference)
            ds = [Fraction(float(Fraction(float(a)) - Fraction(float(b)))) for a, b in zip(det[j], src[j])]
            ref_len.append((G.mp_sqrt(G.norm2(u)), G.mp_sqrt(G.norm2(w)), G.mp_sqrt(sum(x * x for x in ds))))
        obs, r = _observe(ctx, src, smp, det, unit, eb1, eb2, ref_len, ref_ang, f'random floats, unit {unit}')
        for j in range(len(chunk)):
            if not keep[j]:
                continue
            if j % 4 == 1:
                pool.add('rand', unit, src[j], smp[j], det[j], eb1[j], eb2[j], ref_len[j], ref_ang[j])
            worst = max(worst, obs[j]['e_tt'])
            events.append({'ev': 'rand', 'tid': len(events), 'shape': 'array', 'unit': unit, 'o': obs[j],
                           'in': {'src': [float(x).hex() for x in src[j]], 'smp': [float(x).hex() for x in smp[j]],
                                  'det': [float(x).hex() for x in det[j]]}})
            ctx.case(nontrivial_id=('rand', b0 + j) if obs[j]['returned'] else None)
        # scalars (0-d variables): a sub-sample of the same inputs
        idx = [j for j in range(0, len(chunk), scalar_every) if keep[j]]
        if idx:
            sobs, _ = _observe(ctx, src[idx], smp[idx], det[idx], unit, eb1[idx], eb2[idx],
                               [ref_len[j] for j in idx], [ref_ang[j] for j in idx],
                               f'random floats as scalars, unit {unit}', scalar=True)
            for k, j in enumerate(idx):
                events.append({'ev': 'rand', 'tid': len(events), 'shape': 'scalar', 'unit': unit, 'o': sobs[k],
                               'in': {'src': [float(x).hex() for x in src[j]], 'smp': [float(x).hex() for x in smp[j]],
                                      'det': [float(x).hex() for x in det[j]]}})
                ctx.case(nontrivial_id=('rand-scalar', b0 + j) if sobs[k]['returned'] else None)
    return worst


# ------------------------------------------------------------------------------ layouts (broadcasting)
MEMS = ('flat', 'strided', 'grid', 'grid_mixed_order')
ROLES = ('src', 'smp', 'det')
SHARED_ROLES = {'pixelwise': (), 'scalar_geometry': ('src', 'smp'), 'scalar_sample': ('smp',),
                'pixel_source': ('smp', 'det'), 'scalars': ('src', 'smp', 'det')}  # = BeamlineDefs!SharedRoles


def _pix_var(vals, mem, unit, flip):
    """n per-pixel vectors in the memory arrangement `mem`; canonical pixel order = row-major (y, x)."""
    vals = np.asarray(vals, dtype='float64')
    n = len(vals)
    if mem == 'flat':
        return sc.vectors(dims=['pixel'], values=vals, unit=unit)
    if mem == 'strided':
        big = np.full((n, 2, 3), 7.25)
        big[:, 0, :] = vals
        return sc.vectors(dims=['pixel', 'lane'], values=big, unit=unit)['lane', 0]
    g = vals.reshape(4, n // 4, 3)
    if mem == 'grid_mixed_order' and flip:
        return sc.vectors(dims=['x', 'y'], values=np.ascontiguousarray(g.transpose(1, 0, 2)), unit=unit)
    return sc.vectors(dims=['y', 'x'], values=g, unit=unit)


def _flat(v, pd, shape, vec):
    """values of a result broadcast to the pixel dims `pd` (canonical order), flattened; raises ValueError
    if the result has dims the operands did not have."""
    if set(v.dims) - set(pd):
        raise ValueError(f'result has dims {v.dims}, operands span {pd}')
    dims = [d for d in pd if d in v.dims]
    a = np.asarray((v.transpose(dims) if len(dims) > 1 else v).values)
    idx = tuple(slice(None) if d in dims else None for d in pd) + ((slice(None),) if vec else ())
    a = np.broadcast_to(a[idx] if idx else a, tuple(shape) + ((3,) if vec else ()))
    return a.reshape(-1, 3) if vec else a.reshape(-1)


def _call_layout(layout, mem, rows, unit, other_unit, as_dataset):
    """One call per kernel / accessor / graph function on a batch in the given layout, each wrapped on its
    own.  rows: per role an (n, 3) float array (rows of a shared role are all equal).  Returns
    (results by name as flat per-pixel arrays, name:ExceptionClass of the first call that raised or '')."""
    import scippneutron as scn
    from scippneutron.conversion import beamline as bl
    from scippneutron.conversion.graph import beamline as gb

    n = len(rows['src'])
    shared = SHARED_ROLES[layout]
    if layout == 'scalars':
        pd, shape = [], []
    elif mem in ('flat', 'strided'):
        pd, shape = ['pixel'], [n]
    else:
        pd, shape = ['y', 'x'], [4, n // 4]
    flips = {'src': False, 'smp': True, 'det': True}
    V = {r: (sc.vector(rows[r][0], unit=unit) if r in shared else _pix_var(rows[r], mem, unit, flips[r])) for r in ROLES}
    before = {r: np.array(V[r].values, copy=True) for r in ROLES}
    S, M, D = V['src'], V['smp'], V['det']
    res, state = {}, {'raised': '', 'asym': ''}
    inc_extra = layout == 'pixel_source'  # incident beam per pixel, scattered beam 0-d
    sca_extra = layout == 'scalar_geometry'  # the reverse: two_theta(b2, b1) gets a per-pixel incident beam

    def step(name, fn, kind, tolerate=False):
        """kind: 'v' vector, 's' length, 'a' angle.  tolerate: the call hands two_theta an incident beam with
        a dim its scattered beam lacks; if that raises it is recorded on its own (state['asym'], judged last)
        and the rest of the batch is still judged."""
        try:
            v = fn()
            want_dtype = sc.DType.vector3 if kind == 'v' else sc.DType.float64
            want_unit = sc.Unit('rad') if kind == 'a' else sc.Unit(unit)
            res[name] = (_flat(v, pd, shape, kind == 'v'), bool(v.dtype == want_dtype and v.unit == want_unit))
            return v
        except Exception as e:  # noqa: BLE001
            if tolerate:
                state['asym'] = type(e).__name__
                state['asym_exc'] = repr(e)[:300]
                res[name] = None
            elif not state['raised']:
                state['raised'] = f'{name}:{type(e).__name__}'
                state['exc'] = repr(e)[:300]
            return None

    b1 = step('b1', lambda: bl.straight_incident_beam(source_position=S, sample_position=M), 'v')
    b2 = step('b2', lambda: bl.straight_scattered_beam(position=D, sample_position=M), 'v')
    step('lns', lambda: bl.total_straight_beam_length_no_scatter(source_position=S, position=D), 's')
    if b1 is not None and b2 is not None:
        l1 = step('l1', lambda: bl.L1(incident_beam=b1), 's')
        l2 = step('l2', lambda: bl.L2(scattered_beam=b2), 's')
        if l1 is not None and l2 is not None:
            step('lt', lambda: bl.total_beam_length(L1=l1, L2=l2), 's')
        step('tt', lambda: bl.two_theta(incident_beam=b1, scattered_beam=b2), 'a', tolerate=inc_extra)
        step('tsw', lambda: bl.two_theta(incident_beam=b2, scattered_beam=b1), 'a', tolerate=sca_extra)
        # the same numbers read in another length unit are a rescaled beam: the angle must not move
        b2o = b2.copy()
        b2o.unit = other_unit
        step('tmix', lambda: bl.two_theta(incident_beam=b1, scattered_beam=b2o), 'a', tolerate=inc_extra)
        # the beams handed to two_theta must still be the position differences afterwards
        step('b1_after', lambda: b1, 'v')
        step('b2_after', lambda: b2, 'v')
    data = sc.scalar(1.0) if not pd else sc.ones(dims=pd, shape=shape)
    da = sc.DataArray(data, coords={'source_position': S, 'sample_position': M, 'position': D})
    obj = sc.Dataset({'counts': da}) if as_dataset else da
    step('a_b1', lambda: scn.incident_beam(obj), 'v')
    step('a_b2', lambda: scn.scattered_beam(obj), 'v')
    step('a_l1', lambda: scn.L1(obj), 's')
    step('a_l2', lambda: scn.L2(obj), 's')
    step('a_lt', lambda: scn.Ltotal(obj, scatter=True), 's')
    step('a_lns', lambda: scn.Ltotal(obj, scatter=False), 's')
    step('a_tt', lambda: scn.two_theta(obj), 'a', tolerate=inc_extra)
    # the coordinate graph, intermediate results kept and looked at
    t = None
    for targets in (['two_theta', 'Ltotal'], ['Ltotal']):
        try:
            t = da.transform_coords(targets, graph=gb.beamline(scatter=True), keep_intermediate=True,
                                    keep_inputs=True, rename_dims=False)
            break
        except Exception as e:  # noqa: BLE001
            if inc_extra and 'two_theta' in targets:
                state['asym'] = type(e).__name__
                res['g_tt'] = None
                continue
            if not state['raised']:
                state['raised'] = f'graph_beamline:{type(e).__name__}'
                state['exc'] = repr(e)[:300]
            break
    if t is not None:
        for name, coord, kind in (('g_b1', 'incident_beam', 'v'), ('g_b2', 'scattered_beam', 'v'), ('g_l1', 'L1', 's'),
                                  ('g_l2', 'L2', 's'), ('g_lt', 'Ltotal', 's'), ('g_tt', 'two_theta', 'a')):
            if coord in t.coords or name != 'g_tt':
                step(name, lambda c=coord: t.coords[c], kind)
    # the single-purpose graphs of conversion.graph.beamline
    for name, coord, graph, kind in (('f_b1', 'incident_beam', gb.incident_beam, 'v'),
                                     ('f_b2', 'scattered_beam', gb.scattered_beam, 'v'),
                                     ('f_l1', 'L1', gb.L1, 's'), ('f_l2', 'L2', gb.L2, 's'),
                                     ('f_tt', 'two_theta', gb.two_theta, 'a'),
                                     ('f_lt', 'Ltotal', lambda: gb.Ltotal(scatter=True), 's'),
                                     ('f_lns', 'Ltotal', lambda: gb.Ltotal(scatter=False), 's')):
        step(name, lambda c=coord, g=graph: da.transform_coords(c, graph=g(), rename_dims=False).coords[c], kind,
             tolerate=inc_extra and name == 'f_tt')
    kept = all(np.array_equal(np.asarray(V[r].values).view('int64'), before[r].view('int64')) for r in ROLES)
    return res, state, kept


_LAY_BAD = dict(_BAD, raised='', asym='', graph_beams_exact=False, e_graphlen=0, e_graph=0, e_mix=0, inputs_kept=False)


def _observe_layout(ctx, layout, mem, rows, unit, other_unit, as_dataset, eb1, eb2, rl, ra):
    """Evaluate a batch in a layout and project every pixel to the observation record of NumericLay."""
    n = len(rows['src'])
    pi_up = math.nextafter(math.pi, 4.0)
    res, state, kept = _call_layout(layout, mem, rows, unit, other_unit, as_dataset=as_dataset)
    if state['raised']:
        ctx.extra.setdefault('layout_exceptions', {})[f'{layout}/{state["raised"]}'] = state.get('exc')
    if state['asym']:
        ctx.extra.setdefault('layout_exceptions', {})[f'{layout}/asymmetric two_theta'] = state.get('asym_exc')
    names_len = {'l1': 0, 'l2': 1, 'lt': None, 'lns': 2}

    def lens(prefix, keys):
        out = np.zeros(n, dtype='int64')
        for k in keys:
            ref = [t[0] + t[1] for t in rl] if k == 'lt' else [t[names_len[k]] for t in rl]
            out = np.maximum(out, _len_units(res[prefix + k][0], ref))
        return out

    complete = not state['raised'] and all(v is None or np.shape(v[0])[0] == n for v in res.values())
    if not complete:
        return [dict(_LAY_BAD, returned=True, raised=state['raised'] or 'result_of_wrong_length') for _ in range(n)], False
    vec_ok = lambda k, e: (res[k][0] == e).all(axis=1)  # noqa: E731
    beams_ok = (vec_ok('b1', eb1) & vec_ok('b2', eb2) & vec_ok('a_b1', eb1) & vec_ok('a_b2', eb2)
                & vec_ok('b1_after', eb1) & vec_ok('b2_after', eb2))
    gbeams_ok = vec_ok('g_b1', eb1) & vec_ok('g_b2', eb2) & vec_ok('f_b1', eb1) & vec_ok('f_b2', eb2)
    e_len = lens('', ('l1', 'l2', 'lt', 'lns'))
    e_acclen = lens('a_', ('l1', 'l2', 'lt', 'lns'))
    e_graphlen = np.maximum(lens('g_', ('l1', 'l2', 'lt')), lens('f_', ('l1', 'l2', 'lt', 'lns')))
    akeys = ('tt', 'tsw', 'tmix', 'a_tt', 'g_tt', 'f_tt')
    ang = {k: (_ang_units(res[k][0], ra) if res[k] is not None else np.zeros(n, dtype='int64')) for k in akeys}
    inr = np.array([(0.0 <= v <= pi_up) for k in akeys for v in (res[k][0] if res[k] is not None else np.zeros(n))]
                   ).reshape(6, n).all(axis=0)
    unit_ok = all(v[1] for v in res.values() if v is not None)
    return [{'returned': True, 'shape_ok': True, 'raised': '', 'beams_exact': bool(beams_ok[j]), 'unit_ok': bool(unit_ok),
             'e_len': int(e_len[j]), 'inrange': bool(inr[j]), 'e_tt': int(ang['tt'][j]), 'e_sw': int(ang['tsw'][j]),
             'e_acc': int(ang['a_tt'][j]), 'e_acclen': int(e_acclen[j]), 'graph_beams_exact': bool(gbeams_ok[j]),
             'e_graphlen': int(e_graphlen[j]), 'e_graph': int(max(ang['g_tt'][j], ang['f_tt'][j])),
             'e_mix': int(ang['tmix'][j]), 'inputs_kept': bool(kept), 'asym': state['asym']} for j in range(n)], True


def _replay_layouts(ctx, lays, refs, events):
    groups = {}
    for rec in lays:
        groups.setdefault((rec['layout'], json.dumps(rec['shared'], sort_keys=True)), []).append(rec)
    for gi, ((layout, _), items) in enumerate(sorted(groups.items())):
        mem = MEMS[gi % len(MEMS)] if layout != 'scalars' else 'flat'
        s = SCALES[gi % len(SCALES)]
        unit = UNITS[(gi // 2) % len(UNITS)]
        other_unit = UNITS[(gi // 2 + 1 + gi % 3) % len(UNITS)]
        f = 2.0 ** s
        # grids are 4 x n/4; the padding is not judged
        padded = items if layout == 'scalars' else items + [items[0]] * ((-len(items)) % 4)
        rows = {r: np.array([it['c'][r] for it in padded], dtype='float64') * f for r in ROLES}
        eb1 = rows['smp'] - rows['src']  # exact: lattice integers times a power of two
        eb2 = rows['det'] - rows['smp']
        mf = G.mpf(2) ** s
        xs = [_int_exact(it['c']) for it in padded]
        rl = [(refs.sqrt(x['n1']) * mf, refs.sqrt(x['n2']) * mf, refs.sqrt(x['nns']) * mf) for x in xs]
        ra = [refs.angle(x['dot'], x['cr2']) for x in xs]
        obs, complete = _observe_layout(ctx, layout, mem, rows, unit, other_unit, gi % 3 == 0, eb1, eb2, rl, ra)
        for j, it in enumerate(items):
            events.append({'ev': 'lay', 'tid': len(events), 'layout': layout, 'mem': mem, 'shared': it['shared'],
                           'pix': it['pix'], 'c': it['c'], 'x': xs[j], 's': s, 'unit': unit, 'o': obs[j],
                           'dataset': gi % 3 == 0})
            ctx.case(nontrivial_id=('lay', layout, mem, str(it['shared']), str(it['pix'])) if complete else None)


def _fsub(a, b):
    """correctly rounded a - b of two float vectors, as floats (what one float subtraction must give)"""
    return np.array([float(Fraction(float(x)) - Fraction(float(y))) for x, y in zip(a, b)])


def _replay_random_layouts(ctx, events, n_batches, n_pix=24):
    """Random float 'instruments' in the mixed layouts: one source and one sample (0-d) with per-pixel
    detectors, one sample with per-pixel sources and detectors, per-pixel sources with one detector.  In two
    of three batches the shared sample lies a hair (1e-10..1e-8 length units) away from the origin of the
    coordinate system next to a small beamline: almost at the origin is not at the origin."""
    rng = ctx.rng
    lay_cycle = ('scalar_geometry', 'scalar_geometry', 'scalar_sample', 'pixel_source')
    for bi in range(n_batches):
        layout = lay_cycle[bi % len(lay_cycle)]
        mem = MEMS[(bi // len(lay_cycle)) % len(MEMS)]
        unit = UNITS[bi % len(UNITS)]
        other_unit = UNITS[(bi + 1 + bi % 3) % len(UNITS)]
        small = bi % 3 != 2
        lo, hi = (-6, -4) if small else (-3, 3)
        sh = {'smp': _rand_unit(rng) * 10.0 ** rng.uniform(-10, -8) if small else _rand_unit(rng) * 10.0 ** rng.uniform(-3, 3)}
        sh['src'] = sh['smp'] - _rand_unit(rng) * 10.0 ** rng.uniform(lo, hi)
        sh['det'] = sh['smp'] + _rand_unit(rng) * 10.0 ** rng.uniform(lo, hi)
        rows = {r: np.zeros((n_pix, 3)) for r in ROLES}
        for j in range(n_pix):
            px = {'smp': sh['smp'], 'src': sh['smp'] - _rand_unit(rng) * 10.0 ** rng.uniform(lo, hi),
                  'det': sh['smp'] + _rand_unit(rng) * 10.0 ** rng.uniform(lo, hi)}
            for r in ROLES:
                rows[r][j] = sh[r] if r in SHARED_ROLES[layout] else px[r]
        eb1 = np.array([_fsub(m, a) for m, a in zip(rows['smp'], rows['src'])])
        eb2 = np.array([_fsub(d, m) for d, m in zip(rows['det'], rows['smp'])])
        rl, ra = [], []
        for j in range(n_pix):
            u, w = G.fvec(eb1[j]), G.fvec(eb2[j])
            ds = G.fvec(_fsub(rows['det'][j], rows['src'][j]))
            ra.append(G.angle_from_pair(G.dot(u, w), G.norm2(G.cross(u, w))))
            rl.append((G.mp_sqrt(G.norm2(u)), G.mp_sqrt(G.norm2(w)), G.mp_sqrt(G.norm2(ds))))
        obs, complete = _observe_layout(ctx, layout, mem, rows, unit, other_unit, bi % 2 == 1, eb1, eb2, rl, ra)
        for j in range(n_pix):
            events.append({'ev': 'rlay', 'tid': len(events), 'layout': layout, 'mem': mem, 'unit': unit, 'o': obs[j],
                           'sample_near_origin': small,
                           'in': {r: [float(x).hex() for x in rows[r][j]] for r in ROLES}})
            ctx.case(nontrivial_id=('rlay', bi, j) if complete else None)


# ------------------------------------------------------------------------------ second use
def _replay_again(ctx, pool, events):
    """Item 6 of HARDENING.md: a sample of this run's own cases once more, shuffled, in other company; the
    result objects of one batch are held while a second batch of the same shape is evaluated and only then
    looked at (an implementation that recycles buffers or remembers the previous call shows up here).
    Judged against the same oracle values as the first time - not against the first result."""
    by_unit = {}
    for it in pool.items:
        by_unit.setdefault(it['unit'], []).append(it)
    for unit, items in sorted(by_unit.items()):
        ctx.rng.shuffle(items)
        items.reverse()
        half = len(items) // 2
        if half == 0:
            continue
        batches = [items[:half], items[half:2 * half]]
        held = []
        for b in batches:
            arrs = {k: np.array([it[k] for it in b]) for k in ('src', 'smp', 'det', 'eb1', 'eb2')}
            held.append((b, arrs, _call(ctx, arrs['src'], arrs['smp'], arrs['det'], unit, f'second use, unit {unit}')))
        for bi, (b, arrs, r) in enumerate(held):
            obs = _judge_r(r, len(b), arrs['eb1'], arrs['eb2'], [it['ref_len'] for it in b], [it['ref_ang'] for it in b])
            for j, it in enumerate(b):
                events.append({'ev': 'again', 'tid': len(events), 'first': it['first'],
                               'how': 'held_across_a_later_call' if bi == 0 else 'other_order', 'unit': unit, 'o': obs[j],
                               'in': {'src': [float(x).hex() for x in it['src']], 'smp': [float(x).hex() for x in it['smp']],
                                      'det': [float(x).hex() for x in it['det']]}})
                ctx.case(nontrivial_id=('again', unit, bi, j) if obs[j]['returned'] else None)


def _sum32(ctx, events, n):
    """total_beam_length on float32 operands (float32 accuracy, float32 result) and on mixed
    float32 / float64 operands (0-d + per-pixel; float32 accuracy, either float type accepted)."""
    from scippneutron.conversion import beamline as bl

    rng = ctx.rng
    a = np.array([10.0 ** rng.uniform(-6, 6) for _ in range(n)], dtype='float32')
    b = np.array([10.0 ** rng.uniform(-6, 6) for _ in range(n)], dtype='float32')
    b64 = np.array([10.0 ** rng.uniform(-6, 6) for _ in range(n)], dtype='float64')
    variants = (('f32+f32', lambda: (sc.array(dims=['pixel'], values=a, unit='m', dtype='float32'),
                                     sc.array(dims=['pixel'], values=b, unit='m', dtype='float32')), a, b, ('float32',)),
                ('f32+f64', lambda: (sc.array(dims=['pixel'], values=a, unit='m', dtype='float32'),
                                     sc.array(dims=['pixel'], values=b64, unit='m')), a, b64, ('float32', 'float64')),
                ('f64+f32(0-d)', lambda: (sc.array(dims=['pixel'], values=b64, unit='m'),
                                          sc.scalar(float(a[0]), unit='m', dtype='float32')), b64, np.full(n, a[0]),
                 ('float32', 'float64')))
    for name, make, x, y, dtypes in variants:
        try:
            l1, l2 = make()
            res = bl.total_beam_length(L1=l1, L2=l2)
            vals = np.asarray(res.values)
            dt_ok = str(res.dtype) in dtypes and res.unit == sc.Unit('m')
            if vals.shape != (n,):
                raise ValueError(f'result of shape {vals.shape}')
        except Exception as e:  # noqa: BLE001
            ctx.violation(f'total_beam_length({name}) raised {type(e).__name__}', {'exc': repr(e)})
            continue
        for i in range(n):
            exact = Fraction(float(x[i])) + Fraction(float(y[i]))
            e32 = G.relerr_units(float(vals[i]), G.to_mpf(exact), unit=2.0 ** -24)
            events.append({'ev': 'sum32', 'tid': len(events), 'e32': e32, 'dtype_ok': bool(dt_ok), 'operands': name,
                           'in': [float(x[i]).hex(), float(y[i]).hex()]})
            ctx.case(nontrivial_id=('sum32', name, i))


# ------------------------------------------------------------------------------ main
def _key_for(ev, clause):
    if ev['ev'] == 'pair':
        return f'lattice configuration / {ev["act"]}: {clause}'
    if ev['ev'] == 'near':
        fam = 'nearly (anti)parallel beams' if ev['fam'] == 'par' else 'nearly perpendicular beams'
        return f'{fam} (dyadic family): {clause}'
    if ev['ev'] == 'rand':
        return f'random float vectors ({ev["shape"]}): {clause}'
    if ev['ev'] in ('lay', 'rlay'):
        if clause.startswith('two_theta_raised_'):
            return f'two_theta(incident_beam with a dim that scattered_beam lacks): raised {ev["o"]["asym"]}'
        return f'layout {ev["layout"]}: {clause}'
    if ev['ev'] == 'again':
        # few keys: what the case was first (pair / near / rand) and how it was held is in the event
        if ev['how'] == 'scalar':
            return f'lattice / near-degenerate case evaluated as 0-d variables: {clause}'
        return f'second use (again at the end, other order / result held across a later call): {clause}'
    if ev['ev'] == 'sum32':
        return f'total_beam_length({ev["operands"]}): {clause}'
    return f'{ev["ev"]}: {clause}'


def run(ctx):
    ctx.rule = RULE
    ctx.assume('positions of lattice cases are small integers x 2^s, so the floats passed to the code are '
               'exactly the spec values and float subtraction of positions is exact (checked for the beams)')
    ctx.assume('every float is a dyadic rational: dot and squared cross product of float vectors are '
               'computed exactly with Python rationals; sqrt/atan2 by mpmath at 60 digits')
    ctx.assume('results in (pi, nextafter(pi)] count as inside [0, pi]: float(pi) is below pi by 1.2e-16')
    thorough = ctx.thorough

    # ---- 1. design: exhaustive model + negative controls
    cfg = 'MC_Beamline_thorough.cfg' if thorough else 'MC_Beamline.cfg'
    res = ctx.tlc('conv/MC_Beamline.tla', cfg, workers=WORKERS, timeout=1500)
    require_ok(ctx, res, 'Beamline model')
    ctx.tlc('conv/MC_Beamline.tla', 'Neg_Beamline_b2sign.cfg', workers=WORKERS, expect_error=True, timeout=300)
    ctx.tlc('conv/MC_Beamline.tla', 'Neg_Beamline_shear.cfg', workers=WORKERS, expect_error=True, timeout=300)

    # ---- 2. cases enumerated by TLC
    out = ctx.tmp / 'c03-cases.ndjson'
    ccfg = 'BeamlineCases_thorough.cfg' if thorough else 'BeamlineCases.cfg'
    cres = ctx.tlc('conv/BeamlineCases.tla', ccfg, workers=1, env={'OUT_FILE': str(out)}, timeout=900,
                   count=False)
    require_ok(ctx, cres, 'BeamlineCases export')
    import json

    recs = [json.loads(line) for line in open(out)]
    tag = cres.tagged('CASES')
    if not tag or sum(tag[0][1:]) != len(recs):
        raise MachineryError(f'case export incomplete: {tag} vs {len(recs)} records')
    pairs = [r for r in recs if r['kind'] == 'pair']
    nears = [r for r in recs if r['kind'] == 'near']
    lays = [r for r in recs if r['kind'] == 'lay']
    ctx.extra['cases_exported'] = {'pairs': len(pairs), 'near': len(nears), 'layout_elements': len(lays)}

    events = []
    refs = _Refs()
    pool = _Pool()
    w1 = _replay_pairs(ctx, pairs, refs, events, pool)
    w2 = _replay_near(ctx, nears, events, pool)
    w3 = _replay_random(ctx, 8000 if thorough else 1600, events, pool)
    _sum32(ctx, events, 400 if thorough else 100)
    _replay_layouts(ctx, lays, refs, events)
    _replay_random_layouts(ctx, events, 96 if thorough else 24)
    _replay_again(ctx, pool, events)
    ctx.extra['second_use_cases'] = len(pool.items)
    ctx.extra['worst_two_theta_error_1e-16rad'] = {'lattice': int(w1), 'near_degenerate': int(w2),
                                                   'random': int(w3), 'tolerance': ANG_TOL}
    for e in (events[0], events[min(len(pairs), len(events) - 1)], events[-1]):
        ctx.sample(e)

    # ---- 3. TLC judges every event
    tf = ctx.tmp / 'c03.ndjson'
    write_ndjson(tf, events)
    tr = ctx.tlc('conv/Trace_Beamline.tla', workers=1, env={'TRACE_FILE': str(tf)}, timeout=2400)
    require_ok(ctx, tr, 'Trace_Beamline')
    done = tr.tagged('DONE')
    if not done or done[0][1] != len(events):
        raise MachineryError(f'trace validation incomplete: {done} vs {len(events)} events')
    ctx.traces(len(events))
    for rej in tr.tagged('REJECT'):
        _, line, _tid, clause = rej
        ev = events[line - 1]
        if clause in ('harness_reference_differs_from_spec', 'fed_configuration_is_not_the_spec_transformation',
                      'exact_products_do_not_match_spec_terms', 'improper_configuration', 'unknown_event',
                      'unknown_layout', 'fed_configuration_is_not_the_spec_broadcast',
                      'angle_class_changed', 'not_a_perpendicular_family'):
            raise MachineryError(f'harness and specification disagree ({clause}) on event {ev}')
        ctx.violation(_key_for(ev, clause), {'event': ev})
    # growth module (DESIGN §8): the scene instrument_view describes; findings are not C03 violations
    from .. import lib_growth_instview
    ctx.run_growth(lib_growth_instview.run, 'lib_growth_instview')


META = {
    'design_ref': 'DESIGN.md §5 C03',
    'technique': 'TLA+ state machine of the beamline symmetry group on an integer lattice (Beamline) '
                 'model-checked by TLC; TLC-enumerated (configuration, transformation) pairs and dyadic '
                 'near-degenerate families replayed into the real kernels/accessors; every replay recorded '
                 'and judged by TLC (Trace_Beamline) against the spec operators',
    'text': 'TLC proves on the lattice box that the exact angle class (dot, |cross|^2 modulo positive scaling) '
            'is invariant under the 24 rotations, translations, beam rescalings and the swap, lies in [0, pi], '
            'and that lengths obey the Euclidean laws.  The real kernels and accessors are evaluated on every '
            'exported pair at power-of-two scales/units, on dyadic families within 1e-12 of 0, pi/2, pi and on '
            'seeded random floats; 2theta must be within 3e-15 rad of atan2(sqrt(cross2), dot) evaluated by '
            'mpmath from the exact integer/rational products, lengths within 4 eps; TLC checks that the fed '
            'configurations and the reference integers are those of the specification and judges the errors.',
    'note': 'Trusted: TLC, mpmath, scipp; the final sqrt/atan2 step is numeric (mpmath, finite points). '
            'scipp vector3 is float64 only, so float32 is exercised only through total_beam_length.',
}
