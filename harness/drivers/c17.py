"""C17 — peak fitting returns one coherent result per peak; removal touches only windows.

Spec: spec/peaks/FitPeaksDefs.tla (state-free definitions), FitPeaks.tla (four small state machines:
windows / model-selection loop / assessment cascade / removal, with negative controls),
Gen_FitPeaks.tla (constant-level enumeration of cases), Trace_FitPeaks.tla (judge of recorded runs).

1. TLC, exhaustive: WindowsInsideRange, WindowContainsEstimate (estimates inside the data, DESIGN 3.4),
   NeighbourDistance, OneWindowPerEstimate for all integer window configurations of the bounds;
   OneResultPerPeak, FirstSuccessWins, NoFitWhenNarrow, Isolation, ResultsAppendOnly for the loop;
   SuccessImpliesAllRequirements for all requirement vectors (p-value ok / low / undefined);
   InputUnchanged, RemoveTouchesOnlyWindows, RemoveSubtractsPeaks.  Five negative controls
   (clip before separate, guess before the point-count guard, NaN passes the p test, removal without
   copy, removal of unsuccessful results) must be rejected.
2. spec -> code (M1): every TLC-enumerated window configuration (sampled in the quick tier) is run
   through fit_peaks(windows=scalar) with harness-supplied scripted Model subclasses (their guesses
   do not depend on the data, so the windows can be read from the results even when they are narrow);
   every TLC-enumerated behaviour of the model-selection loop is replayed with scripted models whose
   fits succeed / are rejected / fail on cue.  remove_peaks is run on integer data with integer-valued
   peak models for all small configurations (exact).
3. code -> spec (M2): seeded synthetic spectra (1..6 peaks of random kind and width, linear or
   quadratic background, Gaussian or Poisson-like noise) are fitted with every kind of model
   specification (name, instance, list/tuple/iterator of names and instances, mixed), automatic and
   explicit windows from below the grid spacing to beyond the data range, estimates at the edges and
   outside the data.  For every FitResult the harness recomputes chi^2, reduced chi^2, the p-value
   (mpmath regularised incomplete gamma function) and the AIC from popt and the data in the window
   with its own closed forms, evaluates every stated requirement, refits every peak alone
   (isolation) and every model combination alone (first success wins), and runs remove_peaks.
   Every observation is one NDJSON event; Trace_FitPeaks (TLC) gives the verdict for each.

Numeric closeness (statistics 1e-9 relative, subtraction 1e-12) is decided by the harness, the
boolean outcome goes into the event; everything discrete is decided by TLC.

Interpretation (weakest readings, DESIGN 3.4):
* "window too narrow" is required for n_points < n_params; for n_points = n_params (no degree of
  freedom: reduced chi^2 and p undefined) any outcome except `success` is accepted.
* Requirements evaluated for a successful result: AIC(background+peak) <= AIC(best background alone)
  (the background alone is a linear least-squares problem, solved exactly by the harness);
  p >= min_p_value; peak location inside the window's data (the documented "too close to the edge"
  has no stated distance); amplitude >= 0; FWHM <= max_peak_width_factor * (window[1] - window[0]);
  FWHM >= min_peak_width_factor * grid spacing (the FitRequirements docstring prints "<" for the
  minimum, an evident typo given the attribute's name and description).  Equality is accepted.
* AIC: either least-squares convention is accepted (n ln(chi^2/n) + 2k, or chi^2 + 2k).
* A data point exactly on the upper window edge may or may not belong to the window.

Hardening round (HARDENING.md items 1-4, 6-11).  The spec grew by: the points a window holds and the point-count
guard (FitPeaksDefs.NPointsMin/Max, NarrowVerdict; FitPeaks GuardStep with the invariants NarrowDecidedByPoints,
PointCountsConsistent and the negative control "narrow_by_extent"), the variants of a window configuration
(WindowVariants: element types of coordinate / estimates / width, memory layout of the data - TLC enumerates all
81), data of one to five points (Gen TinyConfigs) and the `replay` event; the trace judge now also decides, for
every automatic-window result, `window_too_narrow` against the number of grid points in the recorded window.
The driver additionally: runs the window configurations at units 2^-40 .. 2^30 and shifts up to 12*2^32 units
(window width / coordinate down to 1e-11), in all variants, with a second identical call and a bit-for-bit
comparison of every argument afterwards; lists explicit windows in shuffled order, as [d, range] / [range, d] /
a transposed view, on float32 / integer coordinates; gives model lists also as one-shot generators; scales
spectra, the zero-degree-of-freedom windows and a new requirements part (a peak clearly too narrow / too wide /
fine) by 2^-20 / 2^30 in x and 2^+-40 in y; repeats calls with the same objects; hands remove_peaks float32 /
strided / row-of-2-d data, the results as list / tuple / iterator / generator in either order, compares points
outside the windows bit for bit (also -0.0, NaN, infinities, subnormals), checks that the FitResults are left as
they were and that a second removal agrees; re-runs a sample of the cases of every part at the end in another
order (`replay`).  Unreadable or non-finite results are verdicts (`result_is_malformed`,
`window_edge_is_not_finite`, `result_is_not_finite_or_not_an_integer`), the judge control corrupts accepted events
only, and no self-test reads data the implementation produced.  TLC (model, negative controls, case generation)
runs in threads beside the fits.
"""

from __future__ import annotations

import json
import math
import os
from fractions import Fraction

import numpy as np
import scipp as sc

from .. import lib_peaks as lp
from ..core import MachineryError
from ..tlc import require_ok, write_ndjson

RULE = ('windows: integer configurations (estimates inside, on the edges of and outside the data, widths from '
        'below the grid spacing to beyond the range) scaled by powers of two; non-trivial = at least one window '
        'was cut by the data range or a neighbour. loop: all scripted verdict matrices; non-trivial = at least '
        'one fit ran. fits: non-trivial = statistics recomputed for a converged fit. removal: non-trivial = at '
        'least one successful window. variants (element types, layouts, listing orders, magnitudes 2^-40..2^30) are '
        'attached in turn to the cases of every part')

MODELS = ('gaussian', 'lorentzian', 'pseudo_voigt')
WORKERS = int(os.environ.get('VERIF_WORKERS', '16'))     # lowered while developing on a shared machine


# ----------------------------------------------------------------------------------------------- helpers
def _exc_key(api, exc):
    return f'{api} raised {type(exc).__name__} in {lp.site_of(exc)}'


def _to_units(v, unit):
    """float -> (integer in units of `unit`, on-grid flag); None if the value is not finite."""
    if not math.isfinite(v):
        return None, False
    q = v / unit
    r = round(q)
    return int(r), abs(q - r) <= 1e-9 * max(1.0, abs(q))


def bits(v):
    """Everything observable of a variable, bit for bit (-0.0 != 0.0, NaN payloads count)."""
    out = (str(v.dtype), str(v.unit), tuple(v.dims), tuple(v.shape), np.ascontiguousarray(v.values).tobytes())
    if getattr(v, 'variances', None) is not None:
        out += (np.ascontiguousarray(v.variances).tobytes(),)
    return out


def da_bits(da):
    return (bits(da.data), tuple((k, bits(c)) for k, c in sorted(da.coords.items())),
            tuple((k, bits(m)) for k, m in sorted(da.masks.items())))


def result_state(r):
    """Everything a caller can observe of a FitResult (to notice results modified by a later call)."""
    return (r.assessment.name, r.message, type(r.peak).__name__, r.peak.prefix, type(r.background).__name__,
            r.background.prefix, tuple((k, bits(v)) for k, v in r.popt.items()), bits(r.window), bits(r.aic),
            bits(r.red_chisq), bits(r.p_value))


def results_agree(a, b):
    """Two lists of FitResults describe the same fits (assessment, models, window bit for bit, popt to 1e-9)."""
    return len(a) == len(b) and all(
        p.assessment == q.assessment and _result_kinds(p) == _result_kinds(q) and bits(p.window) == bits(q.window)
        and _popt_close(p.popt, q.popt) for p, q in zip(a, b, strict=True))


def typed_array(values, want):
    """numpy array of element type `want` if it holds `values` exactly, else float64: -> (array, type used)."""
    v = np.asarray(values, dtype='float64')
    if want == 'int64' and np.all(v == np.round(v)) and np.all(np.abs(v) < 2**53):
        return v.astype('int64'), 'int64'
    if want == 'float32':
        with np.errstate(all='ignore'):
            v32 = v.astype('float32')
        if np.all(np.isfinite(v32)) and np.array_equal(v32.astype('float64'), v):
            return v32, 'float32'
    return v, 'float64'


def laid_out(da, layout, dim):
    """The same 1-d data array as a strided view of a longer one / as a row of a 2-d one (the other elements
    hold other values)."""
    if layout == 'strided':
        def doubled(v, fill):
            out = np.repeat(np.asarray(v), 2)
            out[1::2] = fill
            return out

        data = sc.array(dims=[dim], values=doubled(da.values, -12345.0), unit=da.unit, dtype=da.dtype,
                        variances=None if da.variances is None else doubled(da.variances, 1.0))
        coords = {k: sc.array(dims=[dim], values=np.repeat(c.values, 2), unit=c.unit, dtype=c.dtype)
                  for k, c in da.coords.items()}
        return sc.DataArray(data, coords=coords)[dim, ::2]
    if layout == 'row':
        other = da.copy(deep=True)
        other.values = other.values * 0.5 - 777.0
        return sc.concat([other, da, other], 'row')['row', 1]
    return da


def _scripted_data(x, truth):
    y = truth['a0'] + truth['a1'] * x + lp.np_gaussian(x, truth['amplitude'], truth['loc'], truth['scale'])
    return sc.DataArray(sc.array(dims=['x'], values=y, variances=np.ones_like(y), unit='K'),
                        coords={'x': sc.array(dims=['x'], values=x, unit='m')})


# ----------------------------------------------------------------------------------------------- windows
BASE_WVARIANT = {'xd': 'float64', 'ed': 'float64', 'wd': 'float64', 'layout': 'contiguous'}
SCRIPTED_K = 5          # linear background (2) + scripted peak without extra parameters (3)


def _window_event(ctx, tid, models, c, unit, shift, step_units, factor_obj, variant=None, again=False, _blamed=False,
                  width_in_steps=1.5):
    """Run fit_peaks(windows=scalar) for the integer configuration c (coordinates in `unit`, shifted by
    `shift` units; data grid spacing `step_units`), handed over in the given variant (element types of the
    coordinate / estimates / width where they hold the values exactly, memory layout of the data)."""
    from scippneutron.peaks import FitParameters, FitRequirements, fit_peaks

    SB, SP, _ = models
    variant = dict(variant or BASE_WVARIANT)
    step_units = int(step_units)
    npts = (c['hi'] - c['lo']) // step_units + 1
    x = (np.arange(npts) * float(step_units) + c['lo'] + shift) * unit
    # the scripted peak sits in the middle of the data; its width is ordinary (1.5 grid steps), clearly below the
    # grid spacing (0.3: FWHM 0.71 steps) or clearly beyond every window (40): the fit starts from the exact
    # parameters of noise-free data, so whatever the magnitudes it converges at once and the assessment cascade runs
    truth = {'a0': 3.0, 'a1': 0.0, 'amplitude': 7 * float(step_units) * unit,
             'loc': float((c['lo'] + c['hi']) / 2 + shift) * unit, 'scale': width_in_steps * float(step_units) * unit}
    data = _scripted_data(x, truth)
    xv, variant['xd'] = typed_array(x, variant['xd'])
    data.coords['x'] = sc.array(dims=['x'], values=xv, unit='m')
    data = laid_out(data, variant['layout'], 'x')
    cfg = {'ests': [e + shift for e in c['ests']], 'width': c['width'], 'lo': c['lo'] + shift,
           'hi': c['hi'] + shift, 'step': step_units, 'fn': c['fn'], 'fd': c['fd']}
    ev = {'ev': 'windows', 'tid': tid, 'cfg': cfg, 'out': 'ok', 'wins': [], 'ongrid': True, 'assess': [],
          'k': SCRIPTED_K, 'variant': variant, 'args_same': True, 'again_same': True, 'succ_req': [],
          'assess_full': [], 'unit_log2': int(round(math.log2(unit))), 'peak_width_in_steps': width_in_steps}
    ev_, variant['ed'] = typed_array([float(e) * unit for e in cfg['ests']], variant['ed'])
    est = sc.array(dims=['x'], values=ev_, unit='m')
    wv, variant['wd'] = typed_array([c['width'] * unit], variant['wd'])
    width = sc.scalar(wv[0], unit='m')
    fp = FitParameters(neighbor_separation_factor=factor_obj)
    fr = FitRequirements(min_p_value=0.0)

    def call():
        lp.Script.reset({}, truth)
        return fit_peaks(data, peak_estimates=est, windows=width, background=SB(degree=1, tag=1), peak=SP(extra=0, tag=1),
                         fit_parameters=fp, fit_requirements=fr)

    before = (da_bits(data), bits(est), bits(width), repr(fp), repr(fr))
    try:
        res = call()
    except Exception as e:  # noqa: BLE001
        ev['out'] = 'raised'
        ev['key'] = _exc_key('fit_peaks', e)
        if variant != BASE_WVARIANT and not _blamed:
            # which dimension of the variant is responsible: the layout alone, or the element types
            alone = _window_event(ctx, tid, models, c, unit, shift, step_units, factor_obj,
                                  {**BASE_WVARIANT, 'layout': variant['layout']}, _blamed=True, width_in_steps=width_in_steps)
            same_failure = alone['out'] == 'raised' and alone['key'].startswith(ev['key'])
            if same_failure and variant['layout'] != 'contiguous':
                ev['key'] += f' (data {variant["layout"]})'
            elif not same_failure and any(variant[k] != 'float64' for k in ('xd', 'ed', 'wd')):
                ev['key'] += ' (element types other than float64)'
            # (otherwise the base form of the configuration fails alike: no suffix)
        ev['exc'] = repr(e)[:200]
        return ev
    for r in res:
        lo, g1 = _to_units(float(r.window.values[0]), unit)
        hi, g2 = _to_units(float(r.window.values[1]), unit)
        if lo is None or hi is None:
            ev['out'] = 'nonfinite'
            ev['wins'] = []
            break
        ev['wins'].append([lo, hi])
        ev['ongrid'] = bool(ev['ongrid'] and g1 and g2)
        ev['assess'].append('window_too_narrow' if r.assessment.name == 'window_too_narrow' else 'fitted')
        ev['assess_full'].append(r.assessment.name)
        ev['succ_req'].append(_scripted_requirements(r, x, step_units * unit) if r.assessment.name == 'success' else [True] * 6)
    ev['args_same'] = bool((da_bits(data), bits(est), bits(width), repr(fp), repr(fr)) == before)
    if again:                         # the same call again, with the very same objects
        try:
            ev['again_same'] = bool(results_agree(res, call()))
        except Exception as e:  # noqa: BLE001
            ev['again_same'] = False
            ev['again_exc'] = repr(e)[:200]
    return ev


def _scripted_requirements(r, x, step):
    """Requirements 3..6 (weakest readings, see the module docstring) of a successful scripted fit, from the
    returned parameters; the scripted peak is the harness' own Gaussian with FWHM = 2 sqrt(2 ln 2) scale and the
    default FitRequirements (width factors 1) apply.  1 and 2 (AIC, p-value) are not evaluated here (True)."""
    try:
        w0, w1 = float(r.window.values[0]), float(r.window.values[1])
        loc, amp, scale = (float(sc.values(r.popt['peak_' + n]).value) for n in ('loc', 'amplitude', 'scale'))
        xs = x[(x >= w0) & (x <= w1)]
        fw = 2 * math.sqrt(2 * lp.LN2) * abs(scale)
        ok = all(map(math.isfinite, (w0, w1, loc, amp, scale)))
        return [True, True, bool(ok and len(xs) and xs[0] <= loc <= xs[-1]), bool(ok and amp >= 0),
                bool(ok and fw <= (w1 - w0) * (1 + 1e-9)), bool(ok and fw >= step * (1 - 1e-9))]
    except Exception:  # noqa: BLE001
        return [True, True, False, False, False, False]      # a success that cannot be read satisfies nothing


def _cut(c):
    """Non-trivial window configuration: some raw window leaves the data range or meets a neighbour."""
    e, w = c['ests'], c['width']
    if any(x - w / 2 < c['lo'] or x + w / 2 > c['hi'] for x in e):
        return True
    return any(e[i] + w / 2 > e[i + 1] - (e[i + 1] - e[i]) * c['fn'] / c['fd'] for i in range(len(e) - 1))


FACTORS = {(1, 3): 1 / 3, (1, 4): 0.25, (1, 2): 0.5, (1, 6): 1 / 6, (0, 1): 0.0, (5, 12): 5 / 12, (3, 4): 0.75}


def _windows_part(ctx, events, wcases, tiny, variants, recipes):
    models = lp.make_scripted_models()
    rng = ctx.rng
    variants = [v for v in sorted(variants, key=lambda v: json.dumps(v, sort_keys=True)) if v != BASE_WVARIANT]
    rng.shuffle(variants)
    nv = [0]

    def variant_for(k):
        """Every third case in a non-base variant (all 80 of them in turn)."""
        if k % 3:
            return BASE_WVARIANT
        nv[0] += 1
        return variants[nv[0] % len(variants)]

    def run(c, unit, shift, step, factor, variant, nid):
        again = nid[1] % 4 == 0
        wis = (1.5, 0.3, 1.5, 40.0, 1.5)[nid[1] % 5]

        def fn(evs):
            evs.append(_window_event(ctx, len(evs), models, c, unit, shift, step, factor, variant, again, width_in_steps=wis))
            ctx.case(nontrivial_id=nid if _cut(c) else None)
        fn(events)
        recipes.append((len(events) - 1, len(events), fn))

    if not ctx.thorough:
        # all single-estimate configurations + a stratified sample of the rest
        single = [c for c in wcases if len(c['cfg']['ests']) == 1]
        multi = [c for c in wcases if len(c['cfg']['ests']) > 1]
        big = [c for c in multi if (c['cfg']['fn'], c['cfg']['fd']) == (3, 4)]     # separation factor beyond one half
        wcases = single + rng.sample(multi, 500) + rng.sample(big, min(len(big), 150))
        tiny = rng.sample(tiny, 80)
    else:
        wcases = rng.sample(wcases, 9000)
    for k, wc in enumerate(wcases + tiny):
        c = wc['cfg']
        # powers of two from 2^-6 to 2^2, every 8th case far smaller / larger (hidden absolute thresholds)
        unit = 2.0 ** ((k % 9) - 6) if k % 8 else 2.0 ** (-40 if k % 16 else 30)
        shift = (0, 1200, -4800)[k % 3]
        run(c, unit, shift, (6, 12, 3)[k % 3], FACTORS[(c['fn'], c['fd'])], variant_for(k), ('w', k))
        events[-1]['expect'] = [[a + shift, b + shift] for a, b in wc['wins']]   # informational (TLC recomputes it)
    # one estimate in the middle of the data with a window over all of it: the scripted fit can succeed, at every
    # magnitude of the coordinate, for an ordinary / too narrow / too wide peak (success => every requirement)
    central = {'ests': [48], 'width': 100, 'lo': 0, 'hi': 96, 'fn': 1, 'fd': 3}
    k = 0
    for log2u in (-40, -20, -6, 0, 10, 30):
        for shift in (0, 12 * 2**32):
            for wis in (0.3, 1.5, 40.0):
                k += 1

                def fn(evs, a=(2.0 ** log2u, shift, variant_for(k)), wis=wis):
                    evs.append(_window_event(ctx, len(evs), models, central, a[0], a[1], 6, FACTORS[(1, 3)], a[2], True,
                                             width_in_steps=wis))
                    ctx.case(nontrivial_id=('wc', log2u, shift, wis))
                fn(events)
                recipes.append((len(events) - 1, len(events), fn))
    # random configurations far beyond the exhaustive bounds (M2)
    nrand = 2500 if ctx.thorough else 250
    for k in range(nrand):
        nest = rng.choice([1, 2, 3, 4, 5, 6])
        lo, nsteps = 0, rng.choice([20, 50, 150])
        hi = lo + 240 * nsteps                     # grid step = 240 units
        pool = [12 * rng.randrange(-40, (hi // 12) + 40) for _ in range(nest)]
        if rng.random() < 0.3:
            pool[rng.randrange(nest)] = rng.choice([lo, hi, lo - 12, hi + 12])
        if rng.random() < 0.15 and nest > 1:
            pool[1] = pool[0]
        ests = sorted(pool)
        width = 2 * rng.choice([rng.randrange(1, 120), rng.randrange(120, 2400), rng.randrange(2400, hi + 4000)])
        fn, fd = rng.choice(list(FACTORS))
        c = {'ests': ests, 'width': width, 'lo': lo, 'hi': hi, 'fn': fn, 'fd': fd}
        unit = 2.0 ** rng.choice([-40, 30, *range(-12, 3)])
        # also: a narrow grid far from the origin (window width / coordinate down to 1e-11)
        shift = 12 * rng.choice([rng.randrange(-5000, 5000), rng.randrange(-5000, 5000), 2**32 + rng.randrange(0, 5000)])
        run(c, unit, shift, 240, FACTORS[(fn, fd)], variant_for(k), ('wr', k))


# ----------------------------------------------------------------------------------------------- loop
def _loop_part(ctx, events, lcases, recipes):
    from scippneutron.peaks import FitRequirements, fit_peaks

    SB, SP, _ = lp.make_scripted_models()
    truth = {'a0': 3.0, 'a1': 0.25, 'amplitude': 40.0, 'loc': 16.0, 'scale': 1.5}
    x = np.arange(33, dtype='float64')
    data = _scripted_data(x, truth)
    if not ctx.thorough:
        small = [c for c in lcases if len(c['script']) <= 2]
        big = [c for c in lcases if len(c['script']) > 2]
        lcases = small + ctx.rng.sample(big, 400)
    for ci, c in enumerate(lcases):
        def fn(evs, c=c, ci=ci):
            _loop_case(ctx, evs, c, ci, SB, SP, truth, x, data, fit_peaks, FitRequirements)
        fn(events)
        recipes.append((len(events) - 1, len(events), fn))


def _loop_case(ctx, events, c, ci, SB, SP, truth, x, data, fit_peaks, FitRequirements):
    if True:
        pk, bk, npts, script = c['pk'], c['bk'], c['npts'], c['script']
        nb = len(bk)
        if npts % 2 == 1:
            lo, hi = 16 - (npts - 1) / 2 - 0.25, 16 + (npts - 1) / 2 + 0.25
        elif npts == 0:
            lo, hi = 16.25, 16.75
        else:
            lo, hi = 16.5 - npts / 2 + 0.25, 16.5 + npts / 2 - 0.25
        peaks = [SP(extra=p - 3, tag=i + 1) for i, p in enumerate(pk)]
        bkgs = [SB(degree=b - 1, tag=i + 1) for i, b in enumerate(bk)]
        verd = {(k // nb + 1, k % nb + 1): v for k, v in enumerate(script)}
        lp.Script.reset(verd, truth)
        ev = {'ev': 'loop', 'tid': len(events), 'pk': pk, 'bk': bk, 'npts': npts, 'script': script, 'out': 'ok',
              'nres': 0, 'pb': [0, 0], 'outcome': '', 'fitted': []}
        try:
            # model specifications: instance, list, tuple, one-shot generator; the window as [x, range] or as the
            # transposed [range, x] ("sizes {dim: n, 'range': 2}" names no order of the dimensions)
            bspec = bkgs[0] if len(bkgs) == 1 and ci % 2 else (bkgs, (b for b in bkgs), tuple(bkgs))[ci % 3]
            pspec = peaks[0] if len(peaks) == 1 and ci % 4 < 2 else (tuple(peaks), peaks, (p_ for p_ in peaks))[ci % 3]
            win = sc.array(dims=['x', 'range'], values=[[lo, hi]], unit='m')
            if ci % 5 == 1:
                win = sc.array(dims=['range', 'x'], values=[[lo], [hi]], unit='m')
            elif ci % 5 == 2:
                win = win.transpose(['range', 'x'])
            res = fit_peaks(data, peak_estimates=sc.array(dims=['x'], values=[16.0], unit='m'), windows=win,
                            background=bspec, peak=pspec, fit_requirements=FitRequirements(min_p_value=0.0))
            ev['nres'] = len(res)
            n_in = int(np.sum((x >= lo) & (x < hi)))
            if n_in != npts:
                raise MachineryError(f'loop window holds {n_in} points, wanted {npts}')
            if len(res) == 1:
                r = res[0]
                ev['pb'] = [int(getattr(r.peak, 'tag', 0)), int(getattr(r.background, 'tag', 0))]
                a = r.assessment.name
                ev['outcome'] = a if a in ('success', 'failed', 'window_too_narrow') else 'rejected'
                ev['assess'] = a
                ev['fitted'] = sorted({(p, b) for p, b in lp.Script.fitted if b is not None})
                ev['fitted'] = [list(t) for t in ev['fitted']]
        except MachineryError:
            raise
        except Exception as e:  # noqa: BLE001
            ev['out'] = 'raised'
            ev['key'] = _exc_key('fit_peaks', e)
            ev['exc'] = repr(e)[:200]
        events.append(ev)
        ctx.case(nontrivial_id=('l', tuple(pk), tuple(bk), npts, tuple(script)) if any(c['fits']) else None)


# ----------------------------------------------------------------------------------------------- removal, exact
SPECIALS = np.array([-0.0, np.nan, np.inf, -np.inf, 5e-324, -2.2250738585072014e-308, 0.0, 1.7976931348623157e308])


def _rmexact_part(ctx, events, recipes):
    from scippneutron.peaks import FitAssessment, FitResult, remove_peaks
    from scippneutron.peaks.model import PolynomialModel

    _, _, IntPeak = lp.make_scripted_models()
    rng = ctx.rng
    bkg = PolynomialModel(degree=1, prefix='bkg_')
    fail_kinds = [a for a in FitAssessment if a != FitAssessment.success]

    def one(evs, inp, res, var):
        """var = (element type of the data, layout of the data, form in which the results are listed)."""
        dtype, layout, form = var
        n = len(inp)
        xs = np.arange(1, n + 1, dtype='float64')

        def make(values):
            da = sc.DataArray(sc.array(dims=['x'], values=np.asarray(values, dtype=dtype), unit='counts'),
                              coords={'x': sc.array(dims=['x'], values=xs, unit='counts')})
            da.coords['aux'] = sc.arange('x', n, unit='s')
            return laid_out(da, layout, 'x')

        da = make(inp)
        sp = make(SPECIALS[np.arange(n) % len(SPECIALS)])      # the same removal on special values (bit patterns)
        snap, sp_snap = da.copy(deep=True), sp.copy(deep=True)
        frs = []
        for i, q in enumerate(res):
            frs.append(FitResult(
                aic=sc.scalar(np.nan), red_chisq=sc.scalar(np.nan), p_value=sc.scalar(np.nan), message='',
                assessment=FitAssessment.success if q['succ'] else fail_kinds[i % len(fail_kinds)],
                background=bkg, peak=IntPeak(prefix='peak_'),
                popt={'peak_amp': sc.scalar(float(q['amp']), unit='counts'),
                      'bkg_a0': sc.scalar(1.0, unit='counts'), 'bkg_a1': sc.scalar(0.0)},
                window=sc.array(dims=['range'], values=[q['lo'] - 0.5, q['hi'] + 0.5], unit='counts')))
        states = [result_state(r) for r in frs]

        def listed():
            # the results are independent of each other: any listing order, any iterable
            return {'list': frs, 'iterator': iter(frs), 'tuple': tuple(frs), 'reversed': frs[::-1],
                    'generator': (r for r in frs[::-1])}[form]

        ev = {'ev': 'rmexact', 'tid': len(evs), 'inp': list(map(int, inp)), 'out': 'ok', 'variant': list(var),
              'res': [{'succ': bool(q['succ']), 'lo': q['lo'], 'hi': q['hi'],
                       'pv': [q['amp'] + x for x in range(1, n + 1)]} for q in res],
              'res_out': [], 'inp_after': [], 'input_same': True, 'special_same': True, 'results_same': True,
              'again_same': True}
        try:
            out = remove_peaks(da, listed())
            vals = np.asarray(out.values, dtype='float64')
            ev['inp_after'] = [int(v) for v in da.values]
            ev['input_same'] = bool(da_bits(da) == da_bits(snap))
            if not (len(vals) == n and np.all(np.isfinite(vals)) and all(float(v).is_integer() for v in vals)):
                ev['out'] = 'nonfinite'           # (or not an integer: integers minus integers)
                ev['values'] = [repr(float(v)) for v in vals[:12]]
            else:
                ev['res_out'] = [int(v) for v in vals]
            if not sc.identical(out.coords['x'], snap.coords['x']) or not sc.identical(out.coords['aux'], snap.coords['aux']):
                ctx.violation('remove_peaks changed coordinates of the output', {'event': ev})
            # bit patterns outside every successful window (-0.0, NaN, infinities, subnormals)
            outside = np.array([not any(q['succ'] and q['lo'] <= x <= q['hi'] for q in res) for x in range(1, n + 1)])
            so = remove_peaks(sp, listed())
            sa = np.ascontiguousarray(np.asarray(so.values, dtype='float64'))
            sb = np.ascontiguousarray(np.asarray(sp_snap.values, dtype='float64'))
            same_bits = (sa.view(np.uint64) == sb.view(np.uint64)) | (np.isnan(sa) & np.isnan(sb)) if sa.shape == sb.shape \
                else np.zeros(n, dtype=bool)
            ev['special_same'] = bool(np.all(same_bits[outside]) and da_bits(sp) == da_bits(sp_snap))
            ev['results_same'] = bool([result_state(r) for r in frs] == states)
            ev['again_same'] = bool(bits(remove_peaks(da, listed()).data) == bits(out.data))
        except MachineryError:
            raise
        except Exception as e:  # noqa: BLE001
            ev['out'] = 'raised'
            ev['key'] = _exc_key('remove_peaks', e)
            ev['exc'] = repr(e)[:200]
        evs.append(ev)
        ctx.case(nontrivial_id=('rx', tuple(inp), json.dumps(res)) if any(q['succ'] and q['lo'] <= q['hi'] for q in res) else None)

    count = [0]

    def run(inp, res):
        count[0] += 1
        k = count[0]
        var = (('float64', 'float64', 'float32')[k % 3], ('contiguous', 'strided', 'contiguous', 'row')[k % 4],
               ('list', 'iterator', 'tuple', 'reversed', 'generator')[k % 5])

        def fn(evs, inp=list(inp), res=[dict(q) for q in res], var=var):
            one(evs, inp, res, var)
        fn(events)
        recipes.append((len(events) - 1, len(events), fn))

    # all configurations of the exhaustive model's shape: N = 4, <= 2 results
    N = 4
    wins = [(lo, hi) for lo in range(1, N + 1) for hi in range(0, N + 1) if lo <= hi + 1]
    singles = [{'succ': s, 'lo': lo, 'hi': hi, 'amp': a} for s in (True, False) for lo, hi in wins for a in (1, 10)]
    inp0 = [7, 0, 5, 100]
    run(inp0, [])
    for q in singles:
        run(inp0, [q])
    pairs = [(a, b) for a in singles for b in singles]
    if not ctx.thorough:
        pairs = rng.sample(pairs, 600)
    for a, b in pairs:
        run([rng.randrange(0, 50) for _ in range(N)], [a, b])
    for _ in range(1500 if ctx.thorough else 300):
        n = rng.choice([1, 2, 7, 30, 200])
        res = []
        for _ in range(rng.randrange(0, 6)):
            lo = rng.randrange(1, n + 1)
            hi = rng.randrange(lo - 1, n + 1)
            res.append({'succ': rng.random() < 0.6, 'lo': lo, 'hi': hi, 'amp': rng.randrange(-50, 50)})
        run([rng.randrange(-1000, 1000) for _ in range(n)], res)


# ----------------------------------------------------------------------------------------------- real fits
def _model_spec(rng, kinds, role):
    """Return (spec object for fit_peaks, list of kinds in attempt order, description)."""
    from scippneutron.peaks import model as M

    def inst(kind, prefix):
        if role == 'peak':
            cls = {'gaussian': M.GaussianModel, 'lorentzian': M.LorentzianModel, 'pseudo_voigt': M.PseudoVoigtModel}[kind]
            return cls(prefix=prefix)
        return M.PolynomialModel(degree=lp.BKG_DEGREE[kind], prefix=prefix)

    form = rng.choice(['name', 'instance', 'instance_prefixed'] if len(kinds) == 1
                      else ['names_list', 'names_tuple', 'instances', 'mixed', 'iterator'])
    if form == 'name':
        return kinds[0], form
    if form == 'instance':
        return inst(kinds[0], ''), form
    if form == 'instance_prefixed':
        return inst(kinds[0], rng.choice(['p_', 'a', 'peak_', 'bkg_'])), form
    if form == 'names_list':
        return list(kinds), form
    if form == 'names_tuple':
        return tuple(kinds), form
    if form == 'instances':
        return [inst(k, rng.choice(['', 'x_'])) for k in kinds], form
    if form == 'mixed':
        return [k if i % 2 else inst(k, 'm') for i, k in enumerate(kinds)], form
    return iter([k if i % 2 == 0 else inst(k, '') for i, k in enumerate(kinds)]), form


def _result_kinds(r):
    pk = lp.kind_of_model(r.peak)
    bk = lp.kind_of_model(r.background)
    deg = getattr(r.background, 'degree', None)
    return pk, ('linear' if deg == 1 else 'quadratic' if deg == 2 else f'{bk}{deg}')


def _strip(popt, prefix):
    return {k[len(prefix):]: float(sc.values(v).value) for k, v in popt.items() if k.startswith(prefix)}


def _popt_close(a, b):
    if a.keys() != b.keys():
        return False
    for k in a:
        x, y = float(sc.values(a[k]).value), float(sc.values(b[k]).value)
        if math.isnan(x) and math.isnan(y):
            continue
        if not lp.close(x, y, 1e-9, 1e-300):
            return False
    return True


def _fit_event(ctx, tid, r, x, y, var, step, req, spec_pk, spec_bk):
    """Recompute everything stated about one FitResult; a result the harness cannot even read (fields missing,
    of the wrong shape or type) is a verdict (`result_is_malformed`), not a crash."""
    try:
        ev = _fit_event_inner(ctx, tid, r, x, y, var, step, req, spec_pk, spec_bk)
    except MachineryError:
        raise
    except Exception as e:  # noqa: BLE001
        ev = {'ev': 'fit', 'tid': tid, 'assess': 'unreadable', 'k': 0, 'nmin': 0, 'nmax': 0, 'peak': '', 'bkg': '',
              'models_ok': True, 'keys_ok': True, 'p_defined': True, 'req': [True] * 6, 'red_ok': True, 'p_ok': True,
              'aic_ok': True, 'p_clearly_ok': False, 'recomputed': False, 'exc': repr(e)[:300]}
        ev['malformed'] = True
    ev.setdefault('malformed', False)
    try:
        ev['success_flag_ok'] = bool(bool(r.success) == (ev['assess'] == 'success')) or ev['malformed']
    except Exception:  # noqa: BLE001
        ev['success_flag_ok'] = False
    return ev


def _fit_event_inner(ctx, tid, r, x, y, var, step, req, spec_pk, spec_bk):
    w0, w1 = float(r.window.values[0]), float(r.window.values[1])
    sel = (x >= w0) & (x < w1)
    sel_closed = (x >= w0) & (x <= w1)
    nmin, nmax = int(sel.sum()), int(sel_closed.sum())
    pk, bk = _result_kinds(r)
    a = r.assessment.name
    k = len(r.popt)
    ev = {'ev': 'fit', 'tid': tid, 'assess': a, 'k': k, 'nmin': nmin, 'nmax': nmax, 'peak': pk, 'bkg': bk,
          'models_ok': bool(pk in spec_pk and bk in spec_bk),
          'keys_ok': bool(set(r.popt.keys()) == set(r.peak.param_names) | set(r.background.param_names)),
          'p_defined': True, 'req': [True] * 6, 'red_ok': True, 'p_ok': True, 'aic_ok': True, 'p_clearly_ok': False,
          'recomputed': False}
    if not (ev['models_ok'] and ev['keys_ok']):
        return ev
    pp = _strip(r.popt, r.peak.prefix)
    bp = _strip(r.popt, r.background.prefix)
    vals = list(pp.values()) + list(bp.values())
    if a in ('window_too_narrow', 'failed') or not all(map(math.isfinite, vals)):
        if a == 'success':
            ev['p_defined'] = False      # a success without finite parameters cannot satisfy anything
        return ev
    if pp.get('scale', 1.0) < 1e-6 * step:
        # degenerate width (a peak a million times narrower than the grid spacing): the model is clamped by the
        # implementation (documented nowhere): no recomputation
        if a == 'success':
            ev['req'][5] = False
        return ev
    deg = lp.BKG_DEGREE[bk]
    coefs = [bp[f'a{i}'] for i in range(deg + 1)]
    verdicts = []
    eps = 2.0 ** -52
    for s in ([sel] if nmin == nmax else [sel, sel_closed]):
        xs, ys, vs = x[s], y[s], var[s]
        n = len(xs)
        # reference model values in extended precision (the harness' own closed forms)
        xl = xs.astype(np.longdouble)
        f = np.asarray(lp.np_poly_ld(xl, coefs) + lp.np_peak(pk, xl, pp), dtype=np.longdouble)
        st = lp.recompute_stats(ys, vs, np.asarray(f, dtype='float64'), k, f_exact=f)
        # Rounding of the implementation's own float evaluation of the model ("to rounding"): the polynomial
        # a0 + a1 x + a2 x^2 is evaluated in raw x, so each value carries an error of a few eps times the sum of
        # the magnitudes of its terms (this dominates when x is far from 0).  32 eps covers Horner (2 ops per
        # degree), the peak (<= 8 ops) and the final sum.  Propagated to chi^2 = sum r_i^2 / var_i:
        mag = sum(abs(c) * np.abs(xs) ** j for j, c in enumerate(coefs)) + np.abs(lp.np_peak(pk, xs, pp)) + np.abs(ys)
        dlt = 32 * eps * mag
        res_ = np.abs(ys - np.asarray(f, dtype='float64'))
        tol_chi = float(np.sum((2 * res_ * dlt + dlt**2) / vs)) + 1e-12 * st['chi2']
        rep_red, rep_p, rep_aic = (float(r.red_chisq.value), float(r.p_value.value), float(r.aic.value))
        v = {'p_defined': st['nu'] > 0}
        if st['nu'] > 0:
            v['red_ok'] = bool(math.isfinite(rep_red) and abs(rep_red - st['red']) <= tol_chi / st['nu'])
            v['p_ok'] = lp.close(rep_p, st['p'], 1e-9, 1e-10)
            if not v['p_ok'] and math.isfinite(rep_p):
                plo = lp.chi2_sf(st['chi2'] + tol_chi, st['nu'])
                phi = lp.chi2_sf(max(st['chi2'] - tol_chi, 0.0), st['nu'])
                v['p_ok'] = bool(plo - 1e-10 - 1e-9 * plo <= rep_p <= phi + 1e-10 + 1e-9 * phi)
            tol_aic = 1.01 * n * tol_chi / st['chi2'] + 1e-10 * (n + abs(st['aic_ls'])) if st['chi2'] > 0 else math.inf
            v['aic_ok'] = bool(math.isfinite(rep_aic) and (abs(rep_aic - st['aic_ls']) <= tol_aic
                                                        or abs(rep_aic - st['aic_known']) <= tol_chi + 1e-10 * abs(st['aic_known'])))
        else:
            v['red_ok'] = v['p_ok'] = v['aic_ok'] = True
        # requirements
        if n > deg + 1:
            chi_b, tol_b = lp.best_polynomial_chi2(xs, ys, vs, deg, dlt)
        else:
            chi_b, tol_b = 0.0, 0.0
        aic_b = n * math.log(chi_b / n) + 2 * (deg + 1) if chi_b > 0 else -math.inf
        aic_f = st['aic_ls']
        if math.isfinite(aic_b) and math.isfinite(aic_f):
            band = n * (tol_chi / st['chi2'] + tol_b / chi_b) + 1e-6 * (n + abs(aic_b))
            r1 = aic_f <= aic_b + band
        else:
            r1 = True      # a perfect fit (chi^2 = 0) on either side: no statement
        p = st['p']
        r2 = p is not None and p >= req['min_p'] - 1e-9
        r3 = xs[0] <= pp['loc'] <= xs[-1] if n else False
        r4 = pp['amplitude'] >= 0
        fw = lp.fwhm_of(pk, pp)
        r5 = fw <= req['max_w'] * (w1 - w0) * (1 + 1e-12)
        r6 = fw >= req['min_w'] * step * (1 - 1e-12)
        v['req'] = [bool(t) for t in (r1, r2, r3, r4, r5, r6)]
        v['p_clearly_ok'] = bool(p is not None and p >= req['min_p'] * (1 + 1e-6) + 1e-9)
        v['stats'] = {kk: st[kk] for kk in ('n', 'nu', 'chi2', 'red', 'p', 'aic_ls')}
        v['stats']['tol_chi2'] = tol_chi
        v['stats']['aic_background_alone'] = aic_b
        v['reported'] = {'red': rep_red, 'p': rep_p, 'aic': rep_aic}
        verdicts.append(v)

    def good(v):
        ok_stats = v['red_ok'] and v['p_ok'] and v['aic_ok']
        return ok_stats and (a != 'success' or (v['p_defined'] and all(v['req'])))

    best = next((v for v in verdicts if good(v)), verdicts[0])   # either reading of the upper edge
    ev.update({kk: best[kk] for kk in ('p_defined', 'red_ok', 'p_ok', 'aic_ok', 'req', 'p_clearly_ok')})
    ev['stats'] = best['stats']
    ev['reported'] = best['reported']
    ev['recomputed'] = True
    return ev


def _spectra_part(ctx, events, n_spectra, n_calls):
    from scippneutron.peaks import FitParameters, FitRequirements, fit_peaks, remove_peaks

    rng = ctx.rng
    n_results = 0
    for si in range(n_spectra):
        nrng = np.random.default_rng(rng.getrandbits(32))
        n_peaks = 1 + si % 6
        n_points = rng.choice([120, 200, 400])
        step = rng.choice([0.5, 0.02, 3.0])
        x0 = rng.choice([0.0, -37.0, 1000.0])
        noise = rng.choice([0.3, 1.0, 5.0])
        deg = 1 + (si // 6) % 2
        x, y, var, truth = lp.synthetic_spectrum(nrng, n_points=n_points, n_peaks=n_peaks, bkg_degree=deg,
                                                 noise=noise, x0=x0, step=step, poisson=(si % 5 == 4))
        # uniformly tiny / huge magnitudes (exact powers of two): hidden absolute thresholds
        sx, sy = ((1.0, 1.0), (1.0, 1.0), (2.0**-20, 2.0**40), (2.0**30, 2.0**-40))[si % 4]
        x, y, var, step = x * sx, y * sy, var * sy * sy, step * sx
        truth = [(kind, {**p, 'loc': p['loc'] * sx, 'scale': p['scale'] * sx, 'amplitude': p['amplitude'] * sx * sy})
                 for kind, p in truth]
        data = sc.DataArray(sc.array(dims=['d'], values=y, variances=var, unit='counts'),
                            coords={'d': sc.array(dims=['d'], values=x, unit='angstrom')})
        snapshot = data.copy(deep=True)
        span = x[-1] - x[0]
        # how many calls on this spectrum, with different model specifications / windows
        for ci in range(n_calls):
            pk_kinds = rng.sample(MODELS, rng.choice([1, 1, 2, 3]))
            bk_kinds = rng.sample(['linear', 'quadratic'], rng.choice([1, 1, 2]))
            pspec, pform = _model_spec(rng, pk_kinds, 'peak')
            bspec, bform = _model_spec(rng, bk_kinds, 'bkg')
            ests = [p['loc'] + rng.uniform(-1, 1) * p['scale'] for _, p in truth]
            mode = rng.random()
            if mode < 0.2:         # estimates at the edges / outside the data
                ests.append(rng.choice([x[0], x[-1], x[0] - rng.uniform(0, 0.2) * span, x[-1] + rng.uniform(0, 0.2) * span]))
                if rng.random() < 0.3:
                    ests.append(rng.choice([x[0] - 0.3 * span, x[-1] + 0.3 * span]))
            ests = sorted(ests)
            req = {'min_p': rng.choice([0.01, 0.01, 0.2, 1e-6]), 'max_w': rng.choice([1.0, 1.0, 0.25]),
                   'min_w': rng.choice([1.0, 1.0, 4.0])}
            wkind = rng.random()
            if wkind < 0.12:       # below the grid spacing ... fewer points than parameters
                width = step * rng.choice([0.3, 0.9, 1.5, 2.5, 3.5])
            elif wkind < 0.16:     # a handful of points (slow: such fits rarely converge)
                width = step * rng.choice([4.5, 5.5, 6.5, 7.5, 8.5])
            elif wkind < 0.9:
                width = step * math.exp(rng.uniform(math.log(12), math.log(n_points / 2)))
            else:                  # the full range and beyond
                width = span * rng.choice([1.0, 1.5])
            explicit = rng.random() < 0.2 or (ci == n_calls - 1 and si % 2 == 0)
            cdata, csnap, variant = data, snapshot, ''
            if explicit:
                # explicit windows are taken as given: any listing order, either order of the two dimensions, and
                # (explicit windows only, see _windows_part for automatic ones) any element type of the coordinate
                rng.shuffle(ests)
                wv = [[e - width * rng.uniform(0.3, 0.7), e + width * rng.uniform(0.3, 0.7)] for e in ests]
                windows = sc.array(dims=['d', 'range'], values=wv, unit='angstrom')
                wl = rng.choice(['d,range', 'range,d', 'transposed view'])
                if wl == 'range,d':
                    windows = sc.array(dims=['range', 'd'], values=np.ascontiguousarray(np.asarray(wv).T), unit='angstrom')
                elif wl == 'transposed view':
                    windows = windows.transpose(['range', 'd'])
                xt, xd = typed_array(x, rng.choice(['float64', 'float32', 'int64']))
                if xd != 'float64':
                    cdata = data.copy(deep=True)
                    cdata.coords['d'] = sc.array(dims=['d'], values=xt, unit='angstrom')
                    csnap = cdata.copy(deep=True)
                variant = f'windows {wl}, coordinate {xd}'
            else:
                windows = sc.scalar(width, unit='angstrom')
            est_var = sc.array(dims=['d'], values=ests, unit='angstrom')
            fr = FitRequirements(min_p_value=req['min_p'], max_peak_width_factor=req['max_w'],
                                 min_peak_width_factor=req['min_w'])
            cev = {'ev': 'call', 'tid': len(events), 'nest': len(ests), 'out': 'ok', 'nres': 0, 'order_ok': True,
                   'iso': [], 'forms': [pform, bform], 'peak': pk_kinds, 'bkg': bk_kinds, 'explicit': explicit,
                   'width_in_steps': round(width / step, 3), 'variant': variant, 'scales': [sx, sy], 'args_same': True,
                   'again_same': True}
            before = (bits(est_var), bits(windows), repr(fr))
            try:
                res = fit_peaks(cdata, peak_estimates=est_var, windows=windows, background=bspec, peak=pspec,
                                fit_requirements=fr)
            except Exception as e:  # noqa: BLE001
                cev['out'] = 'raised'
                cev['key'] = _exc_key('fit_peaks', e)
                cev['exc'] = repr(e)[:200]
                cev['ests_rel'] = [round((e_ - x[0]) / span, 4) for e_ in ests]
                if variant:
                    cev['key'] += f' ({variant})'
                events.append(cev)
                ctx.case()
                continue
            if da_bits(cdata) != da_bits(csnap):
                ctx.violation('fit_peaks modified its input data', {'call': cev})
            cev['args_same'] = bool((bits(est_var), bits(windows), repr(fr)) == before)
            cev['nres'] = len(res)
            # order: explicit windows are returned as given; automatic windows are ordered like the estimates
            if explicit:
                cev['order_ok'] = bool(len(res) == len(ests) and all(
                    np.array_equal(r.window.values, np.asarray(wv[i])) for i, r in enumerate(res)))
            else:
                cev['order_ok'] = bool(all(
                    (not (x[0] <= ests[i] <= x[-1])) or r.window.values[0] <= ests[i] <= r.window.values[1]
                    for i, r in enumerate(res[:len(ests)])))
            do_iso = ctx.thorough or (si + ci) % 2 == 0
            for i, r in enumerate(res):
                fev = _fit_event(ctx, len(events) + 1 + i, r, x, y, var, step, req, pk_kinds, bk_kinds)
                n_results += 1
                ctx.case(nontrivial_id=('f', si, ci, i) if fev['recomputed'] else None)
                cev.setdefault('_fits', []).append(fev)
                # (a non-converging fit costs seconds and repeats deterministically: not refitted)
                if do_iso and i < len(ests) and r.assessment.name != 'failed':
                    # the same peak fitted alone on the same window must give the same result
                    try:
                        pk2, _ = _model_spec_repeat(pk_kinds, 'peak')
                        bk2, _ = _model_spec_repeat(bk_kinds, 'bkg')
                        alone = fit_peaks(cdata, peak_estimates=est_var['d', i:i + 1],
                                          windows=sc.concat([r.window], 'd'),
                                          background=bk2, peak=pk2, fit_requirements=fr)
                        same = (len(alone) == 1 and alone[0].assessment == r.assessment
                                and _result_kinds(alone[0]) == _result_kinds(r) and _popt_close(alone[0].popt, r.popt))
                    except Exception as e:  # noqa: BLE001
                        same = False
                        cev['iso_exc'] = repr(e)[:200]
                    cev['iso'].append(bool(same))
            if (ctx.thorough and ci == 0) or (si % 4 == 1 and ci == 0) or (explicit and len(ests) <= 2):
                # the same call again, with the same data / estimates / windows / requirements objects
                if ctx.thorough or not any(r.assessment.name == 'failed' for r in res):
                    try:
                        again = fit_peaks(cdata, peak_estimates=est_var, windows=windows,
                                          background=_model_spec_repeat(bk_kinds, 'bkg')[0],
                                          peak=_model_spec_repeat(pk_kinds, 'peak')[0], fit_requirements=fr)
                        cev['again_same'] = bool(results_agree(res, again))
                    except Exception as e:  # noqa: BLE001
                        cev['again_same'] = False
                        cev['again_exc'] = repr(e)[:200]
            fits = cev.pop('_fits', [])
            events.append(cev)
            ctx.case()
            events.extend(fits)
            # ---- first success wins, against single-combination calls
            if (len(pk_kinds) > 1 or len(bk_kinds) > 1) and (ctx.thorough or ci == 0):
                for i, r in enumerate(res[:2]):
                    if r.assessment.name == 'failed' and not ctx.thorough:
                        continue
                    outs, same = [], True
                    win = sc.concat([r.window], 'd')
                    for p in pk_kinds:
                        for b in bk_kinds:
                            try:
                                [one] = fit_peaks(cdata, peak_estimates=est_var['d', i:i + 1], windows=win, background=b,
                                                  peak=p, fit_requirements=fr)
                                o = one.assessment.name
                                outs.append(o if o in ('success', 'failed', 'window_too_narrow') else 'rejected')
                                if _result_kinds(one) == _result_kinds(r) and not (
                                        one.assessment == r.assessment and _popt_close(one.popt, r.popt)):
                                    same = False
                            except Exception:  # noqa: BLE001
                                outs.append('raised')
                    rk = _result_kinds(r)
                    a = r.assessment.name
                    events.append({'ev': 'select', 'tid': len(events), 'nb': len(bk_kinds), 'outs': outs,
                                   'pb': [pk_kinds.index(rk[0]) + 1 if rk[0] in pk_kinds else 0,
                                          bk_kinds.index(rk[1]) + 1 if rk[1] in bk_kinds else 0],
                                   'outcome': a if a in ('success', 'failed', 'window_too_narrow') else 'rejected',
                                   'same': bool(same), 'peak': pk_kinds, 'bkg': bk_kinds})
                    ctx.case(nontrivial_id=('s', si, ci, i) if 'success' in outs[1:] else None)
            # ---- removal
            _remove_event(ctx, events, remove_peaks, cdata, res, x, y)
    ctx.extra['fit_results_examined'] = n_results


SCALES = ((1.0, 1.0), (2.0**-20, 2.0**40), (2.0**30, 2.0**-40), (2.0**-20, 2.0**-40), (2.0**30, 2.0**40))


def _zero_dof_part(ctx, events, n_seeds, recipes):
    """Windows holding exactly as many points as the model has parameters (and one more / one fewer), at ordinary,
    tiny and huge magnitudes of the coordinate and of the data (exact powers of two)."""
    from scippneutron.peaks import fit_peaks

    rng = ctx.rng
    combos = [('linear', 'gaussian', 5), ('quadratic', 'lorentzian', 6), ('linear', 'pseudo_voigt', 6),
              ('quadratic', 'pseudo_voigt', 7)]
    req = {'min_p': 0.01, 'max_w': 1.0, 'min_w': 1.0}

    def case(evs, seed, bk, pk, k, n, nseed, sx, sy):
        nrng = np.random.default_rng(nseed)
        step = 0.5 * sx
        x = step * np.arange(81, dtype='float64')
        loc = (20.0 + float(nrng.uniform(-0.2, 0.2))) * sx
        s = float(nrng.choice([0.4, 0.7, 1.0])) * sx
        pp = {'amplitude': 50.0 * sx * sy, 'loc': loc, 'scale': s, 'fraction': 0.5}
        y = (10 + 0.05 * x / sx + nrng.normal(0, 0.3, len(x))) * sy + lp.np_peak(pk, x, pp)
        var = np.full(len(x), 0.09 * sy * sy)
        data = sc.DataArray(sc.array(dims=['d'], values=y, variances=var, unit='counts'),
                            coords={'d': sc.array(dims=['d'], values=x, unit='angstrom')})
        half = (n - 1) / 2 * step + 0.1 * step
        c = (20.0 if n % 2 else 20.25) * sx
        wv = [[c - half, c + half]]
        if int(((x >= wv[0][0]) & (x < wv[0][1])).sum()) != n or int(((x >= wv[0][0]) & (x <= wv[0][1])).sum()) != n:
            raise MachineryError(f'zero-dof window does not hold {n} points')
        cev = {'ev': 'call', 'tid': 0, 'nest': 1, 'out': 'ok', 'nres': 0, 'order_ok': True, 'iso': [],
               'forms': ['name', 'name'], 'peak': [pk], 'bkg': [bk], 'explicit': True, 'points': n, 'params': k,
               'scales': [sx, sy], 'args_same': True, 'again_same': True}
        try:
            res = fit_peaks(data, peak_estimates=sc.array(dims=['d'], values=[20.0 * sx], unit='angstrom'),
                            windows=sc.array(dims=['d', 'range'], values=wv, unit='angstrom'),
                            background=bk, peak=pk)
        except Exception as e:  # noqa: BLE001
            cev.update(out='raised', key=_exc_key('fit_peaks', e), exc=repr(e)[:200])
            evs.append(cev)
            ctx.case()
            return
        cev['nres'] = len(res)
        cev['order_ok'] = bool(all(np.array_equal(np.asarray(r.window.values), np.asarray(wv[0])) for r in res))
        evs.append(cev)
        if not cev['order_ok']:
            return              # (the window is not the one given: the point counts below would not be comparable)
        for r in res:
            evs.append(_fit_event(ctx, 0, r, x, y, var, step, req, [pk], [bk]))
            ctx.case(nontrivial_id=('z', seed, bk, pk, n, sx, sy))

    for seed in range(n_seeds):
        for ci, (bk, pk, k) in enumerate(combos):
            nseed = rng.getrandbits(32)
            sx, sy = SCALES[(seed * len(combos) + ci) % len(SCALES)]
            for n in (k - 1, k, k + 1):
                def fn(evs, a=(seed, bk, pk, k, n, nseed, sx, sy)):
                    case(evs, *a)
                start = len(events)
                fn(events)
                recipes.append((start, len(events), fn))


def _requirements_part(ctx, events, recipes):
    """One well separated Gaussian on a flat background, fitted with requirements it clearly violates (a peak
    narrower than min_peak_width_factor grid spacings; wider than max_peak_width_factor windows) and clearly meets,
    at ordinary, tiny and huge magnitudes of x and y: the assessment must not depend on the magnitudes (whatever it
    is, `success` requires every requirement - judged per result like all other fits)."""
    from scippneutron.peaks import FitRequirements, fit_peaks

    rng = ctx.rng

    def case(evs, nseed, sx, sy, which, pk='gaussian'):
        nrng = np.random.default_rng(nseed)
        step = 0.5 * sx
        x = step * np.arange(121, dtype='float64') - 7.0 * sx
        width_steps, req = {
            'too narrow': (0.45, {'min_p': 1e-6, 'max_w': 1.0, 'min_w': 4.0}),     # FWHM ~ 1.06 steps < 4 steps
            # FWHM 3.7 steps against a minimum of 4: 8 % below the requirement (a width that is wrong by more than that
            # - e.g. a pseudo-Voigt FWHM that adds a Gaussian factor - lets it pass)
            'marginally narrow': (3.7 / 2.3548200450309493, {'min_p': 1e-6, 'max_w': 1.0, 'min_w': 4.0}),
            'too wide': (6.0, {'min_p': 1e-6, 'max_w': 0.25, 'min_w': 1.0}),        # FWHM ~ 14 steps > 0.25 * 40 steps
            'fine': (2.0, {'min_p': 1e-6, 'max_w': 1.0, 'min_w': 1.0}),
        }[which]
        pp = {'amplitude': 400.0 * width_steps * sx * sy, 'loc': 23.1 * sx, 'scale': width_steps * step}
        y = (30 + nrng.normal(0, 1.0, len(x))) * sy + lp.np_gaussian(x, pp['amplitude'], pp['loc'], pp['scale'])
        var = np.full(len(x), sy * sy)
        data = sc.DataArray(sc.array(dims=['d'], values=y, variances=var, unit='counts'),
                            coords={'d': sc.array(dims=['d'], values=x, unit='angstrom')})
        cev = {'ev': 'call', 'tid': 0, 'nest': 1, 'out': 'ok', 'nres': 0, 'order_ok': True, 'iso': [],
               'forms': ['name', 'name'], 'peak': [pk], 'bkg': ['linear'], 'explicit': False, 'which': which,
               'scales': [sx, sy], 'args_same': True, 'again_same': True}
        try:
            res = fit_peaks(data, peak_estimates=sc.array(dims=['d'], values=[23.0 * sx], unit='angstrom'),
                            windows=sc.scalar(20.0 * sx, unit='angstrom'), background='linear', peak=pk,
                            fit_requirements=FitRequirements(min_p_value=req['min_p'], max_peak_width_factor=req['max_w'],
                                                             min_peak_width_factor=req['min_w']))
        except Exception as e:  # noqa: BLE001
            cev.update(out='raised', key=_exc_key('fit_peaks', e), exc=repr(e)[:200])
            evs.append(cev)
            ctx.case()
            return
        cev['nres'] = len(res)
        evs.append(cev)
        for r in res:
            evs.append(_fit_event(ctx, 0, r, x, y, var, step, req, [pk], ['linear']))
            ctx.case(nontrivial_id=('q', which, sx, sy, pk))

    for sx, sy in SCALES:
        nseed = rng.getrandbits(32)
        for which, pk in (('too narrow', 'gaussian'), ('too wide', 'gaussian'), ('fine', 'gaussian'),
                          ('marginally narrow', 'gaussian'), ('marginally narrow', 'pseudo_voigt'),
                          ('marginally narrow', 'lorentzian'), ('fine', 'pseudo_voigt')):
            if not ctx.thorough and which == 'marginally narrow' and pk != 'pseudo_voigt' and (sx, sy) not in SCALES[:2]:
                continue      # quick: the other peak models at two magnitudes only
            def fn(evs, a=(nseed, sx, sy, which, pk)):
                case(evs, *a)
            start = len(events)
            fn(events)
            recipes.append((start, len(events), fn))

    # A weak or absent peak on a strongly curved background, fitted with a LIST of backgrounds: the first
    # combination (linear) is hopeless and rejected, the second (quadratic) describes the data without any peak.
    # Whatever is returned, `success` requires that background + peak is at least as good (AIC) as the background
    # OF THE RESULT alone - judged per result like every other fit (requirement 1 of FitPeaksDefs).
    def curved(evs, nseed, amp, bks, sx, sy):
        nrng = np.random.default_rng(nseed)
        x = np.linspace(0.0, 10.0, 81) * sx
        step = x[1] - x[0]
        u = x / sx
        y = 50.0 + 3.0 * u + 2.0 * (u - 5.0) ** 2 + lp.np_gaussian(u, amp, 5.0, 0.5) + nrng.normal(0, 1.0, len(x))
        y, var = y * sy, np.full(len(x), sy * sy)
        data = sc.DataArray(sc.array(dims=['d'], values=y, variances=var, unit='counts'),
                            coords={'d': sc.array(dims=['d'], values=x, unit='angstrom')})
        req = {'min_p': 0.01, 'max_w': 1.0, 'min_w': 1.0}
        cev = {'ev': 'call', 'tid': 0, 'nest': 1, 'out': 'ok', 'nres': 0, 'order_ok': True, 'iso': [],
               'forms': ['name', 'name'], 'peak': ['gaussian'], 'bkg': list(bks), 'explicit': False,
               'which': 'weak peak on a curved background', 'scales': [sx, sy], 'args_same': True, 'again_same': True}
        try:
            res = fit_peaks(data, peak_estimates=sc.array(dims=['d'], values=[5.0 * sx], unit='angstrom'),
                            windows=sc.scalar(8.0 * sx, unit='angstrom'), background=list(bks), peak='gaussian',
                            fit_requirements=FitRequirements(min_p_value=req['min_p'], max_peak_width_factor=req['max_w'],
                                                             min_peak_width_factor=req['min_w']))
        except Exception as e:  # noqa: BLE001
            cev.update(out='raised', key=_exc_key('fit_peaks', e), exc=repr(e)[:200])
            evs.append(cev)
            ctx.case()
            return
        cev['nres'] = len(res)
        evs.append(cev)
        for r in res:
            evs.append(_fit_event(ctx, 0, r, x, y, var, step, req, ['gaussian'], list(bks)))
            ctx.case(nontrivial_id=('curved', amp, tuple(bks), sx, sy, nseed))

    for k in range(20 if ctx.thorough else 6):
        nseed = rng.getrandbits(32)
        sx, sy = SCALES[k % len(SCALES)] if k % 4 == 3 else (1.0, 1.0)
        for amp in ((0.0, 0.6, 1.2, 2.5) if ctx.thorough else (0.0, 0.6, 1.2)):
            for bks in (('linear', 'quadratic'), ('quadratic', 'linear'), ('quadratic',)):
                if not ctx.thorough and bks[0] == 'quadratic' and (k % 3 or amp != 0.6):
                    continue      # quick: the quadratic-first listings on every third data set only
                def fn(evs, a=(nseed, amp, bks, sx, sy)):
                    curved(evs, *a)
                start = len(events)
                fn(events)
                recipes.append((start, len(events), fn))


def _model_spec_repeat(kinds, role):
    return (kinds[0] if len(kinds) == 1 else list(kinds)), 'repeat'


def _remove_event(ctx, events, remove_peaks, data, res, x, y):
    d0 = sc.DataArray(sc.values(data.data), coords=dict(data.coords))
    d0.coords['aux'] = sc.arange('d', len(x), unit='s')
    tid = len(events)
    d0 = laid_out(d0, ('contiguous', 'strided', 'row')[tid % 3], 'd')
    snap = d0.copy(deep=True)
    ev = {'ev': 'remove', 'tid': tid, 'out': 'ok', 'input_same': True, 'coords_same': True, 'cover': [],
          'same': [], 'subok': [], 'nsucc': 0, 'results_same': True, 'again_same': True}
    try:
        states = [result_state(r) for r in res]
        listed = (res, tuple(res[::-1]), iter(list(res)))[tid % 3]      # any listing order, any iterable
        out = remove_peaks(d0, listed)
        ev['results_same'] = bool([result_state(r) for r in res] == states)
        ev['again_same'] = bool(bits(remove_peaks(d0, list(res)).data) == bits(out.data)) if tid % 3 == 0 else True
    except Exception as e:  # noqa: BLE001
        ev['out'] = 'raised'
        ev['key'] = _exc_key('remove_peaks', e)
        ev['exc'] = repr(e)[:200]
        events.append(ev)
        ctx.case()
        return
    ev['input_same'] = bool(da_bits(d0) == da_bits(snap))
    try:
        ev['coords_same'] = bool(sc.identical(out.coords['d'], snap.coords['d']) and sc.identical(out.coords['aux'], snap.coords['aux'])
                                 and out.unit == snap.unit and out.dims == snap.dims)
        o = np.asarray(out.values, dtype='float64')
        if o.shape != y.shape:
            raise ValueError('shape')
    except Exception:  # noqa: BLE001
        ev['coords_same'] = False
        events.append(ev)
        ctx.case()
        return
    half = np.zeros(len(x))      # sum of peaks, window read as [w0, w1)
    closed = np.zeros(len(x))    # window read as [w0, w1]
    mag = np.abs(y).copy()
    cov_half = np.zeros(len(x), dtype=bool)
    cov_closed = np.zeros(len(x), dtype=bool)
    for r in res:
        if r.assessment.name != 'success':
            continue
        ev['nsucc'] += 1
        try:
            w0, w1 = float(r.window.values[0]), float(r.window.values[1])
            pk, _ = _result_kinds(r)
            pp = _strip(r.popt, r.peak.prefix)
            pv = lp.np_peak(pk, x, pp)
        except Exception:  # noqa: BLE001
            return              # an unreadable result: already reported by its fit event (result_is_malformed)
        h = (x >= w0) & (x < w1)
        c = (x >= w0) & (x <= w1)
        half += np.where(h, pv, 0.0)
        closed += np.where(c, pv, 0.0)
        mag += np.where(c, np.abs(pv), 0.0)
        cov_half |= h
        cov_closed |= c
    tol = 1e-12 * mag + 1e-300
    with np.errstate(all='ignore'):
        subok = (np.abs(o - (y - half)) <= tol) | (np.abs(o - (y - closed)) <= tol)
    ev['cover'] = [1 if cov_half[i] else (2 if cov_closed[i] else 0) for i in range(len(x))]
    ev['same'] = [bool(v) for v in (o.view(np.uint64) == np.asarray(y, dtype='float64').view(np.uint64))]   # bit for bit
    ev['subok'] = [bool(v) for v in subok]
    events.append(ev)
    ctx.case(nontrivial_id=('rm', ev['tid']) if ev['nsucc'] else None)


# ----------------------------------------------------------------------------------------------- run
KEEP = ('ev', 'tid', 'cfg', 'out', 'wins', 'ongrid', 'pk', 'bk', 'npts', 'script', 'nres', 'pb', 'outcome', 'fitted',
        'nest', 'order_ok', 'iso', 'assess', 'k', 'nmin', 'nmax', 'models_ok', 'keys_ok', 'p_defined', 'req',
        'red_ok', 'p_ok', 'aic_ok', 'p_clearly_ok', 'nb', 'outs', 'same', 'inp', 'res', 'res_out', 'inp_after',
        'input_same', 'coords_same', 'cover', 'subok', 'variant', 'args_same', 'again_same', 'malformed',
        'success_flag_ok', 'special_same', 'results_same', 'second', 'key', 'succ_req', 'assess_full')


def kept(e):
    return {k: v for k, v in e.items() if k in KEEP}


def run(ctx):
    import time
    import warnings
    from concurrent.futures import ThreadPoolExecutor

    warnings.simplefilter('ignore')     # numpy's RankWarning of polynomial guesses on few points is not a verdict
    ctx.rule = RULE
    ctx.assume('a window with exactly as many points as parameters (no degree of freedom) may be reported as '
               'window_too_narrow or with any other non-success assessment')
    ctx.assume('AIC convention: n ln(chi^2/n) + 2k or chi^2 + 2k are both accepted; p = Q(nu/2, chi^2/2) with '
               'nu = n - k; reduced chi^2 = chi^2/nu')
    ctx.assume('the stated requirements are read in their weakest form (see driver docstring); a data point '
               'exactly on the upper window edge may or may not belong to the window')
    ctx.assume('grids are uniform (the property speaks of "the grid spacing"); data carry variances')
    ctx.assume('element types (float32 / integer-typed coordinate, estimates, width), memory layout (strided view, row '
               'of 2-d data), listing order of explicit windows / fit results and the order of the two dimensions of '
               'explicit windows do not change a value, so they are admissible inputs; a second identical call must '
               'agree with the first (assessment, models, window bit for bit, parameters to 1e-9)')
    # ---- 1. design and case generation run beside the fits of part 3 (TLC in threads, fits in this one)
    pool = ThreadPoolExecutor(max_workers=5)
    cfg = 'MC_FitPeaks_thorough.cfg' if ctx.thorough else 'MC_FitPeaks.cfg'
    wf, lf, tf_, vf = (ctx.tmp / f'{n}.ndjson' for n in ('win', 'loop', 'tiny', 'variants'))
    f_gen = pool.submit(ctx.tlc, 'peaks/Gen_FitPeaks.tla', workers=1, timeout=600, count=False,
                        env={'WIN_FILE': str(wf), 'LOOP_FILE': str(lf), 'TINY_FILE': str(tf_), 'VARIANT_FILE': str(vf)})
    f_mc = pool.submit(ctx.tlc, 'peaks/MC_FitPeaks.tla', cfg, timeout=1500, workers=max(2, WORKERS // 2))
    f_negs = [pool.submit(ctx.tlc, 'peaks/MC_FitPeaks.tla', f'Neg_FitPeaks_{neg}.cfg', expect_error=True, timeout=300,
                          workers=2) for neg in ('windows', 'loop', 'assess', 'nocopy', 'allresults', 'guard')]
    events: list = []
    recipes: list = []
    timing = {}

    def timed(name, fn, *a):
        t0 = time.time()
        fn(*a)
        timing[name] = round(time.time() - t0, 1)

    # ---- 3. recorded fits of synthetic spectra (first: they do not need the enumerated cases)
    timed('spectra', _spectra_part, ctx, events, 40 if ctx.thorough else 8, 3 if ctx.thorough else 2)
    timed('zero_dof', _zero_dof_part, ctx, events, 6 if ctx.thorough else 2, recipes)
    timed('requirements', _requirements_part, ctx, events, recipes)
    timed('rmexact', _rmexact_part, ctx, events, recipes)
    # ---- 2. enumerated cases
    require_ok(ctx, f_mc.result(), 'FitPeaks model')
    for f in f_negs:
        f.result()              # a negative control that was not rejected raises MachineryError
    gen = f_gen.result()
    pool.shutdown()
    require_ok(ctx, gen, 'Gen_FitPeaks')

    def load(p):
        return [json.loads(line) for line in p.read_text().splitlines() if line.strip()]

    wcases, lcases, tiny, variants = load(wf), load(lf), load(tf_), load(vf)
    g = gen.tagged('GEN')
    if not g or g[0][1:] != [len(wcases), len(lcases), len(tiny), len(variants)]:
        raise MachineryError(f'case generation incomplete: {g} vs {len(wcases)}, {len(lcases)}, {len(tiny)}, {len(variants)}')
    ctx.extra['enumerated_window_configurations'] = len(wcases) + len(tiny)
    ctx.extra['enumerated_loop_behaviours'] = len(lcases)
    ctx.extra['enumerated_window_variants'] = len(variants)
    timed('windows', _windows_part, ctx, events, wcases, tiny, variants, recipes)
    timed('loop', _loop_part, ctx, events, lcases, recipes)
    # ---- 4. replay: a sample of the cases of every part again, in another order (HARDENING item 6)
    t0 = time.time()
    n_first = len(events)
    by_kind: dict = {}
    for rec in recipes:
        if rec[1] > rec[0]:
            by_kind.setdefault(events[rec[0]]['ev'] + str(events[rec[0]].get('params', '')), []).append(rec)
    sample = []
    for recs in by_kind.values():
        sample += ctx.rng.sample(recs, min(len(recs), 150 if ctx.thorough else 30))
    ctx.rng.shuffle(sample)
    n_replayed = 0
    for start, stop, fn in sample:
        second: list = []
        fn(second)
        firsts = events[start:stop]
        if len(second) != len(firsts):
            events.append({'ev': 'replay', 'tid': 0, 'what': firsts[0]['ev'], 'same': False, 'second': kept(firsts[0]),
                           'note': f'{len(firsts)} events first, {len(second)} on replay'})
            continue
        for e1, e2 in zip(firsts, second, strict=True):
            k1, k2 = kept(e1), kept(e2)
            k1.pop('tid', None), k2.pop('tid', None)
            same = json.dumps(k1, sort_keys=True) == json.dumps(k2, sort_keys=True)
            events.append({'ev': 'replay', 'tid': 0, 'what': e1['ev'], 'same': bool(same), 'second': kept(e2),
                           **({} if same else {'first': kept(e1)})})
            n_replayed += 1
    timing['replay'] = round(time.time() - t0, 1)
    ctx.extra['replayed_in_another_order'] = n_replayed
    ctx.extra['first_pass_events'] = n_first
    ctx.extra['seconds_by_part'] = timing
    for i, e in enumerate(events):
        e['tid'] = i
    kinds = {}
    for e in events:
        kinds[e['ev']] = kinds.get(e['ev'], 0) + 1
        if kinds[e['ev']] == 1:
            ctx.sample({k: v for k, v in e.items() if k not in ('cover', 'same', 'subok')})
    ctx.extra['events_by_kind'] = kinds
    ctx.extra['assessments_seen'] = _count(events, 'fit', 'assess')
    # ---- TLC judges every event
    tf = ctx.tmp / 'c17.ndjson'
    write_ndjson(tf, [kept(e) for e in events])
    tr = ctx.tlc('peaks/Trace_FitPeaks.tla', workers=1, env={'TRACE_FILE': str(tf)}, timeout=1500)
    require_ok(ctx, tr, 'Trace_FitPeaks')
    done = tr.tagged('DONE')
    if not done or done[0][1] != len(events):
        raise MachineryError(f'trace validation incomplete: {done} vs {len(events)} events')
    ctx.traces(len(events))
    rejected = {r[1] for r in tr.tagged('REJECT')}
    for _, line, _tid, clause in tr.tagged('REJECT'):
        e = events[line - 1]
        ctx.violation(violation_key(e, clause), {'event': {k: v for k, v in e.items() if k not in ('cover', 'same', 'subok')}})
    # the control corrupts events the judge ACCEPTED (so its outcome cannot depend on the code under test)
    _judge_control(ctx, [e for i, e in enumerate(events) if i + 1 not in rejected])


API = {'rmexact': 'remove_peaks', 'remove': 'remove_peaks'}


def violation_key(e, clause):
    if e['ev'] == 'replay':
        inner = e['second']
        if clause == 'replayed_case_differs_from_its_first_evaluation':
            return f'replay: {clause} ({inner["ev"]})'
        return violation_key({**inner, 'key': inner.get('key') or e.get('key')}, clause) + ('' if e['same'] else ' [second evaluation only]')
    if clause == 'raised_exception':
        return e.get('key') or f'{API.get(e["ev"], "fit_peaks")} raised'
    key = f'{e["ev"]}: {clause}'
    if e['ev'] == 'windows' and clause in ('window_count', 'window_outside_data_range', 'window_does_not_contain_estimate',
                                           'window_too_close_to_neighbour', 'window_edge_is_not_finite'):
        key = f'automatic windows: {clause}'
        if clause == 'window_outside_data_range':
            key += f' ({_escape_provenance(e)})'
    return key


def _judge_control(ctx, events):
    """Negative control of the judge: corrupted copies of accepted events must be rejected (one field each)."""
    import copy

    bad = []

    def corrupt(pred, change):
        e = next((e for e in events if pred(e)), None)
        if e is not None:
            b = copy.deepcopy(e)
            change(b)
            bad.append(b)

    def swap_pb(b):
        b['pb'] = [b['pb'][0], b['pb'][1] % len(b['bk']) + 1] if len(b['bk']) > 1 else [b['pb'][0] + 1, b['pb'][1]]

    corrupt(lambda e: e['ev'] == 'loop' and e['out'] == 'ok', swap_pb)
    corrupt(lambda e: e['ev'] == 'rmexact' and e['out'] == 'ok' and e['res_out'], lambda b: b['res_out'].__setitem__(0, b['res_out'][0] + 1))
    corrupt(lambda e: e['ev'] == 'rmexact' and e['out'] == 'ok' and e['res_out'], lambda b: b.__setitem__('special_same', False))
    corrupt(lambda e: e['ev'] == 'rmexact' and e['out'] == 'ok' and e['res_out'], lambda b: b.__setitem__('results_same', False))
    corrupt(lambda e: e['ev'] == 'fit' and e['assess'] == 'success' and e['p_defined'] and all(e['req']),
            lambda b: b['req'].__setitem__(1, False))
    corrupt(lambda e: e['ev'] == 'fit', lambda b: b.__setitem__('malformed', True))
    corrupt(lambda e: e['ev'] == 'windows' and e['out'] == 'ok' and e['wins'],
            lambda b: b['wins'].__setitem__(0, [b['wins'][0][0], b['cfg']['hi'] + 2]))
    corrupt(lambda e: e['ev'] == 'windows' and e['out'] == 'ok' and e['ongrid'] and 'window_too_narrow' in e['assess']
            and any(w[1] - w[0] < 2 * e['cfg']['step'] for w, a in zip(e['wins'], e['assess'], strict=False)
                    if a == 'window_too_narrow'),
            lambda b: b.__setitem__('assess', ['fitted'] * len(b['assess'])))
    corrupt(lambda e: e['ev'] == 'windows' and e['out'] == 'ok', lambda b: b.__setitem__('args_same', False))
    corrupt(lambda e: e['ev'] == 'call' and e['out'] == 'ok', lambda b: b.__setitem__('again_same', False))
    corrupt(lambda e: e['ev'] == 'replay' and e['same'], lambda b: b.__setitem__('same', False))
    if not bad:
        ctx.extra['judge_control'] = 'no accepted event to corrupt'
        return
    tf = ctx.tmp / 'c17-control.ndjson'
    write_ndjson(tf, [kept(e) for e in bad])
    tr = ctx.tlc('peaks/Trace_FitPeaks.tla', workers=1, env={'TRACE_FILE': str(tf)}, timeout=300, count=False)
    require_ok(ctx, tr, 'Trace_FitPeaks (control)')
    if len(tr.tagged('REJECT')) != len(bad):
        raise MachineryError(f'judge control: {len(bad)} corrupted events, rejected {tr.tagged("REJECT")}')
    ctx.extra['judge_control'] = f'{len(bad)} corrupted events rejected'


def _escape_provenance(e):
    """Where does the first window edge outside the data range come from?  (Refines the violation key so
    that different ways of leaving the data range are different findings.)"""
    c = e['cfg']
    ests, n = c['ests'], len(c['ests'])
    for i, (lo, hi) in enumerate(e['wins']):
        for side, v in (('lower', lo), ('upper', hi)):
            if c['lo'] <= v <= c['hi']:
                continue
            raw = ests[i] - c['width'] // 2 if side == 'lower' else ests[i] + c['width'] // 2
            bounds = []
            if side == 'lower' and i > 0:
                bounds.append(ests[i - 1] + (ests[i] - ests[i - 1]) * c['fn'] / c['fd'])
            if side == 'upper' and i < n - 1:
                bounds.append(ests[i + 1] - (ests[i + 1] - ests[i]) * c['fn'] / c['fd'])
            if any(abs(v - b) < 0.5 for b in bounds):
                return 'edge set by the separation from a neighbouring estimate that lies beyond the data'
            if abs(v - raw) < 0.5:
                return 'unclipped centre -/+ width/2'
            return 'other value'
    return 'unknown'


def _count(events, ev, field):
    out = {}
    for e in events:
        if e['ev'] == ev:
            out[e[field]] = out.get(e[field], 0) + 1
    return out


META = {
    'design_ref': 'DESIGN.md §5 C17',
    'technique': 'TLA+ state machines (FitPeaks: windows, model-selection loop, assessment cascade, removal) '
                 'model-checked by TLC with negative controls; TLC-enumerated window configurations and loop '
                 'behaviours replayed into fit_peaks with scripted Model subclasses; recorded fits of seeded '
                 'synthetic spectra (statistics and requirements recomputed by the harness) and removals '
                 'validated event-by-event by TLC (Trace_FitPeaks)',
    'text': 'TLC proves on the bounded model that automatic windows (separate, then clip) stay inside the data '
            'range, contain in-range estimates and keep the neighbour distance, that the loop returns exactly one '
            'result per estimate in order with first-success-wins and no fit on too narrow windows, that success '
            'implies every requirement (p ok/low/undefined), and that removal touches only successful windows '
            'and never the input. The real fit_peaks is run on all enumerated window configurations and loop '
            'behaviours (scripted models) and on seeded synthetic spectra with all model specifications; for every '
            'FitResult chi^2, reduced chi^2, p and AIC are recomputed from popt and the window data with '
            'independent closed forms and every stated requirement is evaluated; TLC judges every recorded event.',
    'note': 'Trusted: TLC, scipp, numpy, mpmath. Numeric closeness of statistics (1e-9) and of the subtraction '
            '(1e-12) is decided by the harness on the recorded points, not by TLC. Requirements are read in their '
            'weakest form (driver docstring). Uniform grids only. Hardening round: TLC also decides the point-count '
            'guard on the window model (decided by the points a window holds, never by its extent) and judges, for every '
            'recorded automatic window, window_too_narrow against the grid points it holds and success against the '
            'requirements of the scripted fit; configurations are replayed at magnitudes 2^-40..2^30, with float32 / '
            'integer-typed coordinates, estimates and widths, strided / row-of-2-d data, data of 1-5 points; explicit '
            'windows in shuffled order and both dimension orders; removal compared bit for bit incl. special values, '
            'with the results left untouched; second identical calls; a sample of all parts replayed at the end.',
}
