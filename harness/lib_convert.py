"""Shared helpers for the convert() checks (C02, C06).

* builds real DataArrays / Datasets for an abstract configuration [o, t, s, m, x] of
  spec/conv/ConvertGraphDefs.tla with random, *mutually inconsistent* supplied coordinates;
* independent reference formulas (numpy float64, written from the physics: lambda = h t / (m L),
  E = m L^2 / (2 t^2), d = lambda / (2 sin theta), Q = 4 pi sin theta / lambda, ...), one per
  documented kernel, with the constants of harness/refmap.py;  they never call scippneutron;
* `run_cases` executes the real API for a chunk of emitted cases (used through multiprocessing).

Everything a worker returns is plain Python (picklable, JSON-able).
"""

from __future__ import annotations

import inspect
import threading
import time
import zlib

import numpy as np

_LAUNCH = threading.Lock()


def spaced_tlc(ctx, *args, **kw):
    """ctx.tlc for concurrent use: launches are spaced by >= 30 ms so that the run-local metadir names
    (which contain the launch time in ms) can never coincide."""
    with _LAUNCH:
        time.sleep(0.03)
    return ctx.tlc(*args, **kw)


GEO11 = ('position', 'source_position', 'sample_position', 'incident_beam', 'scattered_beam',
         'L1', 'L2', 'Ltotal', 'two_theta', 'incident_energy', 'final_energy')
AUX = ('pulse_time', 'u_matrix', 'b_matrix', 'sample_rotation')
ORIGINS = ('tof', 'wavelength', 'energy', 'Q')
ORIGIN_UNIT = {'tof': 'us', 'wavelength': 'angstrom', 'energy': 'meV', 'Q': '1/angstrom'}
# documented output units (canonical input units: m, us, meV, angstrom, rad)
OUT_UNIT = {
    'incident_beam': 'm', 'scattered_beam': 'm', 'L1': 'm', 'L2': 'm', 'Ltotal': 'm',
    'two_theta': 'rad', 'wavelength': 'angstrom', 'energy': 'meV', 'dspacing': 'angstrom',
    'Q': '1/angstrom', 'Qx': '1/angstrom', 'Qy': '1/angstrom', 'Qz': '1/angstrom',
    'Q_vec': '1/angstrom', 'energy_transfer': 'meV', 'time_at_sample': 'us',
    'ub_matrix': '1/angstrom', 'hkl_vec': 'dimensionless', 'h': 'dimensionless',
    'k': 'dimensionless', 'l': 'dimensionless',
}
VALUE_RTOL = 1e-9  # DESIGN 5/C02: the value flag uses 1e-9 relative (rounding itself is C01/C03)


def supplied(mask: int):
    return [GEO11[i] for i in range(11) if (mask >> i) & 1]


def _consts():
    from .refmap import E_CHARGE, H, MN

    h, mn = float(H), float(MN)
    mev = float(E_CHARGE) * 1e-3  # J per meV
    return h, mn, mev


# --------------------------------------------------------------------------- data construction
def case_seed(seed, c):
    key = f"{seed}|{c['o']}|{c['t']}|{int(c['s'])}|{c['m']}|{int(c['x'])}"
    return zlib.crc32(key.encode()) + (seed << 32)


def _unit_vec_box(rng, shape=()):
    return rng.uniform(-4.0, 4.0, size=(*shape, 3))


def _rot(rng):
    q, r = np.linalg.qr(rng.normal(size=(3, 3)))
    q = q * np.sign(np.diag(r))
    if np.linalg.det(q) < 0:
        q[:, 0] = -q[:, 0]
    return q


def build_coords(c, rng):
    """Random coordinate values for configuration c (dict o,t,s,m,x).

    Returns (coords: name -> scipp Variable, S, T).  Supplied values are independent random numbers,
    so e.g. a supplied L1 differs from |incident_beam| and from |sample - source|: which of them the
    implementation used is visible in the result.
    Ranges (soundness): lengths 0.5..14 m, tof 1e4..5e4 us (so that t - t0 >= 2.9 ms for every
    admissible L and E >= 20 meV: the NaN region of energy_transfer is never touched),
    two_theta in [0.2, 2.9] rad, all other quantities positive and O(1..100)."""
    import scipp as sc

    o = c['o']
    S = int(rng.integers(2, 4))
    T = int(rng.integers(2, 4))
    edges = bool(rng.integers(0, 2))
    n_o = T + 1 if edges else T
    lo, hi = {'tof': (1.0e4, 5.0e4), 'wavelength': (0.5, 6.0), 'energy': (5.0, 100.0),
              'Q': (0.5, 10.0)}[o]
    two_d = (not edges) and rng.integers(0, 4) == 0
    if two_d:
        ov = np.sort(rng.uniform(lo, hi, size=(S, n_o)), axis=1)
        origin = sc.array(dims=['spectrum', o], values=ov, unit=ORIGIN_UNIT[o])
    else:
        origin = sc.array(dims=[o], values=np.sort(rng.uniform(lo, hi, size=n_o)), unit=ORIGIN_UNIT[o])
    coords = {o: origin}

    def far(make, ref, dmin=0.5):
        for _ in range(100):
            v = make()
            if np.all(np.linalg.norm(v - ref, axis=-1) >= dmin):
                return v
        raise RuntimeError('could not draw separated positions')

    sample = _unit_vec_box(rng)
    source = far(lambda: _unit_vec_box(rng), sample)
    pos = far(lambda: _unit_vec_box(rng, (S,)), sample)
    vals = {
        'position': lambda: sc.vectors(dims=['spectrum'], values=pos, unit='m'),
        'source_position': lambda: sc.vector(source, unit='m'),
        'sample_position': lambda: sc.vector(sample, unit='m'),
        'incident_beam': lambda: sc.vector(far(lambda: _unit_vec_box(rng), np.zeros(3)), unit='m'),
        'scattered_beam': lambda: sc.vectors(dims=['spectrum'],
                                             values=far(lambda: _unit_vec_box(rng, (S,)), np.zeros(3)),
                                             unit='m'),
        'L1': lambda: sc.scalar(float(rng.uniform(2.0, 10.0)), unit='m'),
        'L2': lambda: sc.array(dims=['spectrum'], values=rng.uniform(0.5, 4.0, size=S), unit='m'),
        'Ltotal': lambda: sc.array(dims=['spectrum'], values=rng.uniform(3.0, 14.0, size=S), unit='m'),
        'two_theta': lambda: sc.array(dims=['spectrum'], values=rng.uniform(0.2, 2.9, size=S), unit='rad'),
        'incident_energy': lambda: sc.scalar(float(rng.uniform(20.0, 100.0)), unit='meV'),
        'final_energy': lambda: sc.array(dims=['spectrum'], values=rng.uniform(20.0, 100.0, size=S),
                                         unit='meV'),
    }
    for name in GEO11:  # draw in fixed order so that values do not depend on the mask
        v = vals[name]()
        if (c['m'] >> GEO11.index(name)) & 1:
            coords[name] = v
    if c['x']:
        coords['pulse_time'] = sc.scalar(float(rng.uniform(0.0, 100.0)), unit='us')
        coords['u_matrix'] = sc.spatial.linear_transform(value=_rot(rng))
        b = np.triu(rng.uniform(0.05, 0.2, size=(3, 3))) + np.diag(rng.uniform(0.2, 0.5, size=3))
        coords['b_matrix'] = sc.spatial.linear_transform(value=b, unit='1/angstrom')
        coords['sample_rotation'] = sc.spatial.linear_transform(value=_rot(rng))
    return coords, S, T


def build_containers(c, seed):
    import scipp as sc

    rng = np.random.default_rng(case_seed(seed, c))
    coords, S, T = build_coords(c, rng)
    o = c['o']
    data = sc.array(dims=['spectrum', o], values=rng.uniform(0.0, 10.0, size=(S, T)), unit='counts')
    da = sc.DataArray(data, coords=coords)
    ds = sc.Dataset({'a': da, 'b': da * sc.scalar(2.0)})
    return da, ds


# --------------------------------------------------------------------------- numpy normal form
def to_np(var, o):
    """scipp Variable -> float64 array of shape (s, t, *elem) with s, t in {1, size}; the dimension
    that is not 'spectrum' is the origin / target dimension (transform_coords may have renamed it)."""
    dims = list(var.dims)
    v = np.asarray(var.values, dtype='float64')
    nd = len(dims)
    elem = v.shape[nd:]
    other = [d for d in dims if d != 'spectrum']
    if len(other) > 1:
        raise ValueError(f'unexpected dims {dims}')
    order = ([dims.index('spectrum')] if 'spectrum' in dims else []) + [dims.index(d) for d in other]
    v = np.transpose(v, order + list(range(nd, v.ndim)))
    s = var.sizes['spectrum'] if 'spectrum' in dims else 1
    t = var.sizes[other[0]] if other else 1
    return v.reshape(s, t, *elem)


def _norm(v):
    return np.sqrt(np.sum(v * v, axis=-1))


def _angle(a, b):
    cr = np.cross(a, b)
    return np.arctan2(_norm(cr), np.sum(a * b, axis=-1))


def reference_kernels():
    """kernel name -> f(**inputs as normal-form arrays) -> dict of outputs (normal form).
    Units: m, us, meV, angstrom, 1/angstrom, rad."""
    h, mn, mev = _consts()
    k_lt = h / mn * 1e-6 * 1e10  # lambda[A] = k_lt * t[us] / L[m]

    def e_of_v(L, t_us):  # kinetic energy in meV of a neutron covering L metres in t_us microseconds
        v = L / (t_us * 1e-6)
        return 0.5 * mn * v * v / mev

    def lam_from_e(E):  # angstrom
        return h / np.sqrt(2.0 * mn * E * mev) * 1e10

    def t0_us(L, E):
        return L * np.sqrt(mn / (2.0 * E * mev)) * 1e6

    def q_elements(wavelength, incident_beam, scattered_beam):
        ei = incident_beam / _norm(incident_beam)[..., None]
        ef = scattered_beam / _norm(scattered_beam)[..., None]
        q = 2.0 * np.pi / wavelength[..., None] * (ei - ef)
        return {'Qx': q[..., 0], 'Qy': q[..., 1], 'Qz': q[..., 2]}

    def hkl(Q_vec, ub_matrix, sample_rotation):
        m = np.linalg.inv(sample_rotation @ ub_matrix)
        return {'hkl_vec': np.einsum('...ij,...j->...i', m, Q_vec) / (2.0 * np.pi)}

    return {
        'straight_incident_beam': lambda source_position, sample_position:
            {'incident_beam': sample_position - source_position},
        'straight_scattered_beam': lambda position, sample_position:
            {'scattered_beam': position - sample_position},
        'L1': lambda incident_beam: {'L1': _norm(incident_beam)},
        'L2': lambda scattered_beam: {'L2': _norm(scattered_beam)},
        'two_theta': lambda incident_beam, scattered_beam:
            {'two_theta': _angle(incident_beam, scattered_beam)},
        'total_beam_length': lambda L1, L2: {'Ltotal': L1 + L2},
        'total_straight_beam_length_no_scatter': lambda source_position, position:
            {'Ltotal': _norm(position - source_position)},
        'wavelength_from_tof': lambda tof, Ltotal: {'wavelength': k_lt * tof / Ltotal},
        'energy_from_tof': lambda tof, Ltotal: {'energy': e_of_v(Ltotal, tof)},
        'dspacing_from_tof': lambda tof, Ltotal, two_theta:
            {'dspacing': k_lt * tof / Ltotal / (2.0 * np.sin(two_theta / 2.0))},
        'time_at_sample_from_tof': lambda pulse_time, tof, L2, wavelength:
            {'time_at_sample': pulse_time + tof - L2 * wavelength / k_lt},
        'Q_from_wavelength': lambda wavelength, two_theta:
            {'Q': 4.0 * np.pi * np.sin(two_theta / 2.0) / wavelength},
        'Q_elements_from_wavelength': q_elements,
        'Q_vec_from_Q_elements': lambda Qx, Qy, Qz:
            {'Q_vec': np.stack(np.broadcast_arrays(Qx, Qy, Qz), axis=-1)},
        'ub_matrix_from_u_and_b': lambda u_matrix, b_matrix: {'ub_matrix': u_matrix @ b_matrix},
        'hkl_vec_from_Q_vec': hkl,
        'hkl_elements_from_hkl_vec': lambda hkl_vec:
            {'h': hkl_vec[..., 0], 'k': hkl_vec[..., 1], 'l': hkl_vec[..., 2]},
        'energy_from_wavelength': lambda wavelength:
            {'energy': h * h / (2.0 * mn * (wavelength * 1e-10) ** 2) / mev},
        'dspacing_from_wavelength': lambda wavelength, two_theta:
            {'dspacing': wavelength / (2.0 * np.sin(two_theta / 2.0))},
        'wavelength_from_energy': lambda energy: {'wavelength': lam_from_e(energy)},
        'dspacing_from_energy': lambda energy, two_theta:
            {'dspacing': lam_from_e(energy) / (2.0 * np.sin(two_theta / 2.0))},
        'wavelength_from_Q': lambda Q, two_theta:
            {'wavelength': 4.0 * np.pi * np.sin(two_theta / 2.0) / Q},
        'energy_transfer_direct_from_tof': lambda tof, L1, L2, incident_energy:
            {'energy_transfer': incident_energy - e_of_v(L2, tof - t0_us(L1, incident_energy))},
        'energy_transfer_indirect_from_tof': lambda tof, L1, L2, final_energy:
            {'energy_transfer': e_of_v(L1, tof - t0_us(L2, final_energy)) - final_energy},
    }


_REF = None
# inputs of every kernel in documented order (mirrors the rule tables of ConvertGraphDefs.tla; used
# only to evaluate the provenance tree in dependency order)
_ELEM = {'position': 1, 'source_position': 1, 'sample_position': 1, 'incident_beam': 1,
         'scattered_beam': 1, 'Q_vec': 1, 'hkl_vec': 1, 'u_matrix': 2, 'b_matrix': 2,
         'sample_rotation': 2, 'ub_matrix': 2}


def _close(got, want, nelem):
    """norm-wise relative comparison over the element axes; shapes must broadcast to each other and
    `got` must carry at least the dimensions of `want`."""
    try:
        g, w = np.broadcast_arrays(got, want)
    except ValueError:
        return False, float('inf')
    if g.shape != got.shape:
        return False, float('inf')  # result lacks a dimension the formula depends on
    d = g - w
    if nelem:
        ax = tuple(range(-nelem, 0))
        num = np.sqrt(np.sum(d * d, axis=ax))
        den = np.sqrt(np.sum(w * w, axis=ax))
    else:
        num, den = np.abs(d), np.abs(w)
    if not (np.all(np.isfinite(g)) and np.all(np.isfinite(w))):
        return False, float('inf')
    with np.errstate(divide='ignore', invalid='ignore'):
        rel = np.where(den > 0, num / den, np.where(num == 0, 0.0, np.inf))
    worst = float(np.max(rel)) if rel.size else 0.0
    return worst <= VALUE_RTOL, worst


def evaluate_provenance(prov: dict, inputs: dict, result_coords, o):
    """Evaluate the spec's provenance tree (node -> kernel) with the reference formulas on the
    supplied values and compare every computed node that exists in `result_coords`.

    Returns (all_ok, worst_relative_error, first_bad_node)."""
    import scipp as sc

    global _REF
    if _REF is None:
        _REF = reference_kernels()
    have = {n: to_np(v, o) for n, v in inputs.items()}
    todo = dict(prov)
    ok, worst, bad = True, 0.0, None
    guard = 0
    while todo:
        guard += 1
        if guard > 50:
            return False, float('inf'), 'provenance tree not evaluable'
        for node, kernel in list(todo.items()):
            f = _REF.get(kernel)
            if f is None:
                return False, float('inf'), f'unknown kernel {kernel}'
            args = list(inspect.signature(f).parameters)
            if not all(a in have for a in args):
                continue
            out = f(**{a: have[a] for a in args})
            for k, v in out.items():
                have[k] = v
                todo.pop(k, None)
            todo.pop(node, None)
    for node in prov:
        if node not in result_coords:
            continue
        var = result_coords[node]
        try:
            if str(var.unit) != str(sc.Unit(OUT_UNIT[node])):
                var = var.to(unit=OUT_UNIT[node])
            got = to_np(var, o)
        except Exception:  # noqa: BLE001
            ok, worst, bad = False, float('inf'), bad or node
            continue
        good, rel = _close(got, have[node], _ELEM.get(node, 0))
        worst = max(worst, rel)
        if not good:
            ok, bad = False, bad or node
    return ok, worst, bad


# --------------------------------------------------------------------------- graph observation
def describe_graph(graph):
    """Canonical, hashable description of a conversion graph: sorted tuple of
    (outs, kernel, ins) with kernel = __name__ (prefixed by the module when it is not one of the
    two documented kernel modules)."""
    rules = []
    for key, f in graph.items():
        outs = (key,) if isinstance(key, str) else tuple(key)
        mod = getattr(f, '__module__', '?')
        name = getattr(f, '__name__', repr(f))
        if mod not in ('scippneutron.conversion.beamline', 'scippneutron.conversion.tof'):
            name = f'{mod}.{name}'
        try:
            sig = inspect.signature(f)
            ins = tuple(getattr(f, '__transform_coords_input_keys__', tuple(sig.parameters)))
        except (TypeError, ValueError):
            ins = ('?',)
        rules.append((outs, name, ins))
    return tuple(sorted(rules))


def _classify(exc):
    return 'RuntimeError' if type(exc) is RuntimeError else f'other:{type(exc).__name__}'


def _same_supplied(inp_coords, out_coords):
    """every supplied coordinate is still there with the supplied unit, dtype and values (dimension
    *names* may change: transform_coords renames the origin dimension)."""
    for n in inp_coords:
        if n not in out_coords:
            return False
        a, b = inp_coords[n], out_coords[n]
        if str(a.unit) != str(b.unit) or a.dtype != b.dtype:
            return False
        if not np.array_equal(np.asarray(a.values), np.asarray(b.values)):
            return False
    return True


def _observe_convert(obj, c, prov):
    import scippneutron as scn

    inp = {n: obj.coords[n] for n in obj.coords}
    try:
        out = scn.convert(obj, origin=c['o'], target=c['t'], scatter=c['s'])
    except Exception as e:  # noqa: BLE001
        return {'out': _classify(e), 'added': (), 'val': True, 'same': True, 'has': False,
                'worst': 0.0, 'bad': None, 'exc': repr(e)[:200]}
    added = tuple(sorted(set(out.coords) - set(inp)))
    val, worst, bad = evaluate_provenance(prov, inp, out.coords, c['o'])
    return {'out': 'ok', 'added': added, 'val': bool(val), 'same': _same_supplied(inp, out.coords),
            'has': c['t'] in out.coords, 'worst': worst, 'bad': bad, 'exc': None}


def run_case(c, seed):
    """Execute the real API for one emitted case; returns a plain dict (see c02.py)."""
    import scippneutron as scn

    da, ds = build_containers(c, seed)
    prov = c['prov'] if isinstance(c['prov'], dict) else {}
    res = {'c': {k: c[k] for k in ('o', 't', 's', 'm', 'x')}, 'prov': tuple(sorted(prov.items()))}
    # the reported graph, and that it is a private copy
    try:
        g = scn.deduce_conversion_graph(da, origin=c['o'], target=c['t'], scatter=c['s'])
        desc = describe_graph(g)
        g.clear()
        g2 = scn.deduce_conversion_graph(ds, origin=c['o'], target=c['t'], scatter=c['s'])
        res['dg'] = 'ok'
        res['graph'] = desc
        res['copy'] = describe_graph(g2) == desc
    except Exception as e:  # noqa: BLE001
        res['dg'] = _classify(e)
        res['graph'] = None
        res['copy'] = True
        res['dg_exc'] = repr(e)[:200]
    res['da'] = _observe_convert(da, c, prov)
    res['ds'] = _observe_convert(ds, c, prov)
    return res


def run_cases(args):
    """Worker entry: `lines` are JSON records emitted by Emit_ConvertGraph.  Returns a compact,
    picklable summary per case plus the distinct reported graphs of this chunk:
        (o, t, s, m, x, expected_outcome, prov_pairs, g, copy, da, ds)
    g = index into the chunk's graph list, -1 = RuntimeError, -2 = other exception;
    da / ds = (out, added, val, same, has, worst)."""
    import json
    import warnings

    lines, seed = args
    warnings.simplefilter('ignore')
    graphs, gindex, out = [], {}, []
    for line in lines:
        c = json.loads(line)
        try:
            r = run_case(c, seed)
        except Exception as e:  # noqa: BLE001  (harness problem, not a verdict)
            out.append(('harness_error', {k: c[k] for k in ('o', 't', 's', 'm', 'x')}, repr(e)[:300]))
            continue
        if r['dg'] == 'ok':
            g = gindex.get(r['graph'])
            if g is None:
                g = gindex[r['graph']] = len(graphs)
                graphs.append(r['graph'])
        else:
            g = -1 if r['dg'] == 'RuntimeError' else -2
        obs = tuple((r[k]['out'], r[k]['added'], r[k]['val'], r[k]['same'], r[k]['has'], r[k]['worst'])
                    for k in ('da', 'ds'))
        out.append((c['o'], c['t'], c['s'], c['m'], c['x'], c['outcome'], r['prov'], g, r['copy'], obs[0], obs[1]))
    return out, graphs


# =========================================================================== C06: event mode
# (origin, target, scatter, inelastic coordinate)
EVENT_VARIANTS = (
    ('tof', 'wavelength', True, None), ('tof', 'energy', True, None), ('tof', 'dspacing', True, None),
    ('tof', 'Q', True, None), ('tof', 'Qx', True, None), ('tof', 'Q_vec', True, None),
    ('tof', 'energy_transfer', True, 'incident_energy'), ('tof', 'energy_transfer', True, 'final_energy'),
    ('tof', 'wavelength', False, None), ('tof', 'energy', False, None),
    ('wavelength', 'energy', True, None), ('wavelength', 'dspacing', True, None),
    ('wavelength', 'Q', True, None), ('wavelength', 'Q_vec', True, None),
    ('energy', 'wavelength', True, None), ('energy', 'dspacing', True, None),
    ('Q', 'wavelength', True, None),
)
EVENT_DTYPES = ('float64', 'float32', 'int64', 'int32')
GEOM_MODES = ('positions', 'derived', 'beams')


def _distinct(rng, n, lo, hi, dtype, near=None):
    """n pairwise distinct values of the given dtype in [lo, hi]; with near = (a, b) about half of the
    values are drawn from [a, b] instead (used to put events around the unphysical boundary t0)"""
    if n == 0:
        return np.zeros(0, dtype=dtype)
    for _ in range(50):
        v = rng.uniform(lo, hi, size=n)
        if near is not None:
            pick = rng.random(n) < 0.5
            v = np.where(pick, rng.uniform(near[0], near[1], size=n), v)
        if dtype.startswith('int'):
            v = np.round(v).astype(dtype)
            seen, free = set(), None
            for i in range(n):                      # replace duplicates by unused integers of the range
                if int(v[i]) in seen:
                    if free is None:
                        free = [x for x in rng.permutation(np.arange(int(lo), int(hi) + 1)).tolist()
                                if x not in set(v.tolist())]
                    if not free:
                        break
                    v[i] = free.pop()
                seen.add(int(v[i]))
        else:
            v = v.astype(dtype)
        if len(set(v.tolist())) == n:
            return v
    raise RuntimeError('could not draw distinct values')


def pixel_dims(kind, o):
    return {'p': ('spectrum',), 'pt': ('spectrum',), 'pp': ('y', 'x')}[kind]


def build_binned(lay, var, ev_dtype, geom, seed):
    """A real binned DataArray for layout `lay` (dict kind,R,C,N,bg,en) and the variant.
    Returns (da, info) where info holds the dense 'slot table' inputs."""
    import scipp as sc

    o, t, scatter, inel = var
    kind, R, C, N = lay['kind'], lay['R'], lay['C'], lay['N']
    rng = np.random.default_rng([seed & 0xFFFFFFFF, zlib.crc32(json_key(lay, var, ev_dtype, geom))])
    lo, hi = {'tof': (300.0, 5.0e4) if inel else (1.0e3, 5.0e4), 'wavelength': (1.0, 300.0),
              'energy': (2.0, 400.0), 'Q': (1.0, 300.0)}[o]
    wdt = 'float32' if ev_dtype == 'float32' else 'float64'
    weights = (np.arange(1, N + 1) + rng.uniform(0.1, 0.9, size=N)).astype(wdt)
    variances = (np.arange(1, N + 1) * 0.5 + rng.uniform(0.01, 0.4, size=N)).astype(wdt)
    # geometry first (the event coordinate of inelastic cases is placed around t0, see below)
    pdims = pixel_dims(kind, o)
    pshape = {'p': (R,), 'pt': (R,), 'pp': (R, C)}[kind]
    npix = int(np.prod(pshape))
    sample = rng.uniform(-0.5, 0.5, size=3)
    source = sample + np.array([0.0, 0.0, -1.0]) * rng.uniform(5.0, 20.0) + rng.uniform(-0.3, 0.3, size=3)
    pos = sample + rng.uniform(0.5, 4.0, size=(npix, 1)) * _rand_dirs(rng, npix)
    e_in = float(rng.uniform(20.0, 100.0))
    e_fin = rng.uniform(20.0, 100.0, size=npix)
    near = None
    if inel:
        # input generation only (not an oracle): where the documented NaN boundary t0 lies, so that
        # about half of the events are unphysical / close to the boundary in some pixel
        _, mn, mev = _consts()
        if inel == 'incident_energy':
            t0 = np.array([np.linalg.norm(sample - source) * np.sqrt(mn / (2 * e_in * mev)) * 1e6])
        else:
            t0 = np.linalg.norm(pos - sample, axis=-1) * np.sqrt(mn / (2 * e_fin * mev)) * 1e6
        near = (0.3 * float(t0.min()), 1.4 * float(t0.max()))
    ovals = _distinct(rng, N, lo, hi, ev_dtype, near)
    table = sc.DataArray(
        sc.array(dims=['event'], values=weights, variances=variances, unit='counts', dtype=wdt),
        coords={o: sc.array(dims=['event'], values=ovals, unit=ORIGIN_UNIT[o], dtype=ev_dtype),
                'extra': sc.array(dims=['event'], values=np.arange(1, N + 1), unit='s', dtype='int64')},
        masks={'em': sc.array(dims=['event'], values=rng.random(N) < 0.3)})
    if kind == 'p':
        bdims, bshape = ['spectrum'], (R,)
    elif kind == 'pt':
        bdims, bshape = ['spectrum', o], (R, C)
    else:
        bdims, bshape = ['y', 'x'], (R, C)
    begin = sc.array(dims=bdims, values=np.array(lay['bg'], dtype='int64').reshape(bshape), unit=None)
    end = sc.array(dims=bdims, values=np.array(lay['en'], dtype='int64').reshape(bshape), unit=None)
    data = sc.bins(begin=begin, end=end, dim='event', data=table)
    fdt = 'float32' if (ev_dtype == 'float32' and rng.integers(0, 2)) else 'float64'

    def perpix(v, unit, dtype='float64'):
        return sc.array(dims=list(pdims), values=np.asarray(v).reshape(pshape), unit=unit, dtype=dtype)

    def vecpix(v):
        return sc.vectors(dims=list(pdims), values=np.asarray(v).reshape(*pshape, 3), unit='m')

    geo = {}
    if geom == 'positions':
        geo['position'] = vecpix(pos)
        geo['source_position'] = sc.vector(source, unit='m')
        geo['sample_position'] = sc.vector(sample, unit='m')
    else:
        sb = pos - sample
        geo['incident_beam'] = sc.vector(sample - source, unit='m')
        geo['scattered_beam'] = vecpix(sb)
        l1 = float(np.linalg.norm(sample - source))
        l2 = np.linalg.norm(sb, axis=-1)
        geo['L1'] = sc.scalar(l1, unit='m', dtype=fdt)
        geo['L2'] = perpix(l2, 'm', fdt)
        geo['Ltotal'] = perpix(l1 + l2 if scatter else np.linalg.norm(pos - source, axis=-1), 'm', fdt)
        geo['two_theta'] = perpix(_angle(np.broadcast_to(sample - source, sb.shape), sb), 'rad', fdt)
        if not scatter:
            for k in ('incident_beam', 'scattered_beam', 'L1', 'L2', 'two_theta'):
                geo.pop(k)
        elif geom == 'beams':   # only the two beams: lengths and angle are computed from supplied vectors
            for k in ('L1', 'L2', 'Ltotal', 'two_theta'):
                geo.pop(k)
    if inel == 'incident_energy':
        geo['incident_energy'] = sc.scalar(e_in, unit='meV', dtype=fdt)
    elif inel == 'final_energy':
        geo['final_energy'] = perpix(e_fin, 'meV', fdt)
    coords = dict(geo)
    edges = None
    if kind == 'pt':
        edges = np.sort(_distinct(rng, C + 1, lo, hi, 'float64', near))
        coords[o] = sc.array(dims=[o], values=edges, unit=ORIGIN_UNIT[o])
    coords['aux'] = sc.array(dims=[pdims[0]], values=rng.uniform(0, 1, size=pshape[0]), unit='K')
    coords['run'] = sc.scalar(int(rng.integers(1, 10**6)), unit=None)
    masks = {'pm': sc.array(dims=list(pdims), values=(rng.random(pshape) < 0.3))}
    if kind == 'pt':
        masks['bm'] = sc.array(dims=bdims, values=(rng.random(bshape) < 0.3))
    da = sc.DataArray(data, coords=coords, masks=masks)
    info = {'geo': geo, 'ovals': ovals, 'edges': edges, 'pdims': pdims, 'pshape': pshape, 'bdims': bdims,
            'bshape': bshape, 'weights': weights, 'variances': variances}
    return da, info


def json_key(lay, var, ev_dtype, geom):
    return repr((lay['kind'], lay['R'], lay['C'], lay['N'], tuple(lay['bg']), tuple(lay['en']), var, ev_dtype,
                 geom)).encode()


def _rand_dirs(rng, n):
    v = rng.normal(size=(n, 3))
    return v / np.linalg.norm(v, axis=-1, keepdims=True)


def _np_in_order(var, order):
    """values of `var` as an array whose leading axes follow `order` (missing dims get size 1);
    element axes (vectors) stay last"""
    dims = list(var.dims)
    v = np.asarray(var.values)
    nd = len(dims)
    present = [d for d in order if d in dims]
    if set(present) != set(dims):
        raise ValueError(f'unexpected dims {dims} for order {order}')
    v = np.transpose(v, [dims.index(d) for d in present] + list(range(nd, v.ndim)))
    shape = [var.sizes[d] if d in dims else 1 for d in order] + list(v.shape[len(present):])
    return v.reshape(shape)


def _canon(x):
    """hashable exact key of one (scalar or vector) element: NaN == NaN, -0.0 == 0.0"""
    a = np.atleast_1d(x)
    return tuple('nan' if (c != c) else float(c) for c in a.tolist())


def dense_table(info, var, o, slot_vals, slot_dim, names):
    """Dense conversion *of the implementation* for the (pixel x slot) table: a dense DataArray with
    the same per-pixel geometry and the slot values along `slot_dim`.  Returns name -> (array of
    shape pshape + (nslot,) [+ (3,)], unit string, dtype string)."""
    import scipp as sc
    import scippneutron as scn

    _, t, scatter, _ = var
    pdims, pshape = info['pdims'], info['pshape']
    n = len(slot_vals)
    data = sc.zeros(dims=[*pdims, slot_dim], shape=[*pshape, n], unit='counts')
    coords = {k: v.copy() for k, v in info['geo'].items()}   # private copies: the oracle shares nothing
    coords[o] = sc.array(dims=[slot_dim], values=slot_vals, unit=ORIGIN_UNIT[o], dtype=slot_vals.dtype)
    dense = sc.DataArray(data, coords=coords)
    conv = scn.convert(dense, origin=o, target=t, scatter=scatter)
    out = {}
    other = [d for d in conv.dims if d not in pdims]
    sdim = other[0] if other else slot_dim   # transform_coords may have renamed the slot dimension
    for name in names:
        if name not in conv.coords:
            continue
        c = conv.coords[name]
        arr = _np_in_order(c, [*pdims, sdim])
        full = [*pshape, n] + list(arr.shape[len(pdims) + 1:])
        out[name] = (np.broadcast_to(arr, full), str(c.unit), str(c.dtype))
    return out


def _flat_bins(binned_var, in_dims):
    """(begin, end, buffer DataArray) of a binned variable with begin/end flattened in the row-major
    order of the *input* dims (a renamed dimension is matched by position)."""
    cons = binned_var.bins.constituents
    b, e = cons['begin'], cons['end']
    if len(b.dims) != len(in_dims):
        raise ValueError('bin grid rank changed')
    order = []
    extra = [d for d in b.dims if d not in in_dims]
    for d in in_dims:
        if d in b.dims:
            order.append(d)
        elif len(extra) == 1:
            order.append(extra[0])
        else:
            raise ValueError(f'cannot match dims {b.dims} to {in_dims}')
    bb = _np_in_order(b, order).reshape(-1)
    ee = _np_in_order(e, order).reshape(-1)
    return bb, ee, cons['data']


def run_event_case(case, seed):
    """Execute one event-mode conversion and project the result to ids (see Trace_EventMode.tla)."""
    import scipp as sc
    import scippneutron as scn

    lay, var, ev_dtype, geom = case['lay'], tuple(case['var']), case['dtype'], case['geom']
    o, t, scatter, inel = var
    kind, R, C, N = lay['kind'], lay['R'], lay['C'], lay['N']
    B = R * C
    ev = {'ev': 'conv', 'tid': case['tid'], 'kind': kind, 'R': R, 'C': C, 'N': N, 'bg': list(lay['bg']),
          'en': list(lay['en']), 'out': 'ok', 'bins': [], 'edges': [],
          'same': {'masks': True, 'evmasks': True, 'coords': True, 'evcoord': True, 'input': True}}
    meta = {'variant': f"{o}->{t}, scatter={scatter}" + (f", {inel}" if inel else ''), 'dtype': ev_dtype,
            'geom': geom, 'kind': kind, 'note': None, 'new_event_coords': []}
    da, info = build_binned(lay, var, ev_dtype, geom, seed)
    snap = da.copy(deep=True)
    snap_buf = da.bins.constituents['data'].copy(deep=True)
    # --- the dense reference of the implementation (pixel x slot table, pixel x edge table)
    try:
        probe = dense_table(info, var, o, info['ovals'], 'slot', ())
        del probe
        dense_ok = True
    except Exception as e:  # noqa: BLE001
        dense_ok = False
        meta['note'] = f'dense conversion refuses these operands: {type(e).__name__}'
    try:
        out = scn.convert(da, origin=o, target=t, scatter=scatter)
    except Exception as e:  # noqa: BLE001
        ev['out'] = 'raised' if dense_ok else 'unsupported'
        meta['exc'] = repr(e)[:300]
        return ev, meta
    if not dense_ok:
        ev['out'] = 'unsupported'
        return ev, meta
    in_dims = list(da.dims)
    try:
        ob, oe, obuf = _flat_bins(out.data, in_dims)
        ib, ie, ibuf = _flat_bins(snap.data, in_dims)
    except Exception as e:  # noqa: BLE001
        ev['out'] = 'raised'
        meta['exc'] = 'result is not a binned array over the same grid: ' + repr(e)[:200]
        return ev, meta
    new_ev = [n for n in obuf.coords if n not in ibuf.coords]
    meta['new_event_coords'] = sorted(new_ev)
    names = sorted(set(new_ev) | {t})
    tab = dense_table(info, var, o, info['ovals'], 'slot', names)
    # id dictionaries
    npix = int(np.prod(info['pshape']))
    lookup = {}
    for name, (arr, unit, dtype) in tab.items():
        a = arr.reshape(npix, N, *arr.shape[len(info['pshape']) + 1:])
        d = {}
        for p in range(npix):
            for i in range(N):
                d.setdefault(_canon(a[p, i]), []).append([p + 1, i + 1])
        lookup[name] = (d, unit, dtype)
    wmap = {float(w): i + 1 for i, w in enumerate(info['weights'].tolist())}
    vmap = {float(v): i + 1 for i, v in enumerate(info['variances'].tolist())}
    has_var = obuf.variances is not None
    wv = np.asarray(obuf.values)
    vv = np.asarray(obuf.variances) if has_var else None
    xv = np.asarray(obuf.coords['extra'].values) if 'extra' in obuf.coords else None
    if len(ob) != B:
        ev['bins'] = []
        return ev, meta
    # the property does not promise that the origin event coordinate is kept; if it is, it is unchanged
    keeps_origin = o in obuf.coords
    evcoord_ok = (not keeps_origin) or (str(obuf.coords[o].unit) == str(ibuf.coords[o].unit)
                                        and obuf.coords[o].dtype == ibuf.coords[o].dtype)
    evmask_ok = set(obuf.masks.keys()) == set(ibuf.masks.keys())
    for b in range(B):
        lo_, hi_ = int(ob[b]), int(oe[b])
        rec = {'r': [], 'w': [], 'v': [], 'x': []}
        for k in range(lo_, hi_):
            rec['w'].append(wmap.get(float(wv[k]), 0) if str(obuf.dtype) == str(ibuf.dtype) else 0)
            rec['v'].append(vmap.get(float(vv[k]), 0) if has_var else 0)
            rec['x'].append(int(xv[k]) if xv is not None else 0)
            # the event is accepted for id <<p, i>> iff *every* new event coordinate has the dense value
            cands = None
            for name in names:
                if name not in obuf.coords or name not in lookup:
                    cands = set()
                    break
                d, unit, dtype = lookup[name]
                c = obuf.coords[name]
                if str(c.unit) != unit or str(c.dtype) != dtype:
                    cands = set()
                    break
                got = {tuple(x) for x in d.get(_canon(np.asarray(c.values)[k]), [])}
                cands = got if cands is None else (cands & got)
            rec['r'].append(sorted(map(list, cands or ())))
        ev['bins'].append(rec)
        if evcoord_ok and keeps_origin:
            n_in = int(ie[b]) - int(ib[b])
            a = np.asarray(obuf.coords[o].values)[lo_:hi_]
            bb = np.asarray(ibuf.coords[o].values)[int(ib[b]):int(ie[b])]
            if hi_ - lo_ != n_in or not np.array_equal(a, bb):
                evcoord_ok = False
        if evmask_ok:
            for mname in ibuf.masks.keys():
                a = np.asarray(obuf.masks[mname].values)[lo_:hi_]
                bb = np.asarray(ibuf.masks[mname].values)[int(ib[b]):int(ie[b])]
                if not np.array_equal(a, bb):
                    evmask_ok = False
    ev['same']['evcoord'] = bool(evcoord_ok)
    ev['same']['evmasks'] = bool(evmask_ok)
    # --- bin-edge coordinate: same function
    if kind == 'pt':
        et = dense_table(info, var, o, info['edges'], 'edge', [t])
        if t in out.coords and t in et:
            arr, unit, dtype = et[t]
            c = out.coords[t]
            a = arr.reshape(R, C + 1, *arr.shape[2:])
            d = {}
            for p in range(R):
                for j in range(C + 1):
                    d.setdefault(_canon(a[p, j]), []).append([p + 1, j + 1])
            try:
                other = [x for x in c.dims if x != 'spectrum']
                g = _np_in_order(c, ['spectrum', other[0]] if other else ['spectrum', '_'])
                g = np.broadcast_to(g, (R, C + 1, *g.shape[2:]))
                good = str(c.unit) == unit and str(c.dtype) == dtype
                ev['edges'] = [[sorted(d.get(_canon(g[p, j]), [])) if good else [] for j in range(C + 1)]
                               for p in range(R)]
            except Exception as e:  # noqa: BLE001
                meta['edge_note'] = repr(e)[:200]
                ev['edges'] = []
    # --- UNCHANGED clauses from snapshots
    def vals_equal(a, b):
        return str(a.unit) == str(b.unit) and a.dtype == b.dtype and a.shape == b.shape and \
            np.array_equal(np.asarray(a.values), np.asarray(b.values))

    ev['same']['masks'] = set(out.masks.keys()) == set(snap.masks.keys()) and all(
        vals_equal(out.masks[m], snap.masks[m]) for m in snap.masks.keys())
    ev['same']['coords'] = all(n in out.coords and vals_equal(out.coords[n], snap.coords[n])
                               for n in ('aux', 'run'))
    ev['same']['input'] = bool(sc.identical(da, snap)) and bool(
        sc.identical(da.bins.constituents['data'], snap_buf))
    return ev, meta


def run_event_cases(args):
    cases, seed = args
    import warnings

    warnings.simplefilter('ignore')
    out = []
    for c in cases:
        try:
            out.append(run_event_case(c, seed))
        except Exception as e:  # noqa: BLE001  (harness problem, not a verdict)
            import traceback

            out.append(({'tid': c['tid'], 'harness_error': repr(e)[:300] + traceback.format_exc()[-600:]}, {}))
    return out
