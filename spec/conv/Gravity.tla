------------------------------- MODULE Gravity -------------------------------
(* C04: gravity-corrected scattering angles on every code path.                           *)
(* State: the current setup and the result `out` of the last call, produced by the       *)
(* implementation-shaped Dispatch (general path for g.b1 # 0, optimised path otherwise).  *)
(* Actions change one ingredient at a time (tilt the incident beam, move the detector,    *)
(* change the wavelength i.e. the drop parameter q, reorient the whole beamline by a      *)
(* lattice rotation) and call again.  Invariants compare `out` with the documented        *)
(* construction (GravityDefs); action properties state continuity-in-kind: the limit      *)
(* q -> 0, monotonicity in q, rotation invariance.                                        *)
EXTENDS GravityDefs

CONSTANTS GDirs,     \* gravity directions (integer vectors with integer norm)
          Beams,     \* incident beam vectors
          Dets,      \* scattered beam vectors
          Qs,        \* drop parameters <<qn, qd>>
          Rots,      \* rotations used by Reorient (generators of, or all of, Rot24)
          Bug        \* "none" | "plus_g" | "opt_no_x" | "refl_accepts" | "all_pixels"

VARIABLES setup, out
vars == <<setup, out>>

(* implementation-shaped pieces (with the seeded mistakes of the negative controls) *)
IGeneralDir(s) == IF Bug = "plus_g" THEN s.g ELSE EyN(s)       \* direction the drop is added
IOptimised(s)  == IF Bug = "opt_no_x"
                  THEN LET v == RaisedN(s)  z2 == Z2(s, v)  r2 == RatAdd(Y2(s, v), z2)
                       IN  IF r2[1] = 0 THEN <<0, <<0, 1>>>> ELSE <<Sgn(ZNum(s, v)), RatDiv(z2, r2)>>
                  ELSE OptimisedClass(s)
IRefl(s)       == IF Bug = "refl_accepts" THEN <<"angle", ReflClass(s)>> ELSE Refl(s)

Dispatch(s) ==
    IF Dot(s.g, s.b1) # 0
    THEN [path |-> "general",   tt |-> GeneralClass(s, IGeneralDir(s)), phi |-> PhiClass(s),
          raised |-> GeneralRaisedN(s, IGeneralDir(s)), refl |-> IRefl(s)]
    ELSE [path |-> "optimised", tt |-> IOptimised(s), phi |-> PhiClass(s),
          raised |-> RaisedN(s), refl |-> IRefl(s)]

Setups == { s \in [g : GDirs, b1 : Beams, b2 : Dets, q : Qs] : ValidSetup(s) }

Init == setup \in Setups /\ out = Dispatch(setup)

Call(s) == s \in Setups /\ setup' = s /\ out' = Dispatch(s)

(* Tilt / MoveDetector go to a neighbouring lattice vector (every setup is also an initial  *)
(* state, so nothing is lost by taking small steps)                                        *)
Adjacent(u, v) == Norm2(VSub(u, v)) = 1
Tilt         == \E b \in Beams : Adjacent(b, setup.b1) /\ Call([setup EXCEPT !.b1 = b])
MoveDetector == \E d \in Dets : Adjacent(d, setup.b2) /\ Call([setup EXCEPT !.b2 = d])
Lift         == \E q \in Qs : RatLt(setup.q, q) /\ Call([setup EXCEPT !.q = q])
Lower        == \E q \in Qs : RatLt(q, setup.q) /\ Call([setup EXCEPT !.q = q])
RotSetup(R, s) == [g |-> MatVec(R, s.g), b1 |-> MatVec(R, s.b1), b2 |-> MatVec(R, s.b2), q |-> s.q]
Reorient     == \E R \in Rots : Call(RotSetup(R, setup))

(* cheap recognisers of a step's kind for the action properties (same relation as the     *)
(* actions above, without re-evaluating Dispatch)                                        *)
IsLift     == setup' = [setup EXCEPT !.q = setup'.q] /\ RatLt(setup.q, setup'.q)
IsReorient == \E R \in Rots : setup' = RotSetup(R, setup)

Next == Tilt \/ MoveDetector \/ Lift \/ Lower \/ Reorient
Spec == Init /\ [][Next]_vars

-----------------------------------------------------------------------------
TypeOK == setup \in Setups /\ out.path \in {"general", "optimised"}

(* the beam-aligned frame is orthogonal, right handed, y against gravity, z along the    *)
(* horizontal part of the incident beam                                                  *)
Basis ==
    LET s == setup IN
    /\ Dot(EyN(s), ZpN(s)) = 0 /\ Dot(EyN(s), ExN(s)) = 0 /\ Dot(ExN(s), ZpN(s)) = 0
    /\ SameDirection(Cross(ExN(s), EyN(s)), ZpN(s))
    /\ SameDirection(EyN(s), VNeg(s.g))
    /\ Dot(s.b1, ZpN(s)) > 0 /\ Dot(s.b1, ExN(s)) = 0
    \* Parseval: x^2 + y^2 + z^2 = |b2|^2
    /\ RatEq(RatAdd(RatAdd(X2(s, s.b2), Y2(s, s.b2)), Z2(s, s.b2)), <<Norm2(s.b2), 1>>)

(* the detected beam is RAISED: b2' - b2 points against gravity and has length delta      *)
Raised ==
    LET s == setup
        diff == VSub(out.raised, VScale(RaisedD(s), s.b2))      \* (b2' - b2) * RaisedD
        dn   == s.q[1] * N2(s)                                   \* delta * q_den
    IN  /\ (dn = 0 => diff = Zero3)
        /\ (dn > 0 => SameDirection(diff, VNeg(s.g)))
        \* |b2' - b2| = delta  <=>  |diff| = dn * ng
        /\ Norm2(diff) = dn * dn * Norm2(s.g)

(* whatever path was taken, the result is the documented construction *)
IsConstruction == out.tt = TwoThetaClass(setup) /\ out.phi = PhiClass(setup)

(* on perpendicular setups the general and the optimised formula coincide *)
PathsAgree == Perpendicular(setup) =>
                 /\ GeneralClass(setup, IGeneralDir(setup)) = IOptimised(setup)
                 /\ out.path = "optimised"

(* lambda = 0 or g = 0 (q = 0): the gravity-free angles *)
Limit == setup.q[1] = 0 => out.tt = FreeClass(setup) /\ out.phi = FreePhiClass(setup)

(* horizontal beam, detector above it, delta > 0: strictly larger angle for forward       *)
(* detectors (the property's sentence), unchanged at 90 degrees, smaller for backward     *)
Larger ==
    LET c == ExpectedCmp(setup) IN
    /\ (c = 1  => AngleLt(FreeClass(setup), out.tt))
    /\ (c = 0  => out.tt = FreeClass(setup))
    /\ (c = -1 => AngleLt(out.tt, FreeClass(setup)))

(* reflectometry variant: refusal table and agreement with 2theta in the y-z plane *)
ReflTable ==
    /\ (out.refl[1] = "refused" <=> ~Perpendicular(setup))
    /\ (out.refl[1] = "angle" /\ XNum(setup, setup.b2) = 0 => out.refl[2] = out.tt)

(* One call with an incident beam PER PIXEL: the documented dispatch takes the general path for   *)
(* all pixels as soon as ANY pixel is tilted (Bug "all_pixels": only if all of them are), and     *)
(* the reflectometry variant refuses the whole call.  Whatever company a pixel is in, its result  *)
(* is the construction for its own beam.  Companions: the current setup with a beam that is       *)
(* perpendicular to gravity instead.                                                              *)
BatchGeneral(ss) == IF Bug = "all_pixels" THEN \A s \in ss : Dot(s.g, s.b1) # 0
                    ELSE \E s \in ss : Dot(s.g, s.b1) # 0
PixelResult(s, general) == IF general THEN GeneralClass(s, IGeneralDir(s)) ELSE IOptimised(s)
(* (one companion per setup keeps the model small; every setup is reachable, so every perpendicular  *)
(* beam is some setup's companion)                                                                 *)
Companions(s) == LET P == { b \in Beams : Dot(s.g, b) = 0 /\ ValidSetup([s EXCEPT !.b1 = b]) }
                 IN  IF P = {} THEN {} ELSE { [s EXCEPT !.b1 = CHOOSE b \in P : TRUE] }
MixedBatch ==
    \A c \in Companions(setup) :
        LET general == BatchGeneral({setup, c}) IN
        /\ PixelResult(setup, general) = TwoThetaClass(setup)
        /\ PixelResult(c, general) = TwoThetaClass(c)
        /\ (general <=> ~Perpendicular(setup))          \* the companion itself never forces the general path

-----------------------------------------------------------------------------
(* raising q for a detector above a horizontal beam moves 2theta monotonically *)
Monotone ==
    [][(IsLift /\ Perpendicular(setup) /\ YNum(setup, setup.b2) >= 0) =>
          /\ (ZNum(setup, setup.b2) > 0 => AngleLt(out.tt, out'.tt))
          /\ (ZNum(setup, setup.b2) < 0 => AngleLt(out'.tt, out.tt))
          /\ (ZNum(setup, setup.b2) = 0 => out'.tt = out.tt)]_vars

(* a common rotation of gravity and both beams changes neither angle *)
RotationInvariant == [][IsReorient => (out'.tt = out.tt /\ out'.phi = out.phi /\ out'.refl = out.refl)]_vars
=============================================================================
