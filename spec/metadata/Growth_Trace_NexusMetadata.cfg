SPECIFICATION TSpec
INVARIANT Done
CHECK_DEADLOCK FALSE
