SPECIFICATION Spec
CONSTANTS
  Bug = "none"
  MaxBuilders = 4
INVARIANT TableTotal
INVARIANT WrittenWordsValid
INVARIANT AllowedWordsValid
INVARIANT SourceWins
INVARIANT RouteAgreement
INVARIANT NoGuess
INVARIANT ProbeFaithful
INVARIANT SaveFaithful
PROPERTY Persistent
CHECK_DEADLOCK FALSE
