SPECIFICATION Spec
CONSTANTS
  NPix = {10}
  Chunks = {1, 10}
  Shapes <- MC_Shapes_reuse
  RegSize <- MC_RegSize
  ByteOrders <- MC_BO_big
  Prev <- MC_Prev_none
  MaxGen = 1
  Bug = "rows"
INVARIANT TypeOK
INVARIANT HeaderFirst
INVARIANT Sequential
INVARIANT BlockAtDeclaredPosition
INVARIANT Tiling
INVARIANT NothingSurvives
INVARIANT EachBlockOnce
INVARIANT CanonicalOrder
INVARIANT PixBytes
INVARIANT KindsAndSizes
INVARIANT ByteOrderReopened
CHECK_DEADLOCK FALSE
