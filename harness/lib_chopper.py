"""Shared helpers of the chopper checks (C10 disk chopper, C11 chopper cascade).

Refinement mapping C10: the TLA+ model measures angles in ticks (K per turn) and time in ticks
(K per rotation period).  A model configuration is handed to the real ``DiskChopper`` as
  angle  = ticks * 360/K deg   (exact in binary floating point for the K used here)
         | ticks * 2*pi/K rad  (correctly rounded from 50 digits)
  f      = sign * rho * f_pulse  in Hz | kHz | 1/min
and a time ``t`` returned by the code is mapped back by  ticks = t[s] * K * |f|[Hz].
"""

from __future__ import annotations

from fractions import Fraction

import mpmath
import numpy as np
import scipp as sc

from .refmap import mpf

ANGLE_UNITS = ('deg', 'rad')
FREQ_UNITS = ('Hz', 'kHz', '1/min')

# |ticks - integer| must not exceed TICK_TOL * K, i.e. 1e-9 of a rotation period.  Derivation: the
# code evaluates (bp + ph - theta [+ 2 pi]) / (2 pi f) and adds pulse offsets: < 10 roundings on
# quantities of at most ~40 periods => error < 1e-14 periods.  1e-9 periods leaves five orders of
# magnitude and is still < 4e-7 of the smallest tick used (K = 360).
TICK_TOL = 1e-9


def angle_value(ticks: int, K: int, unit: str) -> float:
    if unit == 'deg':
        v = Fraction(360 * ticks, K)
        f = float(v)
        if Fraction(f) != v:
            raise AssertionError(f'{ticks} ticks of 360/{K} deg is not exact in binary')
        return f
    if unit == 'rad':
        return float(2 * mpmath.pi * mpf(Fraction(ticks, K)))
    raise ValueError(unit)


def freq_value(f_hz: Fraction, unit: str) -> float:
    if unit == 'Hz':
        return float(f_hz)
    if unit == 'kHz':
        return float(f_hz / 1000)
    if unit == '1/min':
        return float(f_hz * 60)
    raise ValueError(unit)


def exact_in(ticks: int, K: int, dtype: str) -> bool:
    """Is `ticks` of 360/K deg exactly representable in `dtype`?"""
    v = Fraction(360 * ticks, K)
    if dtype == 'int64':
        return v.denominator == 1
    if dtype == 'float32':
        return Fraction(float(np.float32(float(v)))) == v
    return Fraction(float(v)) == v


def make_disk(K, slits, bp, ph, cw, f_hz: Fraction, aunit='deg', funit='Hz', order=None,
              scale: float = 1.0, *, bp_unit=None, ph_unit=None, adtype='float64', sdtype='float64',
              fdtype='float64', layout='plain', bp_dtype=None, ph_dtype=None):
    """Real DiskChopper for a model configuration; `scale` multiplies the frequency (used for the
    in-phase tolerance probes only).

    How the *same* configuration is handed over (none of this changes which disk is described):
      bp_unit, ph_unit  unit of beam position / phase when it differs from the unit of the slit edges
      adtype            dtype of the slit edge arrays ('int64' / 'float32': only in deg, where the tick grid is exact)
      sdtype            dtype of beam position and phase ('int64': only in deg on whole degrees)
      bp_dtype, ph_dtype  dtype of one of the two when it differs from sdtype (an integer-typed beam position in
                        deg next to a float phase in rad, and vice versa)
      fdtype            dtype of the frequency ('int64': the caller makes sure the value is whole in `funit`)
      layout            'plain'    contiguous begin / end arrays
                        'strided'  begin = edges[::2], end = edges[1::2] of one interleaved array
                        'nexus'    DiskChopper.from_nexus with the interleaved array as slit_edges
                        'nexus2'   DiskChopper.from_nexus with slit_begin / slit_end, slit_height and radius
    """
    from scippneutron.chopper import DiskChopper

    order = list(range(len(slits))) if order is None else order
    begin = [angle_value(slits[i][0], K, aunit) for i in order]
    end = [angle_value(slits[i][1], K, aunit) for i in order]
    sign = -1 if cw else 1
    if adtype != 'float64':
        if aunit != 'deg' or not all(exact_in(x, K, adtype) for s in slits for x in s):
            raise AssertionError(f'slit edges are not exact in {adtype}')
    bp_dtype, ph_dtype = bp_dtype or sdtype, ph_dtype or sdtype
    for t_, dt_, un_ in ((bp, bp_dtype, bp_unit or aunit), (ph, ph_dtype, ph_unit or aunit)):
        if dt_ != 'float64' and (not exact_in(t_, K, dt_) or un_ == 'rad'):
            raise AssertionError(f'beam position / phase are not exact in {dt_}')
    fval = sign * freq_value(f_hz, funit) * scale
    if fdtype == 'int64':
        if fval != int(fval) or scale != 1.0:
            raise AssertionError('frequency is not a whole number in its unit')
        fval = int(fval)

    def scalar_angle(t, unit, dt):
        v = angle_value(t, K, unit)
        return sc.scalar(int(v) if dt == 'int64' else v, unit=unit, dtype=dt)

    frequency = sc.scalar(fval, unit=funit, dtype=fdtype)
    beam_position = scalar_angle(bp, bp_unit or aunit, bp_dtype)
    phase = scalar_angle(ph, ph_unit or aunit, ph_dtype)
    axle = sc.vector([0.0, 0.0, 6.5], unit='m')
    if layout in ('strided', 'nexus'):
        inter = [x for pair in zip(begin, end) for x in pair]
        edges = sc.array(dims=['slit'], values=inter, unit=aunit, dtype=adtype)
        sb, se = edges[::2], edges[1::2]
    else:
        edges = None
        sb = sc.array(dims=['slit'], values=begin, unit=aunit, dtype=adtype)
        se = sc.array(dims=['slit'], values=end, unit=aunit, dtype=adtype)
    if layout in ('nexus', 'nexus2'):
        fields = {'position': axle, 'rotation_speed': frequency, 'beam_position': beam_position, 'phase': phase,
                  'radius': sc.scalar(0.35, unit='m')}
        if layout == 'nexus':
            fields['slit_edges'] = edges
        else:
            fields['slit_begin'], fields['slit_end'] = sb, se
            fields['slit_height'] = sc.scalar(0.1, unit='m')
        return DiskChopper.from_nexus(fields)
    return DiskChopper(axle_position=axle, frequency=frequency, beam_position=beam_position, phase=phase,
                       slit_begin=sb, slit_end=se)


# a tick count that TLC's JSON reader (32-bit integers) and the judge (loops over the covered span) can take
MAX_TICKS = 10**6


def to_ticks(var, K: int, f_hz: Fraction):
    """(integer ticks, all within tolerance of the tick grid?) for a variable of times.

    Anything that is not a finite time on the tick grid - not a Variable, not a time, non-finite, absurdly
    large - gives (zeros, False): the judge then names it, the driver never crashes on it."""
    try:
        secs = np.asarray(var.to(unit='s', dtype='float64').values, dtype='float64').ravel()
    except Exception:  # noqa: BLE001  (the implementation returned something that is not a time)
        return [], False
    x = secs * float(K * abs(f_hz))
    if not np.all(np.isfinite(x)) or np.any(np.abs(x) > MAX_TICKS):
        return [0] * len(x), False
    r = np.rint(x)
    ok = bool(np.all(np.abs(x - r) <= TICK_TOL * K))
    return [int(v) for v in r], ok


def touching_only(slits, K) -> bool:
    """Invalid only because two slits share an end point (no common interior): decided by exact
    float equality in the code, hence replayed only in units where the ticks are exact."""
    def cells(s):
        return {(s[0] + j) % K for j in range(s[1] - s[0])}

    def points(s):
        return {(s[0] + j) % K for j in range(s[1] - s[0] + 1)}

    shared_pts = shared_cells = False
    for i in range(len(slits)):
        for j in range(i + 1, len(slits)):
            if points(slits[i]) & points(slits[j]):
                shared_pts = True
            if cells(slits[i]) & cells(slits[j]):
                shared_cells = True
    return shared_pts and not shared_cells


def random_valid_slits(rng, K, n):
    pts = sorted(rng.sample(range(K), 2 * n))
    if rng.random() < 0.5:
        return [[pts[2 * i], pts[2 * i + 1]] for i in range(n)]
    sl = [[pts[2 * i + 1], pts[2 * i + 2]] for i in range(n - 1)]
    sl.append([pts[2 * n - 1], pts[0] + K])       # spans top-dead-centre
    return sl


def spans_tdc(slits, K) -> bool:
    return any(s[1] > K for s in slits)


class Background:
    """Run the exhaustive TLC checks in a thread while the replays run; errors resurface in join()."""

    def __init__(self, fn):
        import threading

        self.exc = None

        def wrap():
            try:
                fn()
            except BaseException as e:  # noqa: BLE001
                self.exc = e

        self.t = threading.Thread(target=wrap, daemon=True)
        self.t.start()

    def __enter__(self):
        return self

    def __exit__(self, etype, evalue, tb):
        self.t.join()            # never leave a TLC process behind
        if etype is None and self.exc is not None:
            raise self.exc
        return False


class Collector:
    """What a replay worker process reports back: events for the trace judge, violations, case counts."""

    def __init__(self):
        self.events, self.info, self.violations, self.cases = [], [], [], []
        self._nkey = {}
        self.counters = {}

    def add(self, ev, info):
        self.events.append(ev)
        self.info.append(info)

    def violation(self, key, detail=None):
        n = self._nkey.get(key, 0)
        self._nkey[key] = n + 1
        self.violations.append((key, detail if n < 5 else None))

    def case(self, nontrivial_id=None, n=1):
        self.cases.append(nontrivial_id)

    def count(self, name, inc=1):
        self.counters[name] = self.counters.get(name, 0) + inc

    def export(self):
        return {'events': self.events, 'info': self.info, 'violations': self.violations, 'cases': self.cases,
                'counters': self.counters}


def merge_results(ctx, results):
    """Concatenate worker results in task order; returns (events, info, counters)."""
    events, info, counters = [], [], {}
    for r in results:
        for ev, inf in zip(r['events'], r['info']):
            ev['tid'] = len(events)
            events.append(ev)
            info.append(inf)
        for key, detail in r['violations']:
            ctx.violation(key, detail or {})
        for c in r['cases']:
            ctx.case(nontrivial_id=c)
        for k, v in r['counters'].items():
            counters[k] = counters.get(k, 0) + v
    return events, info, counters


def run_chunks(fn, chunks, procs):
    """fn(chunk) for every chunk, each in a freshly spawned process, results in order.

    Fresh processes are needed, not only wanted for speed: scipp keeps a process-wide table of at most 64536
    dimension labels and DiskChopper.time_offset_* registers a new uuid label on every call, so a single process
    can make only that many calls before every further one raises RuntimeError."""
    import multiprocessing as mp

    if not chunks:
        return []
    with mp.get_context('spawn').Pool(processes=max(1, min(procs, len(chunks))), maxtasksperchild=1) as pool:
        return pool.map(fn, chunks, chunksize=1)


def chunked(tasks, size):
    return [tasks[i:i + size] for i in range(0, len(tasks), size)]
