----------------------- MODULE MC_ConvertGraphHistory -----------------------
EXTENDS ConvertGraphHistory
(* two origins, a geometry target, two dynamic targets and the inelastic one, both scatter   *)
(* flags, the three modes: every pair of requests that can confuse a partial key is there     *)
MC_Reqs == { r \in [o : {"tof", "wavelength"}, t : {"L1", "wavelength", "Q", "energy_transfer"},
                    s : BOOLEAN, mode : {"elastic", "direct_inelastic", "indirect_inelastic"}] : r.t # r.o }
=============================================================================
