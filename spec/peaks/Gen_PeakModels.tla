--------------------------- MODULE Gen_PeakModels ---------------------------
(* spec -> code: constant-level enumeration of the cases the driver replays into the real  *)
(* models: every model expression of the bounded name algebra (including the refused       *)
(* compositions), the parameter grid for the closed forms, the canonical unit assignments. *)
(* Expected outcomes are recomputed from the same definitions by Trace_PeakModels.         *)
EXTENDS PeakModelsDefs, TLC, Json, IOUtils, SequencesExt

Letters == {"a", "0", "_"}
MaxPrefixLen == 2
PrefixSet == UNION {[1..k -> Letters] : k \in 0..MaxPrefixLen}
OuterPrefixes == {<<>>, <<"a">>, <<"_">>, <<"a", "0">>}
Leaves == {[kind |-> "poly", deg |-> d, prefix |-> p] : d \in {1, 2}, p \in PrefixSet}
          \cup {[kind |-> k, deg |-> 0, prefix |-> p] : k \in {"gauss", "lorentz", "pvoigt"}, p \in PrefixSet}
Comps == {[kind |-> "comp", deg |-> 0, prefix |-> p, left |-> l, right |-> r] :
            l \in Leaves, r \in Leaves, p \in OuterPrefixes}
ASSUME ndJsonSerialize(IOEnv.MODEL_FILE, SetToSeq(Leaves \cup Comps))

(* parameter grid: amplitude A, scale 10^e, location mu, fraction f/4 *)
Grid == {[A |-> A, e |-> e, mu |-> mu, f |-> f] :
           A \in {-3, -1, 2, 7}, e \in -6..6, mu \in {-5, 0, 3, 1000}, f \in 0..4}
ASSUME ndJsonSerialize(IOEnv.GRID_FILE, SetToSeq(Grid))

(* canonical unit assignments *)
Units == {<<p, i, j>> : p \in {0, -3}, i \in {-1, 0, 1}, j \in {-1, 0, 1}}
UKinds == {"poly1", "poly2", "poly3", "gauss", "lorentz", "pvoigt"}
UCases == {[kind |-> k, ux |-> ux, pu |-> Canonical(k, ux, uy)] : k \in UKinds, ux \in Units, uy \in Units}
ASSUME \A c \in UCases : ResultUnit(c.kind, c.pu, c.ux)[1] = 1
ASSUME ndJsonSerialize(IOEnv.UNIT_FILE, SetToSeq(UCases))

ASSUME PrintT(<<"GEN", Cardinality(Leaves \cup Comps), Cardinality(Grid), Cardinality(UCases)>>)

VARIABLE x
Init == x = 0
Next == x' = x
=============================================================================
