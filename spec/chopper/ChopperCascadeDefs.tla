------------------------ MODULE ChopperCascadeDefs ------------------------
(* State-free definitions for property C11 (chopper cascade), shared by the state machine  *)
(* ChopperCascade, the emitter Emit_ChopperCascade and the judge Trace_ChopperCascade.     *)
(*                                                                                          *)
(* Units: m_n / h = 1, so a neutron emitted at time te with wavelength w arrives at         *)
(* distance d at time  te + d * w.  All inputs are integers:                                *)
(*   pulse   p = [t0, t1, w0, w1]      emission-time and wavelength rectangle               *)
(*   chopper c = [d, win]               distance (EVEN) and a sequence of windows <<o, cl>>  *)
(* Layer (a), NEUTRONS: grid neutrons sit on half-integer emission times and wavelengths,   *)
(* written doubled as odd integers <<te2, w2>>.  Because distances are even, the doubled     *)
(* arrival time te2 + d * w2 is odd: no grid neutron is ever on a window edge.               *)
(* Layer (b), POLYGONS: the algorithm of the implementation (shear the vertices by the       *)
(* distance, Sutherland-Hodgman clipping against t >= open and then t <= close, one new      *)
(* subframe per (subframe, window)).  Polygon coordinates are scaled by L, a common          *)
(* multiple of all differences of distances (and of the distances themselves), which makes   *)
(* every clip vertex an integer (checked: ExactQuot).                                        *)
EXTENDS Integers, Sequences, FiniteSets, TLC

-----------------------------------------------------------------------------
(* (a) neutrons                                                                              *)
OddBetween(a, b) == { x \in (2*a+1)..(2*b-1) : x % 2 = 1 }
Neutrons(p) == OddBetween(p.t0, p.t1) \X OddBetween(p.w0, p.w1)

Arrival2(n, d) == n[1] + d * n[2]                  \* doubled arrival time at distance d
Passes(n, c) == \E m \in 1..Len(c.win) :
                    2 * c.win[m][1] < Arrival2(n, c.d) /\ Arrival2(n, c.d) < 2 * c.win[m][2]
Transmitted(n, cs) == \A k \in 1..Len(cs) : Passes(n, cs[k])     \* cs: any sequence of choppers

-----------------------------------------------------------------------------
(* (b) polygons: a polygon is a sequence of vertices <<t, w>> (scaled by L) at one distance  *)
Rect(p, L) == << <<L*p.t0, L*p.w0>>, <<L*p.t1, L*p.w0>>, <<L*p.t1, L*p.w1>>, <<L*p.t0, L*p.w1>> >>

Shear(poly, dd)     == [ i \in 1..Len(poly) |-> << poly[i][1] + dd * poly[i][2], poly[i][2] >> ]
ShearAll(polys, dd) == [ k \in 1..Len(polys) |-> Shear(polys[k], dd) ]

(* For the correct procedure every clip vertex is an integer (the scale L sees to that); if  *)
(* not, the scale is wrong and the run stops.  A WRONG variant (negative control) may well    *)
(* produce non-integer crossings: the quotient is then rounded down, so that the run goes on  *)
(* until TLC reports the invariant the variant violates (and not, depending on the order in   *)
(* which the workers pick the states, this assertion first).                                   *)
ExactQuot(a, b, bug) ==
    LET aa == IF b < 0 THEN -a ELSE a
        bb == IF b < 0 THEN -b ELSE b
    IN IF aa % bb = 0 \/ bug # "none" THEN aa \div bb
       ELSE Assert(FALSE, <<"clip vertex is not an integer: the scale L is wrong", a, b>>)

InsideHalfPlane(v, time, closeToOpen) == IF closeToOpen THEN v[1] >= time ELSE v[1] <= time

(* wavelength where the edge a -> b crosses t = time:  w_a + (time - t_a)(w_b - w_a)/(t_b - t_a) *)
(* (the same number as (1-s) w_a + s w_b with s = (time - t_a)/(t_b - t_a))                   *)
CrossingW(a, b, time, c2o, bug) ==
    LET q == ExactQuot((time - a[1]) * (b[2] - a[2]), b[1] - a[1], bug)
    IN IF bug = "interpsign" THEN a[2] - q
       ELSE IF bug = "tiebreak" /\ a[2] = b[2] THEN (IF c2o THEN a[2] + 1 ELSE a[2] - 1)
       ELSE a[2] + q

RECURSIVE ClipFrom(_, _, _, _, _)
ClipFrom(poly, time, c2o, i, bug) ==
    IF i > Len(poly) THEN <<>>
    ELSE LET j  == (i % Len(poly)) + 1            \* j wraps around
             a  == poly[i]
             b  == poly[j]
             ia == InsideHalfPlane(a, time, c2o)
             ib == InsideHalfPlane(b, time, c2o)
         IN (IF ia THEN <<a>> ELSE <<>>)
            \o (IF ia # ib
                THEN << << time, CrossingW(a, b, time, c2o, bug) >> >>
                ELSE <<>>)
            \o ClipFrom(poly, time, c2o, i + 1, bug)
Clip(poly, time, c2o, bug) == ClipFrom(poly, time, c2o, 1, bug)

(* one window: clip against t >= open, then t <= close; nothing left => no subframe          *)
ClipWindow(poly, w, L, bug) ==
    LET a == Clip(poly, L * w[1], bug # "orientation", bug)
    IN IF a = <<>> THEN <<>>
       ELSE LET b == Clip(a, L * w[2], bug = "orientation", bug)
            IN IF b = <<>> THEN <<>> ELSE <<b>>

(* The windows of a chopper are applied IN THE ORDER THEY ARE LISTED, which need not be the   *)
(* order in time (the API asks for no order; a disk turning anticlockwise lists the openings *)
(* of one rotation in decreasing order).  bug = "breaksorted": the loop over the windows     *)
(* stops at the first window that opens after the subframe has ended - right only for        *)
(* windows listed by increasing time.                                                        *)
PolyEnd(poly) == CHOOSE x \in { poly[i][1] : i \in 1..Len(poly) } :
                    \A y \in { poly[i][1] : i \in 1..Len(poly) } : x >= y
RECURSIVE OverWindows(_, _, _, _, _)
OverWindows(poly, win, m, L, bug) ==
    IF m > Len(win) THEN <<>>
    ELSE IF bug = "breaksorted" /\ L * win[m][1] > PolyEnd(poly) THEN <<>>
    ELSE ClipWindow(poly, win[m], L, bug) \o OverWindows(poly, win, m + 1, L, bug)

RECURSIVE OverPolys(_, _, _, _, _)
OverPolys(polys, k, win, L, bug) ==
    IF k > Len(polys) THEN <<>>
    ELSE OverWindows(polys[k], win, 1, L, bug) \o OverPolys(polys, k + 1, win, L, bug)

(* Frame.chop: propagate from dist to the chopper, then clip every subframe by every window  *)
ChopPolys(polys, dist, c, L, bug) ==
    LET dd == IF bug = "absdist" THEN c.d ELSE c.d - dist
        sh == IF bug = "firstonly" /\ Len(polys) > 1
              THEN <<Shear(polys[1], dd)>> ELSE ShearAll(polys, dd)
    IN OverPolys(sh, 1, c.win, L, bug)

(* FrameSequence.chop(list): sort by distance (stable), apply in that order                  *)
RECURSIVE InsertByDist(_, _)
InsertByDist(s, c) ==
    IF s = <<>> THEN <<c>>
    ELSE IF c.d < Head(s).d THEN <<c>> \o s
    ELSE <<Head(s)>> \o InsertByDist(Tail(s), c)
RECURSIVE SortByDist(_)
SortByDist(s) == IF s = <<>> THEN <<>> ELSE InsertByDist(SortByDist(SubSeq(s, 1, Len(s) - 1)), s[Len(s)])

(* frame = [d, polys]                                                                         *)
RECURSIVE ApplyInOrder(_, _, _, _)
ApplyInOrder(frame, cs, L, bug) ==
    IF cs = <<>> THEN frame
    ELSE ApplyInOrder([d |-> Head(cs).d, polys |-> ChopPolys(frame.polys, frame.d, Head(cs), L, bug)],
                      Tail(cs), L, bug)
ChopList(frame, cs, L, bug) ==
    ApplyInOrder(frame, IF bug = "nosort" THEN cs ELSE SortByDist(cs), L, bug)

(* Frame.propagate_to: shear by the signed difference of the distances - propagating back    *)
(* towards the source is allowed (the acceptance diagram does it).  bug = "absdelta": the    *)
(* magnitude of the difference is used.                                                       *)
PropagateFrame(frame, d, bug) ==
    [d |-> d, polys |-> ShearAll(frame.polys,
                                 IF bug = "propabs" THEN d
                                 ELSE IF bug = "absdelta" /\ d < frame.d THEN frame.d - d
                                 ELSE d - frame.d)]

(* FrameSequence: the source frame followed by one frame per chopper, by increasing distance. *)
(* __getitem__(d): the last frame that is not beyond d, propagated to d.                      *)
(* bug = "getlast": the last frame of the sequence is taken whatever d is.                    *)
RECURSIVE FramesFrom(_, _, _)
FramesFrom(frame, cs, L) ==
    IF cs = <<>> THEN <<frame>>
    ELSE <<frame>> \o FramesFrom([d |-> Head(cs).d, polys |-> ChopPolys(frame.polys, frame.d, Head(cs), L, "none")],
                                 Tail(cs), L)
FrameSeq(src, cs, L) == FramesFrom(src, SortByDist(cs), L)
GetAt(frames, d, bug) ==
    LET notBeyond == { i \in 1..Len(frames) : \A j \in 1..i : frames[j].d <= d }
        k == IF bug = "getlast" THEN Len(frames)
             ELSE CHOOSE i \in notBeyond : \A j \in notBeyond : i >= j
    IN PropagateFrame(frames[k], d, "none")
UpTo(cs, d) == SelectSeq(cs, LAMBDA c : c.d <= d)

-----------------------------------------------------------------------------
(* judgements                                                                                 *)
Cross(a, b, px, py) == (b[1] - a[1]) * (py - a[2]) - (b[2] - a[2]) * (px - a[1])

(* neutron n strictly inside the convex polygon poly at distance d.  Zero-length edges are   *)
(* ignored and a polygon with fewer than 3 distinct vertices has no interior (windows that   *)
(* exactly touch a frame leave such polygons behind).  Everything doubled.                   *)
InPoly(n, poly, d, L) ==
    LET px == L * Arrival2(n, d)
        py == L * n[2]
        m  == Len(poly)
        V(i) == << 2 * poly[i][1], 2 * poly[i][2] >>
        E  == { i \in 1..m : poly[i] # poly[(i % m) + 1] }
    IN /\ Cardinality({ poly[i] : i \in 1..m }) >= 3
       /\ \/ \A i \in E : Cross(V(i), V((i % m) + 1), px, py) > 0
          \/ \A i \in E : Cross(V(i), V((i % m) + 1), px, py) < 0

InSomePoly(n, frame, L) == \E k \in 1..Len(frame.polys) : InPoly(n, frame.polys[k], frame.d, L)

MinOver(S) == CHOOSE x \in S : \A y \in S : x <= y
MaxOver(S) == CHOOSE x \in S : \A y \in S : x >= y

RegularPoly(poly) ==
    LET I  == 1..Len(poly)
        tl == MinOver({ poly[i][1] : i \in I })   th == MaxOver({ poly[i][1] : i \in I })
        wl == MinOver({ poly[i][2] : i \in I })   wh == MaxOver({ poly[i][2] : i \in I })
    IN /\ \E i \in I : poly[i][1] = tl /\ poly[i][2] = wl
       /\ \E i \in I : poly[i][1] = th /\ poly[i][2] = wh

InBand(poly, p, L) == \A i \in 1..Len(poly) : L * p.w0 <= poly[i][2] /\ poly[i][2] <= L * p.w1

(* per-subframe bounds <<tmin, tmax, wmin, wmax>>                                             *)
BoundsOf(poly) ==
    LET I == 1..Len(poly)
    IN << MinOver({ poly[i][1] : i \in I }), MaxOver({ poly[i][1] : i \in I }),
          MinOver({ poly[i][2] : i \in I }), MaxOver({ poly[i][2] : i \in I }) >>

(* all permutations of a sequence (short sequences only)                                      *)
Perms(s) == { q \in [1..Len(s) -> 1..Len(s)] : \A i, j \in 1..Len(s) : i # j => q[i] # q[j] }
Permuted(s, q) == [ i \in 1..Len(s) |-> s[q[i]] ]
=============================================================================
