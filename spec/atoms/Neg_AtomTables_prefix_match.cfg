SPECIFICATION Spec
CONSTANTS
  Universe <- MC_UniverseSmall
  MaxHist = 2
  Bug = "prefix_match"
INVARIANT SameAsDeclarative
INVARIANT NeverAnotherRow
INVARIANT MassOnlyForIsotopes
INVARIANT CacheFaithful
CHECK_DEADLOCK FALSE
