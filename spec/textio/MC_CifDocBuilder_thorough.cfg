SPECIFICATION Spec
CONSTANTS
  MaxCalls = 4
  Bug = "none"
INVARIANT TypeOK
INVARIANT SavedReadsBack
INVARIANT NoAuthorLostOrMerged
INVARIANT EveryRoleHasOneAuthor
INVARIANT ContentInCallOrder
INVARIANT NameIsLastGiven
CHECK_DEADLOCK FALSE
