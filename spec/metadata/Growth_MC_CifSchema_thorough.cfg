SPECIFICATION Spec
CONSTANTS
  Bug = "none"
  MaxBlocks = 2
  MaxItems = 3
  ItemDecls <- MC_ItemDecls
INVARIANT CoreWheneverAny
INVARIANT DeclaredAreUsed
INVARIANT NothingUndeclared
INVARIANT NoSchemaNoLoop
PROPERTY WriteFaithful
PROPERTY Steps
CHECK_DEADLOCK FALSE
