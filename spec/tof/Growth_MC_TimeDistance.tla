----------------------- MODULE Growth_MC_TimeDistance -----------------------
(* Model-checking instance of Growth_TimeDistance.  The cfg files give the bounds:            *)
(*   Growth_MC_TimeDistance.cfg           quick: every diagram of 2 calls, all invariants,    *)
(*                                        complete behaviours printed for the replay          *)
(*   Growth_MC_TimeDistance_thorough.cfg  every diagram of 2 calls on a larger grid            *)
(*   Growth_MC_TimeDistance_deep.cfg      every diagram of 3 calls on the quick grid           *)
(*   Growth_MC_TimeDistance_sim.cfg       random walks of 6 calls (-simulate), printed         *)
(*   Growth_Neg_TimeDistance_<bug>.cfg    negative controls: TLC must reject                   *)
EXTENDS Growth_TimeDistance

(* random walks: TLC's simulator draws uniformly among ALL successor states (bands almost always) and *)
(* evaluates the invariants - hence the export - on every candidate; here exactly one successor is      *)
(* offered: the kind of call is drawn first, then one parameter choice (the sets depend on the state so *)
(* that TLC does not evaluate the draw once and for all)                                                *)
Here(S) == { x \in S : Len(ops) >= 0 }
SimNext == /\ Len(ops) < MaxOps
           /\ \E k \in { RandomElement(Here(1..5)) } :
               \/ k = 1 /\ \E p \in { RandomElement(Here(Pulses)) } : AddSourcePulseP(p)
               \/ k = 2 /\ \E q \in { RandomElement(Here(Offsets \X Lambdas \X Dists \X BOOLEAN)) } : AddNeutronP(q)
               \/ k = 3 /\ \E q \in { RandomElement(Here(BandParams)) } : AddNeutronsP(q)
               \/ k = 4 /\ \E d \in { RandomElement(Here(Dists)) } : AddDetectorP(d)
               \/ k = 5 /\ \E d \in { RandomElement(Here(Dists)) } : AddSampleP(d)
SimSpec == Init /\ [][SimNext]_vars
=============================================================================
