"""Shared helpers of the SQW checks C12 (container layout) and C13 (content).

* `RecordingBytesIO`      file object handed to the real builder; logs every write(pos, n) / seek
* `random_config` / `config_from_behaviour`   abstract build configurations (JSON-able)
* `build_file`            performs a configuration on the real SqwBuilder (every call wrapped)
* `expected_pix`          exact oracle for the 9 x N float32 pixel table (one rounding, guard band)
* `layout_event`          C12: bytes -> independent decoder -> integer/string event for TLC
* `content_events`        C13: decoded content and Sqw.read_data_block results -> id/flag events

The oracle never calls scippneutron: expected values come from the configuration (exact binary
floats, exact decimal unit factors as Fractions, mpmath for deg -> rad).
"""

from __future__ import annotations

import io
import math
import os
import sys
from fractions import Fraction
from pathlib import Path

import mpmath
import numpy as np

from . import sqwdecode as D

ITEMS = ('pix', 'det', 'dnd', 'inst', 'samp')
ROW_NAMES = ('u1', 'u2', 'u3', 'u4', 'irun', 'idet', 'ien', 'signal', 'error')
ROW_UNITS = ('1/angstrom', '1/angstrom', '1/angstrom', 'meV', None, None, None, 'count', 'count**2')
NATIVE = sys.byteorder

# exact factors: value[unit] * FACTOR = value[row unit]
INV_LENGTH = {'1/angstrom': Fraction(1), '1/nm': Fraction(1, 10), '10/angstrom': Fraction(10),
              '1/um': Fraction(1, 10**4), '1/fm': Fraction(10**5)}
ENERGY = {'meV': Fraction(1), 'eV': Fraction(1000), 'ueV': Fraction(1, 1000)}
COUNT = {'count': Fraction(1), 'kcount': Fraction(1000), 'Mcount': Fraction(10**6)}
LENGTH_A = {'angstrom': Fraction(1), 'nm': Fraction(10), 'pm': Fraction(1, 100)}


# ------------------------------------------------------------------------------- recording file
class RecordingBytesIO(io.BytesIO):
    """io.BytesIO that logs every write as ('w', position, n) and every seek as ('s', position)."""

    def __init__(self):
        super().__init__()
        self.log = []

    def write(self, b):
        pos = self.tell()
        n = super().write(b)
        self.log.append(('w', pos, n))
        return n

    def seek(self, *a):
        r = super().seek(*a)
        self.log.append(('s', r))
        return r

    def truncate(self, *a):
        r = super().truncate(*a)
        self.log.append(('t', r))
        return r


def rle_log(log, cap: int = 400):
    """Writes as run-length encoded [pos, n, count] (count back-to-back writes of n bytes each);
    zero-length writes are stuttering steps and dropped.  At most `cap` entries are kept, the
    rest is summarised in one covering entry only if it is sequential (else flagged)."""
    out = []
    for op, pos, *rest in log:
        if op != 'w':
            continue
        n = rest[0]
        if n == 0:
            continue
        if out and out[-1][1] == n and out[-1][0] + out[-1][1] * out[-1][2] == pos:
            out[-1][2] += 1
        else:
            out.append([pos, n, 1])
    truncated = False
    if len(out) > cap:
        truncated = True
        out = out[:cap]
    return out, truncated


# ---------------------------------------------------------------------------- exact float32 oracle
def _f32_mid(c32: np.ndarray, direction: float) -> np.ndarray:
    nb = np.nextafter(c32, np.float32(direction)).astype(np.float64)
    return (c32.astype(np.float64) + nb) / 2.0  # exact: both are f32 values


GUARD = 2.0 ** -46  # relative half-width of the band around a float32 rounding boundary


def expected_f32(raw: np.ndarray, factor: Fraction):
    """Round `raw * factor` (exact rational product of the binary input and the decimal unit factor)
    ONCE to float32.

    Returns (exp32, alt32, ambiguous).  `exp32` is the correctly rounded value.  The code under
    test necessarily forms the product in float64 first (error <= a few ulp(f64), i.e. <= 2^-50
    relative, scipp's factor for 1/nm -> 1/angstrom is itself 1 ulp off 0.1) and rounds that to
    float32; this differs from the single rounding only if the exact product lies within that
    distance of a midpoint between two float32 values.  Inside the band |x - midpoint| <=
    2^-46 |x| both neighbours are accepted (`ambiguous`, the second one in `alt32`); outside it
    exact equality with `exp32` is required.  Same unit (factor 1): no band, the cast is exact
    single rounding."""
    raw = np.asarray(raw, dtype=np.float64)
    with np.errstate(over='ignore', invalid='ignore'):
        if factor == 1:
            c = raw.astype(np.float32)
            return c, c.copy(), np.zeros(raw.shape, bool)
        ff = float(factor)
        y = raw * ff                       # within 2^-52 relative of the exact product
        c = y.astype(np.float32)
        up = _f32_mid(c, np.inf)
        dn = _f32_mid(c, -np.inf)
        tol = np.abs(y) * GUARD
        near_up = np.abs(y - up) <= tol
        near_dn = np.abs(y - dn) <= tol
        amb = (near_up | near_dn) & np.isfinite(c)
        alt = c.copy()
        alt[near_up] = np.nextafter(c[near_up], np.float32(np.inf))
        alt[near_dn] = np.nextafter(c[near_dn], np.float32(-np.inf))
        # subnormal float64 products lose relative accuracy: treat results below 1e-300 as ambiguous
        tiny = (np.abs(y) < 1e-300) & (raw != 0)
        amb |= tiny
    return c, alt, amb


def f64_close(got: float, exact, ulps: int = 4) -> bool:
    """|got - exact| <= ulps * ulp(f64) of the correctly rounded exact value (Fraction or mpf)."""
    if isinstance(exact, Fraction):
        ref = exact.numerator / exact.denominator if exact.denominator != 1 else float(exact.numerator)
    else:
        ref = float(exact)
    if not math.isfinite(got):
        return False
    if ref == got:
        return True
    return abs(got - ref) <= ulps * math.ulp(ref)


def deg2rad_exact(x: float):
    return mpmath.mpf(x) * mpmath.pi / 180


# ------------------------------------------------------------------------------- configurations
_ALPHA = 'abcdefghijklmnopqrstuvwxyzABCDEFGHIJKLMNOPQRSTUVWXYZ0123456789 _-.,;:!?()[]{}<>=+*/\\\'"#$%&@^~|`'


def rand_ascii(rng, n: int, filesafe: bool = False) -> str:
    al = 'abcdefghijklmnopqrstuvwxyzABCDEFGHIJKLMNOPQRSTUVWXYZ0123456789_-.' if filesafe else _ALPHA
    return ''.join(rng.choice(al) for _ in range(n))


EDGE_STRINGS = (' ', '  ', ' a', 'a ', ' a b  ', '0', '-1.5e3', 'nan', "''", '""', '\\', '%s', '{}', 'a' * 255, 'b' * 256,
                'c' * 257)


def rand_string(rng, n: int) -> str:
    """ASCII string of about n characters; now and then one whose ends are blanks, that looks like a
    number / a format, or whose length sits at a power of two."""
    if rng.random() < 0.12:
        return rng.choice(EDGE_STRINGS)
    return rand_ascii(rng, n)


def rand_len(rng, big: int = 300) -> int:
    return rng.choice([0, 0, 1, 2, 5, 9, 17, 33, 64, 100, rng.randrange(0, big), rng.randrange(0, 40)])


def _f32(x: float) -> float:
    return float(np.float32(x))


def _angle(rng, num: str = 'float'):
    if num == 'int':      # integer-typed angles (90 deg is the int 90, not 90.0)
        unit = rng.choice(['rad', 'deg'])
        return [rng.choice([0, 90, -90, 180, 45, rng.randrange(-360, 361)]) if unit == 'deg'
                else rng.choice([0, 1, -2, 3, rng.randrange(-6, 7)]), unit]
    if num == 'f32':      # single precision, no conversion needed (see the assumption in c13.py)
        return [_f32(rng.choice([0.0, 1.0, -0.5, rng.uniform(-7, 7), rng.uniform(-1e-3, 1e-3)])), 'rad']
    unit = rng.choice(['rad', 'deg'])
    if unit == 'deg':
        v = rng.choice([0.0, -0.0, 90.0, -90.0, 180.0, 45.0, float(rng.randrange(-360, 361)),
                        rng.uniform(-360, 360), rng.uniform(-1, 1) * 10.0 ** rng.randrange(-12, 3)])
    else:
        v = rng.choice([0.0, -0.0, 1.0, -0.5, rng.uniform(-7, 7), rng.uniform(-1e-3, 1e-3),
                        rng.uniform(-1, 1) * 10.0 ** rng.randrange(-12, 1)])
    return [v, unit]


NUM_CLASSES = ('float', 'float', 'float', 'float', 'int', 'int', 'f32')


def rand_experiment(rng, run_id: int, indirect: bool, per_detector_en: bool = False, num: str | None = None):
    """One run.  `num` is the numeric class of what the caller hands over: 'float' (float64), 'int'
    (integer-typed energies and angles in any convertible unit) or 'f32' (float32 in the units of
    the file, so that no conversion is involved)."""
    num = num or rng.choice(NUM_CLASSES)
    n_en = rng.choice([1, 2, 3, 7])
    if num == 'int':
        eunit = rng.choice(['meV', 'eV', 'ueV'])
        one = lambda: float(rng.randrange(-50, 50))       # noqa: E731
        fix = lambda: float(rng.randrange(1, 500))        # noqa: E731
        efix_units = ['meV', 'eV', 'ueV']
    elif num == 'f32':
        eunit = 'meV'
        one = lambda: _f32(rng.uniform(-100, 100))        # noqa: E731
        fix = lambda: _f32(rng.uniform(0.1, 500))         # noqa: E731
        efix_units = ['meV']
    else:
        eunit = rng.choice(['meV', 'meV', 'eV', 'ueV'])
        one = lambda: rng.choice([float(rng.randrange(-50, 50)), rng.uniform(-100, 100)])   # noqa: E731
        fix = lambda: rng.choice([1.5, 0.16, rng.uniform(0.1, 500), rng.uniform(1, 10) * 10.0 ** rng.randrange(-9, 9)])  # noqa: E731
        efix_units = ['meV', 'meV', 'eV', 'ueV']
    en = sorted(one() for _ in range(n_en))
    if indirect:
        ndet = rng.choice([2, 3, 5])  # a 1-element array is indistinguishable from a scalar in the file
        efix = [[fix() for _ in range(ndet)], rng.choice(efix_units[:3] if num != 'float' else ['meV', 'eV'])]
        if per_detector_en:
            en = [sorted(one() for _ in range(max(n_en, 2))) for _ in range(ndet)]
    else:
        efix = [fix(), rng.choice(efix_units)]
    if num == 'int':      # JSON keeps them as integers: the scipp objects are built integer-typed
        conv = lambda x: [conv(y) for y in x] if isinstance(x, list) else int(x)   # noqa: E731
        en, efix = conv(en), [conv(efix[0]), efix[1]]
    return {
        'run_id': run_id, 'emode': 2 if indirect else 1, 'efix': efix, 'en': [en, eunit],
        'num': num, 'dt': {'float': 'float64', 'int': rng.choice(['int64', 'int32']), 'f32': 'float32'}[num],
        'en_transposed': bool(indirect and per_detector_en and rng.random() < 0.5),
        'psi': _angle(rng, num), 'omega': _angle(rng, num), 'dpsi': _angle(rng, num), 'gl': _angle(rng, num),
        'gs': _angle(rng, num),
        'u': [rng.choice([1.0, 0.0, rng.uniform(-2, 2)]) for _ in range(3)],
        'v': [rng.choice([1.0, 0.0, rng.uniform(-2, 2)]) for _ in range(3)],
        'filename': rand_string(rng, rand_len(rng, 120)), 'filepath': rand_string(rng, rand_len(rng, 200)),
    }


def rand_sample(rng):
    lu = rng.choice(['angstrom', 'angstrom', 'nm', 'pm'])
    au = rng.choice(['deg', 'deg', 'rad'])
    sp = [rng.choice([2.0, 2.86, rng.uniform(1, 30)]) for _ in range(3)]
    if lu == 'nm':
        sp = [x / 8 for x in sp]
    if lu == 'pm':
        sp = [x * 128 for x in sp]
    ang = [rng.choice([90.0, 60.0, 120.0, rng.uniform(30, 150)]) for _ in range(3)]
    if au == 'rad':
        ang = [rng.uniform(0.5, 2.6) for _ in range(3)]
    return {'name': rand_string(rng, rand_len(rng, 80)), 'alatt': [sp, lu], 'angdeg': [ang, au]}


def rand_instrument(rng):
    return {'name': rand_string(rng, rand_len(rng, 80)), 'source_name': rand_string(rng, rand_len(rng, 60)),
            'target_name': rand_string(rng, rand_len(rng, 60)),
            'frequency': [rng.choice([0.0, 14.0, 13.4, rng.uniform(0, 100)]), rng.choice(['Hz', 'MHz'])]}


def rand_dnd(rng, shape=None, num: str | None = None):
    """Histogram metadata.  `num`: numeric class of the scales / ranges / offsets handed over
    ('float' float64, 'int' integer-typed in any convertible unit, 'f32' float32 in the file's units)."""
    if shape is None:
        shape = [rng.choice([1, 1, 2, 3, rng.randrange(1, 9)]) for _ in range(4)]
    num = num or rng.choice(NUM_CLASSES)
    il = list(INV_LENGTH)

    def four(fn):
        return [fn(i) for i in range(4)]

    def qunit(i):
        if num == 'f32':
            return '1/angstrom' if i < 3 else 'meV'
        return rng.choice(il) if i < 3 else rng.choice(list(ENERGY))

    if num == 'int':
        scale = lambda: rng.randrange(1, 10)                                  # noqa: E731
        rnge = lambda: [rng.randrange(-10, 0), rng.randrange(0, 11)]          # noqa: E731
        offs = lambda: rng.randrange(-3, 4)                                   # noqa: E731
    elif num == 'f32':
        scale = lambda: _f32(rng.choice([1.0, 0.5, rng.uniform(0.01, 10)]))   # noqa: E731
        rnge = lambda: sorted([_f32(rng.uniform(-10, 0)), _f32(rng.uniform(0, 10))])   # noqa: E731
        offs = lambda: _f32(rng.choice([0.0, 0.5, rng.uniform(-3, 3)]))       # noqa: E731
    else:
        scale = lambda: rng.choice([1.0, 0.5, rng.uniform(0.01, 10), rng.uniform(1, 10) * 10.0 ** rng.randrange(-9, 9)])   # noqa: E731
        rnge = lambda: sorted([rng.uniform(-10, 0), rng.uniform(0, 10)])      # noqa: E731
        offs = lambda: rng.choice([0.0, -0.0, 0.5, rng.uniform(-3, 3), rng.uniform(-1, 1) * 10.0 ** rng.randrange(-12, 6)])   # noqa: E731

    sample = rand_sample(rng)
    return {
        'shape': list(shape),
        'num': num, 'dt': {'float': 'float64', 'int': rng.choice(['int64', 'int32']), 'f32': 'float32'}[num],
        'nbins_dt': rng.choice(['int64', 'int64', 'int32', 'float64']), 'dax_dt': rng.choice(['int64', 'int64', 'int32']),
        'axes_title': rand_string(rng, rand_len(rng, 90)),
        'label': [rand_ascii(rng, rng.choice([0, 1, 2, 5, 1 + rand_len(rng, 20)])) for _ in range(4)],
        'img_scales': four(lambda i: [scale(), qunit(i)]),
        'img_range': four(lambda i: [rnge(), qunit(i)]),
        'single_bin': [bool(rng.randrange(2)) for _ in range(4)],
        'dax': rng.sample(range(4), 4),
        'offset': four(lambda i: [offs(), qunit(i)]),
        'changes_aspect_ratio': bool(rng.randrange(2)),
        'proj_title': rand_string(rng, rand_len(rng, 90)),
        'proj_label': [rand_ascii(rng, rng.choice([0, 1, 2, 5, 1 + rand_len(rng, 20)])) for _ in range(4)],
        'proj_alatt': sample['alatt'], 'proj_angdeg': sample['angdeg'],
        'proj_offset': four(lambda i: [offs(), qunit(i)]),
        'proj_u': [[rng.choice([1.0, 0.0, rng.uniform(-2, 2)]) for _ in range(3)], rng.choice(il)],
        'proj_v': [[rng.choice([1.0, 0.0, rng.uniform(-2, 2)]) for _ in range(3)], rng.choice(il)],
        'proj_w': None if rng.random() < 0.6 else [[rng.uniform(-2, 2) for _ in range(3)], rng.choice(il)],
        'non_orthogonal': bool(rng.randrange(2)),
    }


FRACTIONAL_UNITS = ('1/nm', '1/um', 'ueV')   # factor to the row unit is not an integer


def rand_pix_recipe(rng, npix, nruns, simple: bool = False, intconv: bool = False):
    """Recipe for the 9 rows: per row a value kind, an input unit and a dtype.

    kinds: 'grid'  pairwise distinct dyadic values, exactly representable in float32
           'f64'   arbitrary finite doubles (rounding to float32 happens)
           'f32'   float32-representable values
           'wide'  doubles over the whole float32 exponent range incl. subnormal results
           'boundary'  doubles whose conversion lies on / next to a midpoint between two float32 values
                       (exact ties for same-unit rows: round-half-even; guard band otherwise)
           'int'   small integers (index rows)"""
    seed = rng.randrange(2**31)
    units, kinds, dtypes = [], [], []
    for r in range(9):
        if r in (4, 5, 6):
            units.append(None)
            kinds.append('int')
            dtypes.append(rng.choice(['int64', 'int64', 'float64', 'int32', 'float32']))
            continue
        if simple:
            kinds.append('grid')
            dtypes.append('float64')
        else:
            kinds.append(rng.choice(['grid', 'f64', 'f64', 'f32', 'wide', 'boundary']))
            dtypes.append('float64')
        if r < 3:
            units.append('1/angstrom' if simple or rng.random() < 0.5 else rng.choice(list(INV_LENGTH)))
        elif r == 3:
            units.append('meV' if simple or rng.random() < 0.5 else rng.choice(list(ENERGY)))
        elif r == 7:
            units.append('count' if simple or rng.random() < 0.6 else rng.choice(list(COUNT)))
        else:
            units.append(None)  # 'error' = variances of the signal: unit is the signal's, squared
    kinds[8] = kinds[7] if kinds[7] not in ('wide', 'boundary') else 'f64'
    if not simple and rng.random() < 0.25 and units[7] == 'count':
        dtypes[7] = dtypes[8] = 'float32'  # same unit: no conversion, float32 passes through
        kinds[7] = kinds[8] = 'f32'
    if not simple:
        # float32 momentum / energy rows in the unit of the file (no conversion: float32 passes through)
        for r in range(4):
            if units[r] == ROW_UNITS[r] and kinds[r] in ('grid', 'f32', 'f64') and rng.random() < 0.2:
                kinds[r], dtypes[r] = ('grid' if kinds[r] == 'grid' else 'f32'), 'float32'
    if intconv:
        # integer-typed momentum / energy rows given in a unit that needs conversion
        for r in rng.sample(range(4), rng.choice([1, 2])):
            kinds[r], dtypes[r] = 'intval', 'int64'
            units[r] = rng.choice(['1/nm', '1/um', '10/angstrom', '1/fm'] if r < 3 else ['ueV', 'eV'])
    return {'seed': seed, 'units': units, 'kinds': kinds, 'dtypes': dtypes}


def make_rows(recipe, npix: int, nruns: int):
    """The raw input rows (numpy, input units) of a recipe; deterministic."""
    g = np.random.default_rng(recipe['seed'])
    rows = []
    idx = np.arange(npix, dtype=np.float64)
    for r in range(9):
        k = recipe['kinds'][r]
        if k == 'int':
            if r == 4:
                v = g.integers(0, max(nruns, 1), npix)
            else:
                v = g.integers(0, 2000 if r == 5 else 60, npix)
            rows.append(v.astype(recipe['dtypes'][r]))
            continue
        if k == 'intval':
            rows.append(g.integers(-5000, 5000, npix).astype(recipe['dtypes'][r]))
            continue
        if k == 'grid':
            # (9 p + r + 1) / 8 : < 2^24 for p <= 1e5  => exact in float32, all distinct
            v = (idx * 9 + r + 1) / 8.0
        elif k == 'f64':
            v = g.standard_normal(npix) * 10.0 ** g.integers(-3, 4, npix)
        elif k == 'f32':
            v = (g.standard_normal(npix) * 10.0 ** g.integers(-3, 4, npix)).astype(np.float32).astype(np.float64)
        elif k == 'wide':
            v = g.uniform(1, 10, npix) * 10.0 ** g.integers(-44, 36, npix) * g.choice([-1.0, 1.0], npix)
            if npix > 3:
                v[:3] = [0.0, -0.0, 1e-46]
        elif k == 'boundary':
            c = (g.standard_normal(npix) * 10.0 ** g.integers(-3, 4, npix)).astype(np.float32)
            mid = (c.astype(np.float64) + np.nextafter(c, np.float32(np.inf)).astype(np.float64)) / 2.0
            v = mid / float(row_factor(recipe, r))
            v[::3] = np.nextafter(v[::3], np.inf)      # a third one ulp(f64) above, a third below
            v[1::3] = np.nextafter(v[1::3], -np.inf)
        else:
            raise ValueError(k)
        if r in (7, 8) and k != 'wide':
            v = np.abs(v)
        if r == 8:
            v = np.abs(v)
        rows.append(v.astype(recipe['dtypes'][r]))
    return rows


def row_factor(recipe, r: int) -> Fraction:
    u = recipe['units'][r]
    if r < 3:
        return INV_LENGTH[u]
    if r == 3:
        return ENERGY[u]
    if r == 7:
        return COUNT[u]
    if r == 8:
        return COUNT[recipe['units'][7]] ** 2
    return Fraction(1)


def expected_pix(recipe, rows):
    """(exp32, alt32, amb) as 9 x N arrays from the raw rows of a recipe."""
    n = len(rows[0])
    exp = np.empty((9, n), np.float32)
    alt = np.empty((9, n), np.float32)
    amb = np.zeros((9, n), bool)
    for r in range(9):
        e, a, m = expected_f32(np.asarray(rows[r], dtype=np.float64), row_factor(recipe, r))
        exp[r], alt[r], amb[r] = e, a, m
    return exp, alt, amb


def random_config(rng, *, thorough: bool, small: bool = False, force=None, intconv: bool = False):
    """A random build configuration inside the quantifier of C12/C13."""
    k = rng.randrange(0, 6)
    calls = rng.sample(ITEMS, k)
    if rng.random() < 0.55 and 'pix' not in calls:
        calls.insert(rng.randrange(len(calls) + 1), 'pix')
    if force:
        for it in force:
            if it not in calls:
                calls.insert(rng.randrange(len(calls) + 1), it)
    if small:
        npix = rng.choice([0, 1, 2, 3, 7, 8, 9, 10, 11, 17, 18, 19, 20, 27, 28, 40, 64])
        chunk = rng.choice([1, 2, 3, 4, 5, 8, 9, 10, 11, 18, 20, 100, None])
    else:
        top = 100_000
        npix = rng.choice([rng.randrange(0, 200), rng.randrange(0, 5000), rng.randrange(0, top + 1),
                           8191, 8192, 8193, 16384, 20000, top])
        chunk = rng.choice([None, None, rng.randrange(1, 50), rng.randrange(1, 5000), rng.randrange(1, top + 1),
                            npix if npix else 1, npix + 1, max(npix - 1, 1), 9, 8192, top])
        if chunk is not None and npix // chunk > 3000:
            chunk = max(chunk, npix // 3000 + 1)   # keep the number of write calls bounded
    nruns = rng.choice([1, 1, 2, 3, 5, 20, rng.randrange(1, 21)])
    indirect = rng.random() < 0.35
    per_detector_en = indirect and rng.random() < 0.4
    where = rng.choice(['bytesio', 'bytesio', 'file_str', 'file_path'])
    cfg = {
        'calls': calls, 'npix': npix, 'nruns': nruns, 'chunk': chunk,
        'bo': rng.choice(['native', 'little', 'big']), 'where': where,
        'title': rand_string(rng, rand_len(rng, 400 if thorough else 150)),
        'fname': rand_ascii(rng, rng.choice([1, 4, 30, 120, 200, 250]), filesafe=True).lstrip('.-') or 'x',
        'subdirs': [rand_ascii(rng, rng.choice([1, 20, 200]), filesafe=True).strip('.-') or 'd'
                    for _ in range(rng.choice([0, 0, 1, 3]))],
        'n_dims': rng.choice([4, 4, 4, 0, 1, 2, 3]),
        'pix': rand_pix_recipe(rng, npix, nruns),
        'exps': _maybe_shared([rand_experiment(rng, i, indirect, per_detector_en) for i in range(nruns)], rng),
        'inst': rand_instrument(rng), 'samp': rand_sample(rng), 'dnd': rand_dnd(rng),
        # how things are handed over (none of it changes what is supplied)
        'bo_enum': rng.random() < 0.3,                     # byte order as Byteorder member instead of a string
        'pix_view': rng.choice(PIX_VIEWS),                 # the pixel table as a view into a larger / strided array
        'pix_dim': rng.choice(['obs', 'obs', 'pixel', 'event', 'row']),
        # what the target path holds before create() (bytes; real files only) and how often create() is called
        'prev': 0, 'twice': False,
    }
    if where != 'bytesio' and (small or npix <= 20000):
        r = rng.random()
        if r < 0.25:
            cfg['prev'] = rng.choice([1, 30, 36 * npix + 200_000])   # shorter / longer than the new file
        elif r < 0.35:
            cfg['twice'] = True
    if rng.random() < 0.04:
        cfg['title'] = rand_ascii(rng, rng.choice([65535, 65536, 65537, 70001]))
    if intconv and 'pix' in calls:
        # kept apart from the chunk-loop classes: everything fits into one chunk
        cfg['npix'] = npix = min(npix, 5000)
        cfg['chunk'] = rng.choice([None, npix + 1, max(npix, 1)])
        cfg['pix'] = rand_pix_recipe(rng, npix, nruns, intconv=True)
    if rng.random() < 0.3:  # run ids need not start at 0 nor be consecutive
        base = rng.randrange(0, 50)
        step = rng.choice([1, 2, 7])
        for i, e in enumerate(cfg['exps']):
            e['run_id'] = base + i * step
    if nruns > 1 and rng.random() < 0.35:   # ... nor be listed in increasing order
        ids = [e['run_id'] for e in cfg['exps']]
        ids = ids[::-1] if rng.random() < 0.4 else rng.sample(ids, len(ids))
        for e, i in zip(cfg['exps'], ids, strict=True):
            e['run_id'] = i
    return cfg


PIX_VIEWS = ('plain', 'plain', 'plain', 'slice', 'strided', 'step')


def large_config(rng, npix: int, chunk, where: str = 'file_path'):
    """The upper end of the quantifier in every tier: many pixels (beyond 2^16), several chunks."""
    cfg = random_config(rng, thorough=False, small=True, force=['pix'])
    cfg.update(npix=npix, chunk=chunk, where=where, prev=0, twice=False)
    cfg['pix'] = rand_pix_recipe(rng, npix, cfg['nruns'])
    return cfg


def large_image_config(rng, shape, where: str = 'bytesio'):
    """The upper end of the histogram sizes: an image of several hundred thousand bins (each of the three
    image arrays far above 1 MiB), followed by pixel data so that blocks after the image are located too."""
    cfg = random_config(rng, thorough=False, small=True, force=['dnd', 'pix'])
    cfg.update(where=where, prev=0, twice=False, n_dims=4)
    cfg['dnd'] = rand_dnd(rng, shape=list(shape))
    return cfg


def config_from_behaviour(rng, order, npix, shape, chunk, bo, where='bytesio', prev=0, twice=False):
    """A TLC-enumerated behaviour of SqwBuilder (call order + abstract arguments) made concrete."""
    nruns = 1 + (npix + len(order)) % 3
    return {
        'calls': list(order), 'npix': int(npix), 'nruns': nruns, 'chunk': int(chunk), 'bo': bo, 'where': where,
        'title': 'T' * ((npix * 7 + chunk) % 23), 'fname': 'f.sqw', 'subdirs': [], 'n_dims': 4,
        'prev': int(prev), 'twice': bool(twice), 'bo_enum': False, 'pix_view': 'plain', 'pix_dim': 'obs',
        'pix': rand_pix_recipe(rng, npix, nruns, simple=True),
        'exps': [rand_experiment(rng, i, False) for i in range(nruns)],
        'inst': rand_instrument(rng), 'samp': rand_sample(rng), 'dnd': rand_dnd(rng, shape=list(shape)),
    }


# ------------------------------------------------------------------------ concrete scipp objects
def _q(vu, dt: str = 'float64'):
    import scipp as sc

    v, u = vu
    if isinstance(v, list):
        return sc.array(dims=['x'], values=np.asarray(v, dtype=dt), unit=u)
    return sc.scalar(np.asarray(v, dtype=dt)[()], unit=u, dtype=dt)


def _vec(vu):
    import scipp as sc

    v, u = vu
    return sc.vector(np.asarray(v, dtype='float64'), unit=u)


def _maybe_shared(exps, rng):
    """Now and then the later runs take orientation vectors and energies from the first run (and share its objects)."""
    if len(exps) > 1 and rng.random() < 0.3:
        for e in exps[1:]:
            if e['emode'] == exps[0]['emode'] and e.get('dt', 'float64') == exps[0].get('dt', 'float64'):
                for k in ('u', 'v', 'efix', 'en'):
                    e[k] = exps[0][k]
                if 'en_transposed' in exps[0] or 'en_transposed' in e:
                    e['en_transposed'] = exps[0].get('en_transposed')
                e['share'] = True
    return exps


def make_experiment(e):
    import scipp as sc
    from scippneutron.io.sqw import EnergyMode, SqwIXExperiment

    dt = e.get('dt', 'float64')
    efv, efu = e['efix']
    efix = (sc.array(dims=['detector'], values=np.asarray(efv, dtype=dt), unit=efu)
            if isinstance(efv, list) else _q([efv, efu], dt))
    en = sc.array(dims=['energy_transfer'] if not isinstance(e['en'][0][0], list) else ['detector', 'energy_transfer'],
                  values=np.asarray(e['en'][0], dtype=dt), unit=e['en'][1])
    if en.ndim == 2 and e.get('en_transposed'):
        # the same table supplied with the dimensions in the other order (energy-major memory layout):
        # the labels, not the memory order, say which entry belongs to which detector
        en = en.transpose(['energy_transfer', 'detector']).copy()
    return SqwIXExperiment(
        run_id=e['run_id'], efix=efix, emode=EnergyMode(e['emode']), en=en,
        psi=_q(e['psi'], dt), u=sc.vector(e['u']), v=sc.vector(e['v']), omega=_q(e['omega'], dt),
        dpsi=_q(e['dpsi'], dt), gl=_q(e['gl'], dt), gs=_q(e['gs'], dt), filename=e['filename'],
        filepath=e['filepath'])


def make_experiments(exps):
    """The runs of one file.  Runs derived from a template (dataclasses.replace: what merging the runs of one
    measurement looks like) SHARE the variable objects whose values they have in common - a writer that converts
    a caller's array in place (byte order, unit) then damages every later run that holds the same object."""
    import dataclasses

    out = []
    for e in exps:
        x = make_experiment(e)
        if out and e.get('share'):
            first, fe = out[0], exps[0]
            same = {k: getattr(first, k) for k in ('u', 'v', 'efix', 'en')
                    if e[k] == fe[k] and e.get('dt', 'float64') == fe.get('dt', 'float64')
                    and bool(e.get('en_transposed')) == bool(fe.get('en_transposed'))}
            if same:
                x = dataclasses.replace(x, **same)
        out.append(x)
    return out


def make_sample(s):
    from scippneutron.io.sqw import SqwIXSample

    return SqwIXSample(name=s['name'], lattice_spacing=_vec(s['alatt']), lattice_angle=_vec(s['angdeg']))


def make_instrument(i):
    from scippneutron.io.sqw import SqwIXNullInstrument, SqwIXSource

    return SqwIXNullInstrument(name=i['name'], source=SqwIXSource(
        name=i['source_name'], target_name=i['target_name'], frequency=_q(i['frequency'])))


def make_dnd(d):
    import scipp as sc
    from scippneutron.io.sqw import SqwDndMetadata, SqwLineAxes, SqwLineProj

    dt = d.get('dt', 'float64')
    axes = SqwLineAxes(
        title=d['axes_title'], label=list(d['label']),
        img_scales=[_q(x, dt) for x in d['img_scales']],
        img_range=[sc.array(dims=['range'], values=np.asarray(v, dtype=dt), unit=u) for v, u in d['img_range']],
        n_bins_all_dims=sc.array(dims=['axis'], values=np.asarray(d['shape'], dtype=d.get('nbins_dt', 'int64')),
                                 unit=None),
        single_bin_defines_iax=sc.array(dims=['axis'], values=d['single_bin']),
        dax=sc.array(dims=['axis'], values=np.asarray(d['dax'], dtype=d.get('dax_dt', 'int64')), unit=None),
        offset=[_q(x, dt) for x in d['offset']], changes_aspect_ratio=d['changes_aspect_ratio'])
    proj = SqwLineProj(
        lattice_spacing=_vec(d['proj_alatt']), lattice_angle=_vec(d['proj_angdeg']),
        offset=[_q(x, dt) for x in d['proj_offset']], title=d['proj_title'], label=list(d['proj_label']),
        u=_vec(d['proj_u']), v=_vec(d['proj_v']), w=None if d['proj_w'] is None else _vec(d['proj_w']),
        non_orthogonal=d['non_orthogonal'], type='aaa')
    return SqwDndMetadata(axes=axes, proj=proj)


def _as_view(vals: np.ndarray, var, view: str, fill_seed: int):
    """The array `vals` (and `var`iances) embedded in a larger one, such that a scipp slice of the
    larger variable is exactly `vals`: 'slice' = rows lo..lo+n of a longer array, 'step' = every
    second element, 'strided' = one column of a 2-d array.  Returns (values, variances, slicer)
    where slicer maps the big scipp variable to the view."""
    n = len(vals)
    g = np.random.default_rng(fill_seed)

    def junk(m, like):
        j = g.integers(-9, 10, m)
        return j.astype(like.dtype)

    def embed(x):
        if x is None:
            return None
        if view == 'slice':
            return np.concatenate([junk(3, x), x, junk(5, x)])
        if view == 'step':
            out = junk(2 * n + 1, x)
            out[0:2 * n:2] = x
            return out
        out = np.stack([junk(n, x), x, junk(n, x)], axis=1)      # 'strided': column 1 of an (n, 3) array
        return np.ascontiguousarray(out)

    return embed(vals), embed(var)


def make_pixels(cfg, rows):
    """The pixel table as a DataArray.  With cfg['pix_view'] != 'plain' every row is a VIEW into a
    larger / strided buffer (a slice of a longer table, every second entry, a column of a 2-d
    array) - the DataArray handed to the builder has exactly the N pixels of `rows` either way."""
    import scipp as sc

    rec = cfg['pix']
    view = cfg.get('pix_view', 'plain')
    dim = cfg.get('pix_dim', 'obs')
    sig_unit = rec['units'][7]
    if view == 'plain' or len(rows[0]) == 0 and view == 'step':
        data = sc.array(dims=[dim], values=rows[7], variances=rows[8], unit=sig_unit)
        coords = {ROW_NAMES[r]: sc.array(dims=[dim], values=rows[r], unit=rec['units'][r]) for r in range(7)}
        return sc.DataArray(data, coords=coords)
    n = len(rows[0])

    def big(vals, var, unit, seed):
        bv, bvar = _as_view(np.asarray(vals), None if var is None else np.asarray(var), view, seed)
        dims = [dim, 'k'] if view == 'strided' else [dim]
        kw = {} if bvar is None else {'variances': bvar}
        return sc.array(dims=dims, values=bv, unit=unit, **kw)

    def cut(v):
        if view == 'slice':
            return v[dim, 3:3 + n]
        if view == 'step':
            return v[dim, 0:2 * n:2]
        return v['k', 1]

    data = cut(big(rows[7], rows[8], sig_unit, rec['seed'] + 7))
    coords = {ROW_NAMES[r]: cut(big(rows[r], None, rec['units'][r], rec['seed'] + r)) for r in range(7)}
    return sc.DataArray(data, coords=coords)


# --------------------------------------------------------------------------------- run the build
class Built:
    def __init__(self, cfg):
        self.cfg = cfg
        self.error = None        # exception of the builder, if any
        self.data = b''
        self.log = None
        self.path = None
        self.stored_name = ''    # what the file should call itself (full_filename)
        self.rows = None
        self.objs = None         # the parameter objects handed to the builder
        self.bo = NATIVE if cfg['bo'] == 'native' else cfg['bo']


def build_file(cfg, tmp: Path, tag: str, objs: dict | None = None) -> Built:
    """Perform the configuration on the real builder.  Any exception is recorded, not raised.

    `objs`: the parameter objects (pixel DataArray, experiment list, instrument, sample, histogram
    metadata) of an earlier build with the same content; they are handed to the builder AGAIN instead
    of fresh ones (the caller keeps and reuses his objects).  cfg['prev'] > 0: the target path holds
    that many bytes of an unrelated earlier file before the builder is created.  cfg['twice']:
    create() is called twice on the builder and the file of the second call is examined."""
    from scippneutron.io.sqw import Sqw
    from scippneutron.io.sqw._bytes import Byteorder

    b = Built(cfg)
    rows = make_rows(cfg['pix'], cfg['npix'], cfg['nruns']) if 'pix' in cfg['calls'] else None
    b.rows = rows
    objs = {} if objs is None else objs
    b.objs = objs

    def obj(kind, make):
        if kind not in objs:
            objs[kind] = make()
        return objs[kind]

    try:
        if cfg['where'] == 'bytesio':
            target = RecordingBytesIO()
            b.stored_name = 'in_memory'
            b.filepath, b.filename = '', ''
        else:
            d = tmp / tag
            for s in cfg['subdirs']:
                d = d / s
            d.mkdir(parents=True, exist_ok=True)
            p = d / cfg['fname']
            b.path = p
            if cfg.get('prev'):
                p.write_bytes(b'\xa5' * int(cfg['prev']))
            target = os.fspath(p) if cfg['where'] == 'file_str' else p
            b.stored_name = os.fspath(p)
            b.filepath, b.filename = os.fspath(p.parent), p.name
        bo = Byteorder.parse(cfg['bo']) if cfg.get('bo_enum') and cfg['bo'] != 'native' else cfg['bo']
        builder = Sqw.build(target, title=cfg['title'], byteorder=bo)
        for it in cfg['calls']:
            if it == 'pix':
                r = builder.add_pixel_data(obj('pix', lambda: make_pixels(cfg, rows)),
                                           experiments=obj('exps', lambda: make_experiments(cfg['exps'])),
                                           n_dims=cfg['n_dims'])
            elif it == 'det':
                r = builder.add_empty_detector_params()
            elif it == 'dnd':
                r = builder.add_empty_dnd_data(obj('dnd', lambda: make_dnd(cfg['dnd'])))
            elif it == 'inst':
                r = builder.add_default_instrument(obj('inst', lambda: make_instrument(cfg['inst'])))
            elif it == 'samp':
                r = builder.add_default_sample(obj('samp', lambda: make_sample(cfg['samp'])))
            else:
                raise ValueError(it)
            builder = r if r is not None else builder
        for _ in range(2 if cfg.get('twice') and cfg['where'] != 'bytesio' else 1):
            if cfg['chunk'] is None:
                builder.create()
            else:
                builder.create(chunk_size=cfg['chunk'])
        if cfg['where'] == 'bytesio':
            b.data = target.getvalue()
            b.log = list(target.log)
        else:
            b.data = b.path.read_bytes()
    except Exception as ex:  # noqa: BLE001
        b.error = ex
    return b


def hostile_first_build(tmp: Path):
    """History before anything is judged: one file is written from single-precision and integer
    rows in units that need conversion, as strided views, big-endian, to a real path, and read back.
    Nothing about it is judged and every exception is ignored - a correct library answers later
    calls the same whatever was written first."""
    import random as _random

    rng = _random.Random(4711)
    try:
        cfg = random_config(rng, thorough=False, small=True, force=list(ITEMS))
        cfg.update(npix=13, chunk=4, bo='big', where='file_path', pix_view='strided', prev=0, twice=True)
        rec = rand_pix_recipe(rng, 13, cfg['nruns'])
        rec['kinds'] = ['f32', 'intval', 'f32', 'f32', 'int', 'int', 'int', 'f32', 'f32']
        rec['dtypes'] = ['float32', 'int32', 'float32', 'float32', 'float32', 'int32', 'int64', 'float32', 'float32']
        rec['units'] = ['1/nm', '1/um', '10/angstrom', 'ueV', None, None, None, 'kcount', None]
        cfg['pix'] = rec
        cfg['exps'] = [rand_experiment(rng, i, True, True, num='f32') for i in range(cfg['nruns'])]
        for e in cfg['exps']:                          # single precision in units that need conversion
            e['efix'][1], e['en'][1] = 'eV', 'ueV'
            for k in ('psi', 'omega', 'dpsi', 'gl', 'gs'):
                e[k][1] = 'deg'
        b = build_file(cfg, tmp, 'hostile')
        if b.error is None:
            dec = D.decode_file(b.data)
            # read back only what is a well-formed container (a reader let loose on a damaged table may not return)
            sane = not dec.error and all(blk.get('ok') and blk.get('consumed') == e.size
                                         for e, blk in zip(dec.entries, dec.blocks.values(), strict=True))
            open_package(b, read_blocks=sane)
        cleanup(b)
    except Exception:  # noqa: BLE001
        pass


class ReaderTimeout(Exception):
    """Sqw.open / read_data_block did not return within the time allowed."""


_TIMEOUTS = [0]


def _limited(fn, seconds: float = 20.0):
    """fn() under a wall-clock limit (SIGALRM; the drivers run in the main thread).  A reader that is
    handed a damaged table may loop over billions of phantom elements - that has to become a verdict
    about the file ('block not readable'), not a check that never ends.  Reads of intact files take
    milliseconds; once three reads have run into the limit the remaining ones get 1.5 s each."""
    import signal
    import threading

    if threading.current_thread() is not threading.main_thread():
        return fn()
    if _TIMEOUTS[0] >= 3:
        seconds = min(seconds, 1.5)

    def on_alarm(signum, frame):
        _TIMEOUTS[0] += 1
        raise ReaderTimeout(f'no result within {seconds} s')

    old = signal.signal(signal.SIGALRM, on_alarm)
    signal.setitimer(signal.ITIMER_REAL, seconds)
    try:
        return fn()
    finally:
        signal.setitimer(signal.ITIMER_REAL, 0)
        signal.signal(signal.SIGALRM, old)


def open_package(b: Built, read_blocks: bool = True):
    """What Sqw.open reports + Sqw.read_data_block for every block (each wrapped).

    Every block is read twice from the same open file: first in REVERSED table order with the
    two-argument form read_data_block(name, level2_name) -> out['blocks'], then in table order with
    the tuple form read_data_block((name, level2_name)) -> out['blocks2'].  What a block reads as may
    depend neither on what was read before it nor on how often it is asked for."""
    from scippneutron.io.sqw import Sqw

    out = {'out': 'ok', 'bo': '', 'name': '', 'v4': False, 'type': -1, 'ndims': -1, 'names': [], 'blocks': {},
           'errors': {}, 'blocks2': {}, 'errors2': {}}
    try:
        src = (io.BytesIO(b.data) if b.path is None
               else os.fspath(b.path) if b.cfg.get('where') == 'file_str' else b.path)
        with Sqw.open(src) as sqw:
            out['bo'] = sqw.byteorder.value
            fh = sqw.file_header
            out['name'] = str(fh.prog_name)
            out['v4'] = bool(fh.prog_version == 4.0)
            out['type'] = int(fh.sqw_type.value)
            out['ndims'] = int(fh.n_dims)
            names = [tuple(n) for n in sqw.data_block_names()]
            out['names'] = [list(n) for n in names]
            for n in reversed(names) if read_blocks else ():
                try:
                    out['blocks'][n] = _limited(lambda n=n: sqw.read_data_block(n[0], n[1]))
                except Exception as ex:  # noqa: BLE001
                    out['errors'][n] = ex
            for n in names if read_blocks else ():
                if isinstance(out['errors'].get(n), ReaderTimeout):
                    out['errors2'][n] = out['errors'][n]          # it would not return this time either
                    continue
                try:
                    out['blocks2'][n] = _limited(lambda n=n: sqw.read_data_block(n))
                except Exception as ex:  # noqa: BLE001
                    out['errors2'][n] = ex
    except Exception as ex:  # noqa: BLE001
        out['out'] = 'raised'
        out['exc'] = repr(ex)
    return out


# ---------------------------------------------------------------------------------- C12 event
def energy_class(cfg) -> str:
    if 'pix' in cfg['calls'] and any(isinstance(e['en'][0][0], list) for e in cfg['exps']):
        return 'indirect mode with per-detector energy transfer'
    return ''


def num_class(cfg, kind: str) -> str:
    """Stable class of a configuration w.r.t. the dtype of the metadata handed over ('' = all float64)."""
    if kind == 'exp':
        nums = {e.get('num', 'float') for e in cfg['exps']} if 'pix' in cfg['calls'] else set()
    else:
        nums = {cfg['dnd'].get('num', 'float')}
    if 'int' in nums:
        return 'integer-typed metadata'
    if 'f32' in nums:
        return 'float32 metadata'
    return ''


def dtype_class(cfg) -> str:
    """Stable class of a configuration w.r.t. integer-typed rows that need a unit conversion."""
    if 'pix' not in cfg['calls']:
        return ''
    rec = cfg['pix']
    conv = [r for r in range(4) if rec['dtypes'][r].startswith('int') and row_factor(rec, r) != 1]
    if not conv:
        return ''
    frac = any(row_factor(rec, r).denominator != 1 for r in conv)
    return ('integer-typed row with fractional unit factor' if frac else 'integer-typed row with integral unit factor')


def input_class(cfg) -> str:
    """Stable class of a configuration w.r.t. the pixel chunk loop (the quantifier of C12 names
    chunk sizes smaller / equal / larger than the pixel count and than the row count)."""
    if 'pix' not in cfg['calls']:
        return 'no pixel data'
    n, c = cfg['npix'], cfg['chunk'] or 8192
    need = -(-n // c)
    rows = -(-9 // c)
    return ('pixel chunks needed <= ceil(9/chunk)' if need <= rows else 'pixel chunks needed > ceil(9/chunk)')


def layout_event(b: Built, dec: D.Decoded, op: dict, tid: int, gid: int):
    cfg = b.cfg
    ev = {'tid': tid, 'gid': gid, 'calls': list(cfg['calls']), 'npix': cfg['npix'] if 'pix' in cfg['calls'] else 0,
          'shape': list(cfg['dnd']['shape']) if 'dnd' in cfg['calls'] else [],
          'chunk': cfg['chunk'] or 8192, 'bo': b.bo, 'where': cfg['where'], 'out': 'ok' if b.error is None else 'raised',
          'flen': len(b.data), 'prev': int(cfg.get('prev') or 0) if b.path is not None else 0,
          'gen': 2 if cfg.get('twice') and b.path is not None else 1}
    hdrok = bool(dec.byteorder_candidates) and dec.header_len > 0 and len(dec.byteorder_candidates) == 1
    ev['hdrok'] = hdrok
    ev['dec_bo'] = dec.byteorder if len(dec.byteorder_candidates) == 1 else 'ambiguous'
    ev['hdr'] = {'name': dec.prog_name, 'v4': bool(dec.prog_version == 4.0), 'type': dec.sqw_type,
                 'ndims': dec.n_dims, 'len': dec.header_len}
    ev['batok'] = hdrok and not dec.error
    ev['batsize'], ev['batbegin'], ev['batend'] = dec.bat_size_field, dec.bat_begin, dec.bat_end
    ev['bat'] = [{'type': e.block_type, 'n1': e.name[0], 'n2': e.name[1], 'pos': e.position, 'size': e.size,
                  'locked': e.locked} for e in dec.entries]
    decl = []
    for i, _e in enumerate(dec.entries):
        blk = dec.blocks.get(i, {})
        decl.append({'ok': bool(blk.get('ok')), 'consumed': int(blk.get('consumed', -1)),
                     'sn': blk.get('serial_name', ''), 'nrows': int(blk.get('n_rows', -1)),
                     'npix': int(blk.get('n_pixels', -1)), 'shape': [int(s) for s in blk.get('shape', ())],
                     'err': blk.get('error', '')[:80]})
    ev['dec'] = decl
    ev['open'] = {k: op[k] for k in ('out', 'bo', 'name', 'v4', 'type', 'ndims', 'names')}
    if b.log is not None:
        rl, trunc = rle_log(b.log)
        ev['haslog'] = not trunc
        ev['log'] = rl if not trunc else []
    else:
        ev['haslog'] = False
        ev['log'] = []
    # TLC integers are 32 bit: the files are < 2^31 bytes, so any larger number found in the table is
    # wrong anyway; it is clamped (and still fails the tiling clauses)
    lim = 2**31 - 2
    ev['fits32'] = len(b.data) < lim
    for e in ev['bat']:
        for k in ('pos', 'size', 'locked'):
            if not 0 <= e[k] <= lim // 2:
                e[k] = lim // 2
    for d in ev['dec']:
        for k in ('consumed', 'nrows', 'npix'):
            if not -1 <= d[k] <= lim:
                d[k] = lim
        d['shape'] = [min(x, lim) for x in d['shape']]
    for k in ('batsize', 'batbegin', 'batend'):
        if not -1 <= ev[k] <= lim:
            ev[k] = lim
    for k in ('type', 'ndims'):
        if not -1 <= ev['hdr'][k] <= lim:
            ev['hdr'][k] = lim
        if not -1 <= ev['open'][k] <= lim:
            ev['open'][k] = lim
    return ev


# ---------------------------------------------------------------------------------- C13 events
DIM_REFS = (('length', 'm'), ('inverse_length', '1/m'), ('energy', 'J'), ('angle', 'rad'), ('count', 'count'),
            ('count_squared', 'count**2'), ('dimensionless', 'dimensionless'), ('frequency', 'Hz'))


def dim_of_unit(unit) -> str:
    """Physical dimension of the unit a returned scipp variable is labelled with ('none' = no unit)."""
    import scipp as sc

    if unit is None:
        return 'none'
    for name, ref in DIM_REFS:
        try:
            sc.scalar(1.0, unit=unit).to(unit=ref)
            return name
        except Exception:  # noqa: BLE001
            continue
    return 'other:' + str(unit)


def dim_of(var) -> str:
    try:
        return dim_of_unit(var.unit)
    except Exception:  # noqa: BLE001
        return 'not_a_variable'


def id_runs(got: np.ndarray, exp: np.ndarray, alt: np.ndarray, amb: np.ndarray, cap: int = 40):
    """Map a decoded pixel table (9 x M, float32) back to value-ids and run-length encode them.

    Position k = 9 p + r (0-based, file order = pixel-major) carries id k+1.  A decoded value gets
    the id of its own position if it is bit-identical to the once-rounded expected value there (or
    to the accepted neighbour inside the guard band); otherwise the id of the first position in
    the same row holding that bit pattern, or 0.  Returns (runs [[first_id, length], ...] of
    consecutive ids, number of guard-band acceptances, total ids)."""
    nrows, m = got.shape
    n = exp.shape[1]
    mm = min(m, n)
    gb = np.ascontiguousarray(got[:, :mm]).view(np.uint32)
    eb = np.ascontiguousarray(exp[:, :mm]).view(np.uint32)
    ab = np.ascontiguousarray(alt[:, :mm]).view(np.uint32)
    same = gb == eb
    viaalt = (~same) & amb[:, :mm] & (gb == ab)
    okm = same | viaalt
    ids = np.zeros((nrows, m), dtype=np.int64)
    pos = (np.arange(mm)[None, :] * 9 + np.arange(nrows)[:, None] + 1)
    ids[:, :mm] = np.where(okm, pos, 0)
    bad = np.argwhere(ids[:, :mm] == 0)
    if len(bad) and n:
        lookup = [None] * nrows
        for r, p in bad[:2000]:
            if lookup[r] is None:
                d = {}
                ebr = np.ascontiguousarray(exp[r]).view(np.uint32)
                for q in range(n - 1, -1, -1):
                    d[int(ebr[q])] = q
                lookup[r] = d
            q = lookup[r].get(int(gb[r, p]))
            if q is not None:
                ids[r, p] = q * 9 + r + 1
    flat = ids.T.reshape(-1)  # pixel-major
    runs = []
    if flat.size:
        brk = np.flatnonzero(np.diff(flat) != 1) + 1
        starts = np.concatenate([[0], brk])
        ends = np.concatenate([brk, [flat.size]])
        for s, e in zip(starts[:cap], ends[:cap], strict=True):
            runs.append([int(flat[s]), int(e - s)])
        if len(starts) > cap:
            runs.append([-1, int(flat.size - ends[cap - 1])])  # remainder, not a run of ids
    ids_small = [int(x) for x in flat] if flat.size <= 9 * 16 and len(runs) <= cap else None
    return runs, int(viaalt.sum()), int(flat.size), ids_small


def _eqstr(a, b) -> bool:
    return isinstance(a, str) and a == b


def _num_ok(found, raw, factor: Fraction) -> bool:
    """found (float) is the f64 nearest to raw*factor (exactly if factor = 1, else <= 4 ulp)."""
    try:
        found = float(found)
    except Exception:  # noqa: BLE001
        return False
    exact = Fraction(float(raw)) * factor
    if factor == 1:
        return found == float(raw) and (found != 0 or math.copysign(1, found) == math.copysign(1, float(raw)))
    return f64_close(found, exact, 4)


def _angle_ok(found, vu) -> bool:
    v, u = vu
    try:
        found = float(found)
    except Exception:  # noqa: BLE001
        return False
    if u == 'rad':
        return found == float(v)
    return f64_close(found, deg2rad_exact(float(v)), 4)


def _angdeg_ok(found, v, u) -> bool:
    if u == 'deg':
        return float(found) == float(v)
    return f64_close(float(found), mpmath.mpf(float(v)) * 180 / mpmath.pi, 4)


def _all(xs) -> bool:
    return all(bool(x) for x in xs)


def _arr(x):
    return np.asarray(x, dtype=np.float64).reshape(-1, order='F')


def _exp_flags(get, e, base_deg: bool = False):
    """Numeric/strings flags of one experiment record; `get(name)` returns the found value."""
    fl = {}
    efv, efu = e['efix']
    ef = _arr(get('efix'))
    efl = efv if isinstance(efv, list) else [efv]
    fl['efix_ok'] = len(ef) == len(efl) and _all(_num_ok(a, b, ENERGY[efu]) for a, b in zip(ef, efl, strict=True))
    en = np.asarray(get('en'), dtype=np.float64)          # detector-major: (n_det, n_en) or (n_en,) / (1, n_en)
    want = np.asarray(e['en'][0], dtype=np.float64)
    if want.ndim == 1:
        en = en.reshape(-1) if en.size == want.size and (en.ndim == 1 or 1 in en.shape) else en
    fl['en_ok'] = en.shape == want.shape and _all(
        _num_ok(a, b, ENERGY[e['en'][1]]) for a, b in zip(en.reshape(-1), want.reshape(-1), strict=True))
    fl['ang_ok'] = _all(_angle_ok(get(k), e[k]) for k in ('psi', 'omega', 'dpsi', 'gl', 'gs'))
    fl['uv_ok'] = _all(len(_arr(get(k))) == 3 and _all(a == b for a, b in zip(_arr(get(k)), e[k], strict=True))
                       for k in ('u', 'v'))
    fl['str_ok'] = _eqstr(get('filename'), e['filename']) and _eqstr(get('filepath'), e['filepath'])
    return fl


def _int_or(x, bad=-999):
    try:
        xf = float(x)
        return int(xf) if xf == int(xf) and abs(xf) < 2**31 else bad
    except Exception:  # noqa: BLE001
        return bad


def content_events(b: Built, dec: D.Decoded, op: dict, tid: int):
    """Events of one file: every block as the independent decoder sees it ('dec') and as
    Sqw.read_data_block returned it on its first and on its second read ('pkg', rpass 1 / 2; the
    second-read event directly follows the first-read event of the same block)."""
    first = _content_events(b, dec, op, tid, op['blocks'], op['errors'])
    second = [e for e in _content_events(b, dec, op, tid, op.get('blocks2', {}), op.get('errors2', {}))
              if e['src'] == 'pkg']
    out, k = [], 0
    for e in first:
        e['rpass'] = 1
        out.append(e)
        if e['src'] == 'pkg':
            if k < len(second):
                second[k]['rpass'] = 2
                out.append(second[k])
            k += 1
    return out


def _content_events(b: Built, dec: D.Decoded, op: dict, tid: int, pk: dict, pkerr: dict):
    """One event per block and per decoder ('dec' = independent decoder, 'pkg' = Sqw.read_data_block).

    Numbers are compared here (exact rationals / mpmath / once-rounded float32) and reach TLC as
    ids, integer fields and booleans; strings as equality flags."""
    cfg = b.cfg
    calls = cfg['calls']
    haspix = 'pix' in calls
    nruns = cfg['nruns'] if haspix else 0
    evs = []
    byname = {e.name: dec.blocks[i] for i, e in enumerate(dec.entries)}

    infile = b.path is not None   # names the file gives itself are judged for real files only

    def ev(kind, src, **kw):
        d = {'ev': kind, 'src': src, 'tid': tid, 'avail': True}
        d.update(kw)
        evs.append(d)
        return d

    def unavailable(kind, src, why):
        evs.append({'ev': kind, 'src': src, 'tid': tid, 'avail': False, 'why': str(why)[:200]})

    def guarded(kind, src, fn):
        try:
            fn()
        except Exception as ex:  # noqa: BLE001  (decoded tree not of the documented form)
            unavailable(kind, src, f'{type(ex).__name__}: {ex}')

    # ---- main header ------------------------------------------------------------------------
    name = ('', 'main_header')

    def main_dec():
        st = byname[name]['node'].struct()
        ev('main', 'dec', nfiles=_int_or(D.field_num(st, 'nfiles')), nruns=nruns,
           title_ok=_eqstr(D.field_str(st, 'title'), cfg['title']),
           fn_ok=not infile or _eqstr(D.field_str(st, 'full_filename'), b.stored_name),
           ndims=dec.n_dims, ndims_supplied=cfg['n_dims'] if haspix else 0)

    def main_pkg():
        m = pk[name]
        ev('main', 'pkg', nfiles=_int_or(m.nfiles), nruns=nruns, title_ok=_eqstr(m.title, cfg['title']),
           fn_ok=not infile or _eqstr(m.full_filename, b.stored_name), ndims=op['ndims'],
           ndims_supplied=cfg['n_dims'] if haspix else 0)

    if name in byname and byname[name].get('ok'):
        guarded('main', 'dec', main_dec)
    else:
        unavailable('main', 'dec', byname.get(name, {}).get('error', 'missing'))
    if name in pk:
        guarded('main', 'pkg', main_pkg)
    else:
        unavailable('main', 'pkg', pkerr.get(name, 'missing'))

    # ---- pixels ------------------------------------------------------------------------------
    if haspix:
        exp, alt, amb = expected_pix(cfg['pix'], b.rows)
        n = cfg['npix']
        name = ('pix', 'data_wrap')
        blk = byname.get(name)
        lim = 2**31 - 2
        if blk is not None and (blk.get('ok') or 'pix_partial' in blk) and int(blk['n_rows']) != 9:
            # a table that does not have the nine rows cannot be mapped to value-ids at all
            ev('pix', 'dec', n=n, nrows=min(int(blk['n_rows']), lim), npix=min(int(blk['n_pixels']), lim), runs=[],
               namb=0, total=0, hasids=False, ids=[], present=0)
        elif blk is not None and blk.get('ok'):
            runs, namb, total, ids = id_runs(blk['pix'], exp, alt, amb)
            ev('pix', 'dec', n=n, nrows=int(blk['n_rows']), npix=min(int(blk['n_pixels']), lim), runs=runs, namb=namb,
               total=total, hasids=ids is not None, ids=ids or [], present=int(blk['pix'].shape[1]))
        elif blk is not None and 'pix_partial' in blk:
            # the block is shorter than declared: judge the pixels that are present
            runs, namb, total, ids = id_runs(blk['pix_partial'], exp, alt, amb)
            ev('pix', 'dec', n=n, nrows=int(blk['n_rows']), npix=min(int(blk['n_pixels']), lim), runs=runs,
               namb=namb, total=total, hasids=ids is not None, ids=ids or [],
               present=int(blk['pix_partial'].shape[1]))
        else:
            why = 'missing' if blk is None else blk.get('error', '')
            d = {'ev': 'pix', 'src': 'dec', 'tid': tid, 'avail': False, 'why': why[:200], 'n': n}
            if blk is not None and 'n_pixels' in blk:
                d['npix'] = int(blk['n_pixels'])
            evs.append(d)
        if name in pk:
            def pix_pkg():
                arr = np.asarray(pk[name])
                if arr.ndim != 2 or arr.shape[1] != 9:
                    raise ValueError(f'pixel array of shape {arr.shape}')
                if not (arr.dtype.kind == 'f' and arr.dtype.itemsize == 4):   # any byte order
                    raise ValueError(f'pixel array of dtype {arr.dtype}')
                got = np.ascontiguousarray(arr.T.astype(np.float32))
                runs, namb, total, ids = id_runs(got, exp, alt, amb)
                ev('pix', 'pkg', n=n, nrows=int(arr.shape[1]), npix=int(arr.shape[0]), runs=runs, namb=namb,
                   total=total, hasids=ids is not None, ids=ids or [], present=int(arr.shape[0]))
            guarded('pix', 'pkg', pix_pkg)
        else:
            unavailable('pix', 'pkg', pkerr.get(name, 'missing'))
            evs[-1]['n'] = n

        # ---- pixel metadata ------------------------------------------------------------------
        name = ('pix', 'metadata')
        rec = cfg['pix']
        raws = [np.asarray(r, dtype=np.float64) for r in b.rows]

        def meta_common(src, npix_field, rng_arr, fn):
            d = ev('pixmeta', src, n=n, npix=_int_or(npix_field), fn_ok=not infile or _eqstr(fn, b.stored_name),
                   shape_ok=tuple(rng_arr.shape) == (2, 9))
            if n == 0 or not d['shape_ok']:
                d.update(minrank=[], maxrank=[], hi=[], ranks=[])
                return
            minrank, maxrank, hi, ranks = [], [], [], []
            for r in range(9):
                f = row_factor(rec, r)
                uniq, inv = np.unique(raws[r], return_inverse=True)   # -0.0 == 0.0 share a rank
                hi.append(len(uniq))
                res = []
                for found, pick in ((rng_arr[0, r], 0), (rng_arr[1, r], len(uniq) - 1)):
                    # rank (1-based) of the pixel value the stored number is the conversion of; 0 = none
                    rk = 0
                    if _num_ok(found, uniq[pick], f) or (f == 1 and float(found) == float(uniq[pick])):
                        rk = pick + 1
                    else:
                        for j in range(len(uniq)):
                            if _num_ok(found, uniq[j], f):
                                rk = j + 1
                                break
                    res.append(rk)
                minrank.append(res[0])
                maxrank.append(res[1])
                if n <= 24:
                    ranks.append([int(x) + 1 for x in inv])
            d.update(minrank=minrank, maxrank=maxrank, hi=hi, ranks=ranks)

        def meta_dec():
            st = byname[name]['node'].struct()
            meta_common('dec', D.field_num(st, 'npix'), np.asarray(st['data_range'].value),
                        D.field_str(st, 'full_filename'))

        def meta_pkg():
            m = pk[name]
            meta_common('pkg', m.npix, np.asarray(m.data_range).T, m.full_filename)

        if name in byname and byname[name].get('ok'):
            guarded('pixmeta', 'dec', meta_dec)
        else:
            unavailable('pixmeta', 'dec', byname.get(name, {}).get('error', 'missing'))
        if name in pk:
            guarded('pixmeta', 'pkg', meta_pkg)
        else:
            unavailable('pixmeta', 'pkg', pkerr.get(name, 'missing'))

        # ---- experiments ---------------------------------------------------------------------
        name = ('experiment_info', 'expdata')
        supplied = [e['run_id'] for e in cfg['exps']]

        def exp_dec():
            node = byname[name]['node']
            top = node.struct()
            arr = top['array_dat']
            sts = arr.value if arr.ty == 'struct' else []
            flags = {'efix_ok': True, 'en_ok': True, 'ang_ok': True, 'uv_ok': True, 'str_ok': True}
            found, emodes, isdeg = [], [], []
            for st, e in zip(sts, cfg['exps'], strict=False):
                def get(k, st=st):
                    nd = st[k]
                    if nd.ty == 'char':
                        return nd.value
                    if k in ('psi', 'omega', 'dpsi', 'gl', 'gs'):
                        return nd.scalar()
                    if k == 'en':
                        return np.asarray(nd.value).T      # file: (n_en, n_det) column-major
                    return nd.value
                fl = _exp_flags(get, e)
                for k in flags:
                    flags[k] = flags[k] and fl[k]
                found.append(_int_or(D.field_num(st, 'run_id')))
                emodes.append(_int_or(D.field_num(st, 'emode')))
                isdeg.append(bool(np.asarray(st['angular_is_degree'].value).reshape(-1)[0]))
            ev('exp', 'dec', nruns=nruns, count=len(sts), supplied=supplied, found=found, base=1,
               emode=emodes, emode_supplied=[e['emode'] for e in cfg['exps']], angles_in_degree=any(isdeg),
               serial_ok=_eqstr(D.field_str(top, 'serial_name'), 'IX_experiment'), dims={}, **flags)

        def exp_pkg():
            lst = pk[name]
            flags = {'efix_ok': True, 'en_ok': True, 'ang_ok': True, 'uv_ok': True, 'str_ok': True}
            found, emodes, dims = [], [], {}
            for x, e in zip(lst, cfg['exps'], strict=False):
                def get(k, x=x):
                    v = getattr(x, k)
                    if k in ('filename', 'filepath'):
                        return v
                    if k in ('psi', 'omega', 'dpsi', 'gl', 'gs'):
                        # the reader may label angles deg or rad: compare in rad
                        return v.value if str(v.unit) == 'rad' else float('nan')
                    return v.values
                fl = _exp_flags(get, e)
                for k in flags:
                    flags[k] = flags[k] and fl[k]
                found.append(_int_or(x.run_id))
                emodes.append(_int_or(x.emode.value))
                for k, fld in (('efix', 'efix'), ('en', 'en'), ('psi', 'psi'), ('omega', 'omega'), ('dpsi', 'dpsi'),
                               ('gl', 'gl'), ('gs', 'gs'), ('u', 'exp_u'), ('v', 'exp_v')):
                    dm = dim_of(getattr(x, k))
                    if dims.get(fld, dm) != dm:
                        dm = 'inconsistent'
                    dims[fld] = dm
            ev('exp', 'pkg', nruns=nruns, count=len(lst), supplied=supplied, found=found, base=0,
               emode=emodes, emode_supplied=[e['emode'] for e in cfg['exps']], angles_in_degree=False,
               serial_ok=True, dims=dims, **flags)

        if name in byname and byname[name].get('ok'):
            guarded('exp', 'dec', exp_dec)
        else:
            unavailable('exp', 'dec', byname.get(name, {}).get('error', 'missing'))
        if name in pk:
            guarded('exp', 'pkg', exp_pkg)
        else:
            unavailable('exp', 'pkg', pkerr.get(name, 'missing'))

    # ---- instrument / sample containers ----------------------------------------------------------
    def sample_flags(alatt, angdeg, nm, s):
        sp, lu = s['alatt']
        an, au = s['angdeg']
        a, g = _arr(alatt), _arr(angdeg)
        return {'alatt_ok': len(a) == 3 and _all(_num_ok(x, y, LENGTH_A[lu]) for x, y in zip(a, sp, strict=True)),
                'angdeg_ok': len(g) == 3 and _all(_angdeg_ok(x, y, au) for x, y in zip(g, an, strict=True)),
                'name_ok': _eqstr(nm, s['name'])}

    for item, name, which in (('inst', ('experiment_info', 'instruments'), 'instruments'),
                              ('samp', ('experiment_info', 'samples'), 'samples'),
                              ('det', ('', 'detpar'), 'detpar')):
        if item not in calls:
            continue
        want_n = 0 if item == 'det' else nruns

        def cont_dec(name=name, which=which, item=item, want_n=want_n):
            c = D.unique_container(byname[name]['node'])
            idx = [_int_or(x) for x in c['idx']]
            objs = c['objects']
            flags = {}
            if item == 'samp' and objs:
                st = objs[0].struct()
                flags = sample_flags(st['alatt'].value, st['angdeg'].value, D.field_str(st, 'name'), cfg['samp'])
                flags['obj_serial_ok'] = _eqstr(D.field_str(st, 'serial_name'), 'IX_sample')
            elif item == 'inst' and objs:
                st = objs[0].struct()
                src = st['source'].struct()
                i = cfg['inst']
                flags = {'name_ok': _eqstr(D.field_str(st, 'name'), i['name'])
                         and _eqstr(D.field_str(src, 'name'), i['source_name'])
                         and _eqstr(D.field_str(src, 'target_name'), i['target_name']),
                         'obj_serial_ok': _eqstr(D.field_str(st, 'serial_name'), 'IX_null_inst')}
            ev('cont', 'dec', which=which, nruns=want_n, idx=idx, nuniq=len(objs), count=len(idx), allsame=True,
               flags_ok=_all(flags.values()), flags={k: bool(v) for k, v in flags.items()}, dims={})

        def cont_pkg(name=name, which=which, item=item, want_n=want_n):
            lst = pk[name]
            flags, dims = {}, {}
            same = all(x == lst[0] for x in lst[1:]) if len(lst) > 1 else True
            if item == 'samp' and len(lst):
                x = lst[0]
                flags = sample_flags(x.lattice_spacing.values, x.lattice_angle.values, x.name, cfg['samp'])
                # the reader's numbers are judged in the unit it labels them with only if that is the
                # unit they were written in (angstrom / deg); the label itself is judged through `dims`
                dims = {'alatt': dim_of(x.lattice_spacing), 'angdeg': dim_of(x.lattice_angle)}
            elif item == 'inst' and len(lst):
                x = lst[0]
                i = cfg['inst']
                flags = {'name_ok': _eqstr(x.name, i['name']) and _eqstr(x.source.name, i['source_name'])
                         and _eqstr(x.source.target_name, i['target_name'])}
                dims = {'frequency': dim_of(x.source.frequency)}
            ev('cont', 'pkg', which=which, nruns=want_n, idx=[1] * len(lst), nuniq=1 if len(lst) else 0,
               count=len(lst), allsame=bool(same), flags_ok=_all(flags.values()),
               flags={k: bool(v) for k, v in flags.items()}, dims=dims)

        if name in byname and byname[name].get('ok'):
            guarded('cont', 'dec', cont_dec)
        else:
            unavailable('cont', 'dec', byname.get(name, {}).get('error', 'missing'))
        if name in pk:
            guarded('cont', 'pkg', cont_pkg)
        else:
            unavailable('cont', 'pkg', pkerr.get(name, 'missing'))
        evs[-1].setdefault('which', which)
        evs[-2].setdefault('which', which)

    # ---- histogram metadata and data -----------------------------------------------------------
    if 'dnd' in calls:
        d = cfg['dnd']
        qf = [INV_LENGTH, INV_LENGTH, INV_LENGTH, ENERGY]

        def four_ok(found, supplied):
            found = _arr(found)
            return len(found) == 4 and _all(_num_ok(found[i], supplied[i][0], qf[i][supplied[i][1]]) for i in range(4))

        def range_ok(found2x4, supplied):
            a = np.asarray(found2x4, dtype=np.float64)
            return a.shape == (2, 4) and _all(
                _num_ok(a[j, i], supplied[i][0][j], qf[i][supplied[i][1]]) for i in range(4) for j in range(2))

        def vec_ok(found, vu, table):
            if vu is None:
                return np.asarray(found).size == 0
            f = _arr(found)
            return len(f) == 3 and _all(_num_ok(x, y, table[vu[1]]) for x, y in zip(f, vu[0], strict=True))

        name = ('data', 'metadata')

        def dm_dec():
            st = byname[name]['node'].struct()
            ax = st['axes'].struct()
            pr = st['proj'].struct()
            flags = {
                'axes_title': _eqstr(D.field_str(ax, 'title'), d['axes_title']),
                'axes_label': D.field_strs(ax, 'label') == d['label'],
                'img_scales': four_ok(ax['img_scales'].value, d['img_scales']),
                'img_range': range_ok(ax['img_range'].value, d['img_range']),
                'single_bin': [bool(x) for x in _arr(ax['single_bin_defines_iax'].value)] == d['single_bin'],
                'axes_offset': four_ok(ax['offset'].value, d['offset']),
                'aspect': bool(_arr(ax['changes_aspect_ratio'].value)[0]) == d['changes_aspect_ratio'],
                'axes_file': not infile or (_eqstr(D.field_str(ax, 'filename'), b.filename)
                                            and _eqstr(D.field_str(ax, 'filepath'), b.filepath)),
                'proj_title': _eqstr(D.field_str(pr, 'title'), d['proj_title']),
                'proj_label': D.field_strs(pr, 'label') == d['proj_label'],
                'proj_alatt': vec_ok(pr['alatt'].value, d['proj_alatt'], LENGTH_A),
                'proj_angdeg': _all(_angdeg_ok(x, y, d['proj_angdeg'][1]) for x, y in
                                    zip(_arr(pr['angdeg'].value), d['proj_angdeg'][0], strict=True)),
                'proj_offset': four_ok(pr['offset'].value, d['proj_offset']),
                'proj_u': vec_ok(pr['u'].value, d['proj_u'], INV_LENGTH),
                'proj_v': vec_ok(pr['v'].value, d['proj_v'], INV_LENGTH),
                'proj_w': vec_ok(pr['w'].value, d['proj_w'], INV_LENGTH),
                'nonorth': bool(_arr(pr['nonorthogonal'].value)[0]) == d['non_orthogonal'],
                'type': _eqstr(D.field_str(pr, 'type'), 'aaa'),
            }
            ev('dndmeta', 'dec', shape=d['shape'], nbins=[_int_or(x) for x in _arr(ax['nbins_all_dims'].value)],
               dax=[_int_or(x) for x in _arr(ax['dax'].value)], dax_supplied=d['dax'], base=1,
               flags_ok=_all(flags.values()), flags={k: bool(v) for k, v in flags.items()}, dims={})

        def dm_pkg():
            m = pk[name]
            ax, pr = m.axes, m.proj

            def vals(lst):
                return [float(v.value) for v in lst]

            flags = {
                'axes_title': _eqstr(ax.title, d['axes_title']),
                'axes_label': list(ax.label) == d['label'],
                'img_scales': four_ok(vals(ax.img_scales), d['img_scales']),
                'img_range': range_ok(np.array([v.values for v in ax.img_range]).T, d['img_range']),
                'single_bin': [bool(x) for x in ax.single_bin_defines_iax.values] == d['single_bin'],
                'axes_offset': four_ok(vals(ax.offset), d['offset']),
                'aspect': bool(ax.changes_aspect_ratio) == d['changes_aspect_ratio'],
                'axes_file': not infile or (_eqstr(ax.filename, b.filename) and _eqstr(ax.filepath, b.filepath)),
                'proj_title': _eqstr(pr.title, d['proj_title']),
                'proj_label': list(pr.label) == d['proj_label'],
                'proj_alatt': vec_ok(pr.lattice_spacing.values, d['proj_alatt'], LENGTH_A),
                'proj_angdeg': _all(_angdeg_ok(x, y, d['proj_angdeg'][1]) for x, y in
                                    zip(_arr(pr.lattice_angle.values), d['proj_angdeg'][0], strict=True)),
                'proj_offset': four_ok(vals(pr.offset), d['proj_offset']),
                'proj_u': vec_ok(pr.u.values, d['proj_u'], INV_LENGTH),
                'proj_v': vec_ok(pr.v.values, d['proj_v'], INV_LENGTH),
                'proj_w': (pr.w is None) if d['proj_w'] is None else vec_ok(pr.w.values, d['proj_w'], INV_LENGTH),
                'nonorth': bool(pr.non_orthogonal) == d['non_orthogonal'],
                'type': _eqstr(pr.type, 'aaa'),
            }
            dims = {'proj_alatt': dim_of(pr.lattice_spacing), 'proj_angdeg': dim_of(pr.lattice_angle),
                    'proj_u': dim_of(pr.u), 'proj_v': dim_of(pr.v)}
            if pr.w is not None:
                dims['proj_w'] = dim_of(pr.w)
            for i in range(4):
                q = 'q' if i < 3 else 'e'
                for fld, lst in (('img_scales', ax.img_scales), ('img_range', ax.img_range), ('axes_offset', ax.offset),
                                 ('proj_offset', pr.offset)):
                    key = f'{fld}_{q}'
                    dm = dim_of(lst[i]) if i < len(lst) else 'missing'
                    if dims.get(key, dm) != dm:
                        dm = 'inconsistent'
                    dims[key] = dm
            dims['nbins'] = dim_of(ax.n_bins_all_dims)
            dims['dax'] = dim_of(ax.dax)
            ev('dndmeta', 'pkg', shape=d['shape'], nbins=[_int_or(x) for x in ax.n_bins_all_dims.values],
               dax=[_int_or(x) for x in ax.dax.values], dax_supplied=d['dax'], base=0,
               flags_ok=_all(flags.values()), flags={k: bool(v) for k, v in flags.items()}, dims=dims)

        if name in byname and byname[name].get('ok'):
            guarded('dndmeta', 'dec', dm_dec)
        else:
            unavailable('dndmeta', 'dec', byname.get(name, {}).get('error', 'missing'))
        if name in pk:
            guarded('dndmeta', 'pkg', dm_pkg)
        else:
            unavailable('dndmeta', 'pkg', pkerr.get(name, 'missing'))

        name = ('data', 'nd_data')
        blk = byname.get(name)
        if blk is not None and blk.get('ok'):
            vals, errs, cnts = blk['dnd']
            ev('dnd', 'dec', shape=d['shape'], found=[int(s) for s in blk['shape']],
               lens=[int(len(vals)), int(len(errs)), int(len(cnts))],
               allzero=bool(not vals.any() and not errs.any() and not cnts.any()))
        else:
            unavailable('dnd', 'dec', 'missing' if blk is None else blk.get('error', ''))
        if name in pk:
            def dnd_pkg():
                vals, errs, cnts = pk[name]
                shp = [int(s) for s in vals.shape[::-1]]   # the reader returns row-major views of column-major data
                okshape = vals.shape == errs.shape == cnts.shape
                ev('dnd', 'pkg', shape=d['shape'], found=shp if okshape else [],
                   lens=[int(vals.size), int(errs.size), int(cnts.size)],
                   allzero=bool(not vals.any() and not errs.any() and not cnts.any()))
            guarded('dnd', 'pkg', dnd_pkg)
        else:
            unavailable('dnd', 'pkg', pkerr.get(name, 'missing'))
    return evs


def normalise_event(e: dict) -> dict:
    """JSON form for TLC: dims as [[field, dimension], ...], flags as the list of failing flag names."""
    e = dict(e)
    if 'dims' in e:
        e['dims'] = [[k, v] for k, v in sorted(e['dims'].items())] if isinstance(e['dims'], dict) else e['dims']
    if 'flags' in e:
        e['badflags'] = sorted(k for k, v in e['flags'].items() if not v)
        del e['flags']
    return e


def cleanup(b: Built):
    if b.path is not None:
        try:
            b.path.unlink()
        except OSError:
            pass
