INIT Init
NEXT Next
