-------------------------- MODULE MC_ConvertGraph --------------------------
EXTENDS ConvertGraph

HeadOf(c) == [o |-> c.o, t |-> c.t, s |-> c.s, x |-> c.x]
AllHeads == { h \in [o : Origins, t : Targets, s : BOOLEAN, x : BOOLEAN] :
                IsConfig([o |-> h.o, t |-> h.t, s |-> h.s, x |-> h.x, m |-> 0]) }

(* full space of the property: 4 origins x 21 targets x scatter x 2^11 subsets (x aux)  *)
MC_AllMasks == 0..2047
(* quick tier: all heads, the 2^9 subsets that contain all three positions or none      *)
MC_QuickMasks == { m \in 0..2047 : m % 8 \in {0, 7} }
(* negative controls: a small space that contains a witness for every variant           *)
MC_NegMasks == { m \in 0..2047 : /\ m % 8 \in {0, 7}            \* positions: all or none
                                   /\ (m \div 8) % 4 = 0         \* no supplied beams
                                   /\ (m \div 32) % 4 \in {0, 3}  \* L1 and L2: both or none
                                   /\ (m \div 128) % 4 = 0 }     \* no Ltotal, no two_theta

(* every documented graph is a function node -> rule and has no cycle                    *)
ASSUME \A tag \in GraphTags : Functional(Rules(tag)) /\ Acyclic(Rules(tag))
ASSUME Cardinality(AllHeads) = (4 * 21 - 3 + 4 * 6) * 2
ASSUME Cardinality(Configs) = Cardinality(AllHeads) * 2048
=============================================================================
