SPECIFICATION Spec
CONSTANTS
  KTicks = 8
  TableLists <- TableQ
  TableDev = 1
  GeoLists <- GeoQ
  GeoDev = 0
  Bug = "height_unchecked"
INVARIANT HeightPerSlit
CHECK_DEADLOCK FALSE
