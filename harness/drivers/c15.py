"""C15 — XYE files round-trip coordinates and values exactly, uncertainties to rounding; data the
format cannot represent is refused.

Specs (spec/textio/): XyeDefs.tla (file = comment lines + one line of three number cells per row;
decision table Decide / declarative Writable; writer Save; reader Load), Xye.tla (state machine
choose -> save -> load; TLC: the table is total and exclusive, nothing is written for unwritable data,
Load(Save(d)) = d for every header over {a, #, LF, SP, digit} up to MaxHeader and 1..MaxRows rows;
negative controls: only the first header line commented, data without variances written),
Trace_Xye.tla (judge of recorded executions).

Conformance:
  M1  every configuration of the model's decision table (variances, ndim 0/1/2, masks, every subset of
      5 coordinates with/without the dimension-coordinate, requested coordinate, bin edges) and every
      header of the model is replayed through the real save_xye / load_xye; number cells are
      value-ids: distinguished doubles (subnormal min, max, +-min normal, 1/3, pi, 1e+-300, integers,
      -0.0, ...), pairwise distinct, mapped back by exact bit equality for X and Y and by <= 4 ulp of
      the supplied variance for E^2 (file) and the loaded variances.
  M2  random finite bit patterns, 1 .. 10^4 rows, random printable-ASCII headers with newlines, '#'
      and lines that look like table rows, path / str / text-file / StringIO targets.
The text is split into lines and mapped to the model's symbols by the harness; structure, header
commenting, chosen coordinate, readability by the specified reader and equality of the loaded data
are decided by TLC (Trace_Xye).  Any exception of save_xye counts as refusal (the property).
"""

from __future__ import annotations

import io
import itertools
import math
import os
import struct

import numpy as np
import scipp as sc

from ..core import MachineryError
from ..refmap import ulp_diff
from ..tlc import require_ok, write_ndjson

RULE = ('one event = one save_xye call (+ load_xye of the result); non-trivial = a file was written and '
        'loaded with >= 1 row and the header is non-empty or the data contains extreme / random-bit doubles, '
        'or the configuration is refused for a reason of the table; distinct by configuration + header + data seed')

CA, CHASH, CLF, CSP, CDIG, CCR = 1, 2, 3, 4, 5, 6
UNKNOWN = 8000000
_SYM = {'#': CHASH, '\n': CLF, ' ': CSP, '\r': CCR}
COORD_NAMES = {0: 'x', 1: 'c1', 2: 'c2', 3: 'c3', 4: 'c4'}    # 0 = dimension-coordinate (dim is 'x')

DISTINGUISHED = [5e-324, -5e-324, 1.7976931348623157e308, -1.7976931348623157e308, 2.2250738585072014e-308,
                 -2.2250738585072014e-308, 1 / 3, math.pi, 1e300, 1e-300, -1e300, 1.0, -1.0, 2.0, 1e15, 123456789.0,
                 -0.0, 0.0, 0.1, -2.5, 1e22, 1e-7, 6.02214076e23, 4.9406564584124654e-322, 2.2250738585072009e-308]
DIST_VARIANCES = [5e-324, 1.7976931348623157e308, 2.2250738585072014e-308, 1 / 3, math.pi, 1e300, 1e-300, 1.0, 4.0, 0.0,
                  0.81, 1e-320, 2.0, 1e15, 0.1]


def bits(x: float) -> int:
    return struct.unpack('<q', struct.pack('<d', float(x)))[0]


def sym(ch: str) -> int:
    if ch in _SYM:
        return _SYM[ch]
    return CDIG if ch.isdigit() else CA


def header_syms(h):
    return [-1] if h is None else [sym(c) for c in h]


def rand_finite(rng):
    while True:
        x = struct.unpack('<d', struct.pack('<Q', rng.getrandbits(64)))[0]
        if math.isfinite(x):
            return x


def make_values(rng, n, ncoords, mode):
    """-> xs[c][i], ys[i], vs[i]: X/Y pairwise distinct as bit patterns over the whole data set,
    variances pairwise > 16 ulp apart (so that '<= 4 ulp' identifies at most one id)."""
    seen = set()

    def fresh(gen):
        while True:
            x = gen()
            b = bits(x)
            if b not in seen:
                seen.add(b)
                return x

    pool = list(DISTINGUISHED)
    rng.shuffle(pool)

    def gen_xy():
        if mode == 'distinguished' and pool:
            return pool.pop()
        if mode == 'distinguished':
            return float(rng.randrange(-10**6, 10**6)) / 8
        return rand_finite(rng)

    xs = [[fresh(gen_xy) for _ in range(n)] for _ in range(ncoords)]
    ys = [fresh(gen_xy) for _ in range(n)]
    vs = []
    vpool = list(DIST_VARIANCES)
    rng.shuffle(vpool)
    tries = 0
    while len(vs) < n:
        tries += 1
        if mode == 'distinguished' and vpool:
            v = vpool.pop()
        elif mode == 'distinguished':
            v = rng.randrange(1, 10**6) / 16
        else:
            v = abs(rand_finite(rng))
        if all(ulp_diff(v, w) > 16 for w in (vs if n <= 64 else vs[-8:])) and (n <= 64 or bits(v) not in seen):
            seen.add(bits(v))
            vs.append(v)
        if tries > 20 * n + 1000:
            raise MachineryError('could not generate separated variances')
    if n > 64:   # separation for large n: sort-based check
        sv = sorted(vs)
        if any(ulp_diff(a, b) <= 16 for a, b in itertools.pairwise(sv)):
            return make_values(rng, n, ncoords, mode)
    return xs, ys, vs


def build_da(cfg, xs, ys, vs):
    """The DataArray the configuration describes ('x' is the dimension)."""
    n = cfg['nrows']
    coords = {}
    if cfg['ndim'] == 1:
        data = sc.array(dims=['x'], values=np.array(ys), variances=np.array(vs) if cfg['hasvar'] else None, unit='counts')
        for k, c in enumerate(cfg['coords']):
            vals = np.array(xs[k])
            if c in cfg['edges']:
                vals = np.concatenate([vals, [vals[-1] + 1.0 if math.isfinite(vals[-1] + 1.0) and vals[-1] + 1.0 != vals[-1] else 0.5]])
            coords[COORD_NAMES[c]] = sc.array(dims=['x'], values=vals, unit='us')
    elif cfg['ndim'] == 2:
        data = sc.array(dims=['x', 'z'], values=np.array(ys).reshape(n, 1), unit='counts',
                        variances=np.array(vs).reshape(n, 1) if cfg['hasvar'] else None)
        for k, c in enumerate(cfg['coords']):
            coords[COORD_NAMES[c]] = sc.array(dims=['x'], values=np.array(xs[k]), unit='us')
    else:
        data = sc.scalar(ys[0], variance=vs[0] if cfg['hasvar'] else None, unit='counts')
        for k, c in enumerate(cfg['coords']):
            coords[COORD_NAMES[c]] = sc.scalar(xs[k][0], unit='us')
    da = sc.DataArray(data, coords=coords)
    if cfg['masks']:
        da.masks['m'] = sc.zeros(dims=da.dims, shape=da.shape, dtype=bool) if da.ndim else sc.scalar(False)
    return da


def one_event(ctx, tid, cfg, header, rng, mode, target, violations_ctx=None):
    """Run save_xye (+ load_xye) for one configuration and record what happened as value-ids."""
    from scippneutron.io import xye

    n = cfg['nrows']
    xs, ys, vs = make_values(rng, n, len(cfg['coords']), mode)
    da = build_da(cfg, xs, ys, vs)
    snapshot = da.copy()
    kw = {}
    if cfg['arg'] != -1:
        kw['coord'] = COORD_NAMES[cfg['arg']]
    if header is not None:
        kw['header'] = header
    text, out, exc = None, 'file', None
    path = ctx.tmp / f'c15-{tid % 4}.xye'
    try:
        if target == 'path':
            xye.save_xye(path, da, **kw)
            text = path.read_text()
        elif target == 'str':
            xye.save_xye(str(path), da, **kw)
            text = path.read_text()
        elif target == 'file':
            with open(path, 'w') as f:
                xye.save_xye(f, da, **kw)
            text = path.read_text()
        else:
            buf = io.StringIO()
            xye.save_xye(buf, da, **kw)
            text = buf.getvalue()
    except Exception as e:  # noqa: BLE001   any exception is a refusal; TLC decides whether refusing was right
        out, exc = 'raised', f'{type(e).__name__}: {e}'[:200]
    if not sc.identical(da, snapshot):
        ctx.violation('save_xye modified its input', {'cfg': cfg})
    # ---- map numbers to ids
    xid = {}
    for k, c in enumerate(cfg['coords']):
        for i in range(len(xs[k])):
            xid[bits(xs[k][i])] = (c + 1) * 1000000 + i + 1
    yid = {bits(y): 6000000 + i + 1 for i, y in enumerate(ys)}
    order = sorted(range(n), key=lambda i: vs[i])
    svs = [vs[i] for i in order]

    def vid(v):
        """id of the supplied variance within 4 ulp of v (at most one, by construction)."""
        if not math.isfinite(v):
            return UNKNOWN
        import bisect
        j = bisect.bisect_left(svs, v)
        for k in (j - 1, j, j + 1):
            if 0 <= k < n and ulp_diff(svs[k], v) <= 4:
                return 7000000 + order[k] + 1
        return UNKNOWN

    lines = []
    if text is not None:
        raw = text.split('\n')
        if raw and raw[-1] == '':
            raw.pop()
        for ln in raw:
            if ln.lstrip(' ').startswith('#') or not ln.strip(' '):
                lines.append([sym(c) for c in ln])
                continue
            fields = ln.split(' ')
            syms = []
            for q, f in enumerate(fields):
                if q:
                    syms.append(CSP)
                try:
                    val = float(f)
                except ValueError:
                    syms += [sym(c) for c in f]
                    continue
                if q == 0:
                    syms.append(xid.get(bits(val), UNKNOWN))
                elif q == 1:
                    syms.append(yid.get(bits(val), UNKNOWN))
                else:
                    sq = val * val
                    syms.append(vid(sq) if q == 2 else UNKNOWN)
            lines.append(syms)
    loaded = {'ok': False, 'rows': []}
    lexc = None
    if text is not None:
        try:
            if target in ('path', 'str', 'file'):
                res = xye.load_xye(path if target != 'str' else str(path), dim='x', unit='counts', coord_unit='us')
            else:
                res = xye.load_xye(io.StringIO(text), dim='x', unit='counts', coord_unit='us')
            lx, ly, lv = res.coords['x'].values, res.values, res.variances
            if res.ndim == 1 and lv is not None and len(lx) == len(ly) == len(lv):
                loaded = {'ok': True, 'rows': [[xid.get(bits(lx[i]), UNKNOWN), yid.get(bits(ly[i]), UNKNOWN), vid(float(lv[i]))]
                                              for i in range(len(lx))]}
        except Exception as e:  # noqa: BLE001
            lexc = f'{type(e).__name__}: {e}'[:200]
    ev = {'tid': tid, 'cfg': {**cfg, 'header': header_syms(header)}, 'generated': header is None, 'out': out,
          'lines': lines, 'loaded': loaded}
    meta = {'cfg': cfg, 'header': header, 'mode': mode, 'target': target, 'exc': exc, 'load_exc': lexc,
            'text': None if text is None else text[:400]}
    return ev, meta


def table_cfgs():
    """The TableCfgs of Xye.tla."""
    subsets = [list(s) for r in range(6) for s in itertools.combinations(range(5), r)]
    for hv in (False, True):
        for nd in (0, 1, 2):
            for m in (False, True):
                for cs in subsets:
                    for a in (-1, 0, 1, 4):
                        for es in ([], [0], [1], [0, 1, 2, 3, 4]):
                            yield {'hasvar': hv, 'ndim': nd, 'masks': m, 'coords': cs, 'arg': a, 'edges': es, 'nrows': 1}


def py_decide(cfg):
    """Only used for the evidence counts (non-trivial cases); verdicts come from TLC."""
    if not cfg['hasvar'] or cfg['ndim'] != 1 or cfg['masks'] or not cfg['coords']:
        return 'refuse'
    if cfg['arg'] != -1:
        chosen = cfg['arg'] if cfg['arg'] in cfg['coords'] else None
    elif len(cfg['coords']) == 1:
        chosen = cfg['coords'][0]
    else:
        chosen = 0 if 0 in cfg['coords'] else None
    if chosen is None or chosen in cfg['edges']:
        return 'refuse'
    return 'write'


_PRINTABLE = [chr(c) for c in range(32, 127)] + ['\n', '\r']


def rand_header(rng):
    k = rng.randrange(7)
    if k == 0:
        return ''.join(rng.choice(_PRINTABLE) for _ in range(rng.randrange(0, 60)))
    if k == 1:   # lines that look like table rows
        return '\n'.join(' '.join(repr(rng.uniform(-5, 5)) for _ in range(3)) for _ in range(rng.randrange(1, 4)))
    if k == 2:
        return rng.choice(['\r', 'a\r1 2 3', 'x\r\n1 2 3', 'run 7\r\ncomment', '', '\n', '\n\n', '#', '# already commented', 'x y e\n1 2 3', '1 2 3', ' 1 2 3\n', 'a\n\n4 5 6\n',
                           'tof [us]  Y [counts]  E [counts]', '##\n#'])
    if k == 3:
        return ''.join(rng.choice('a#\n 7\r') for _ in range(rng.randrange(0, 12)))
    if k == 4:
        return None
    if k == 5:
        return '\n'.join(''.join(rng.choice(_PRINTABLE[:95]) for _ in range(rng.randrange(0, 30))) for _ in range(rng.randrange(1, 6)))
    return 'run 1234\ntemperature 3.5 K\n1.0 2.0 3.0'


def run(ctx):
    ctx.rule = RULE
    ctx.assume('headers are printable ASCII + LF + CR (no other control characters); CR counts as a line break (universal newlines); any exception of save_xye counts as refusal')
    ctx.assume('"a few units in the last place" = 4 ulp of the supplied variance (DESIGN 3.2); supplied variances are '
               'finite, >= 0 and pairwise more than 16 ulp apart, X / Y values pairwise distinct bit patterns, so the '
               'mapping double -> value-id is unambiguous')
    ctx.assume('a requested coordinate that does not exist must be refused (exception) as well')
    th = ctx.thorough
    nw = int(os.environ.get('VERIF_TLC_WORKERS', '16'))
    rng = ctx.rng

    # ---- 1. design
    res = ctx.tlc('textio/Xye.tla', 'MC_Xye_thorough.cfg' if th else 'MC_Xye.cfg', workers=nw, timeout=900)
    require_ok(ctx, res, 'Xye model')
    ctx.tlc('textio/Xye.tla', 'Neg_Xye_header.cfg', expect_error=True, workers=4, timeout=300)
    ctx.tlc('textio/Xye.tla', 'Neg_Xye_lossy.cfg', expect_error=True, workers=4, timeout=300)
    ctx.tlc('textio/Xye.tla', 'Neg_Xye_cr.cfg', expect_error=True, workers=4, timeout=300)

    # ---- 2. conformance
    events, metas = [], {}
    tid = 0
    targets = ('buffer', 'path', 'str', 'file')

    def add(cfg, header, mode, target):
        nonlocal tid
        ev, meta = one_event(ctx, tid, cfg, header, rng, mode, target)
        events.append(ev)
        metas[tid] = meta
        nt = None
        if py_decide(cfg) == 'refuse':
            nt = ('r', cfg['hasvar'], cfg['ndim'], cfg['masks'], tuple(cfg['coords']), cfg['arg'], tuple(cfg['edges']))
        elif ev['out'] == 'file' and (header or mode != 'distinguished'):
            nt = ('w', tid)
        ctx.case(nontrivial_id=nt)
        tid += 1

    # (a) the decision table of the model
    for i, cfg in enumerate(table_cfgs()):
        add(cfg, None, 'distinguished', targets[i % 4])
    ntable = tid
    # (b) every header of the model x 1..MaxRows rows x writable coordinate choices
    maxh = 4 if th else 3
    hdrs = [''.join(p) for k in range(maxh + 1) for p in itertools.product('a#\n 7\r', repeat=k)] + [None]
    shapes = [([2], -1), ([0, 1], -1), ([0, 1], 1)]
    for hi, h in enumerate(hdrs):
        for n in range(1, maxh + 1):
            if not th and (hi + n) % 2:
                continue     # quick: half of the (header, rows) grid, every header with >= 1 row count
            cs, a = shapes[(hi + n) % 3]
            add({'hasvar': True, 'ndim': 1, 'masks': False, 'coords': cs, 'arg': a, 'edges': [], 'nrows': n}, h,
                'distinguished', targets[(hi + n) % 4])
    # (c) random data far beyond the model's bounds
    sizes = [1, 2, 3, 7, 100, 1000, 10000] * (12 if th else 1) + [10000] * (8 if th else 0)
    for n in sizes + [rng.randrange(1, 300) for _ in range(3000 if th else 100)]:
        ncoords = rng.randrange(1, 6)
        cs = sorted(rng.sample(range(5), ncoords))
        if 0 in cs or ncoords == 1:
            a = rng.choice([-1, -1, rng.choice(cs)])
        else:
            a = rng.choice(cs)
        add({'hasvar': True, 'ndim': 1, 'masks': False, 'coords': cs, 'arg': a, 'edges': [], 'nrows': n}, rand_header(rng),
            rng.choice(['random', 'random', 'distinguished']), rng.choice(targets))
    ctx.extra['table_configurations'] = ntable
    ctx.extra['rows_written'] = sum(e['cfg']['nrows'] for e in events if e['out'] == 'file')
    for e in (events[5], events[ntable + 7], events[-1]):
        ctx.sample({k: (v if k != 'lines' else v[:4]) for k, v in e.items() if k != 'loaded'} |
                   {'loaded_rows': e['loaded']['rows'][:3]})

    tf = ctx.tmp / 'c15.ndjson'
    write_ndjson(tf, events)
    tr = ctx.tlc('textio/Trace_Xye.tla', workers=1, env={'TRACE_FILE': str(tf)}, timeout=1500)
    require_ok(ctx, tr, 'Trace_Xye')
    done = tr.tagged('DONE')
    if not done or done[0][1] != len(events):
        raise MachineryError(f'trace validation incomplete: {done} vs {len(events)} events')
    ctx.traces(len(events))
    for rej in tr.tagged('REJECT'):
        _, _line, rtid, clause, kind = rej
        m = metas[rtid]
        cfg = m['cfg']
        if clause == 'written_instead_of_refused':
            key = f'save_xye wrote a file for data that must be refused ({kind})'
        elif clause == 'representable_data_refused':
            key = f'save_xye raised {m["exc"].split(":")[0]} for representable data ({len(cfg["coords"])} coordinate(s), ' \
                  f'coord argument {"given" if cfg["arg"] != -1 else "omitted"})'
        else:
            hk = 'generated header' if m['header'] is None else 'empty header' if m['header'] == '' else \
                 'header containing CR' if '\r' in m['header'] else \
                 'multi-line header' if '\n' in m['header'] else 'single-line header'
            nr = '1 row' if cfg['nrows'] == 1 else 'several rows'
            ev = events[rtid]
            if clause in ('table_cells', 'loaded_data_differs'):
                # which columns differ, and whether the number is unknown or another supplied value
                n = cfg['nrows']
                got = [[ln[0], ln[2], ln[4]] for ln in ev['lines'][-n:] if len(ln) == 5] if clause == 'table_cells' \
                    else ev['loaded']['rows']
                chosen = cfg['arg'] if cfg['arg'] != -1 else (cfg['coords'][0] if len(cfg['coords']) == 1 else 0)
                cols, unknown = set(), False
                for i, row in enumerate(got[:n]):
                    want = [(chosen + 1) * 1000000 + i + 1, 6000000 + i + 1, 7000000 + i + 1]
                    for q in range(min(3, len(row))):
                        if row[q] != want[q]:
                            cols.add('XYE'[q])
                            unknown |= row[q] == UNKNOWN
                if len(got) != n:
                    cols.add('row count')
                first = next((c for c in ('row count', 'X', 'Y', 'E') if c in cols), '?')
                key = (f'{clause}: {first} ' + ('not the supplied numbers (X, Y bit-for-bit, E^2 within 4 ulp)'
                                                if unknown else 'holds other supplied values'))
                m['columns'] = sorted(cols)
            elif clause == 'load_failed':
                key = f'load_xye failed on a file written by save_xye ({nr}): {(m["load_exc"] or "wrong shape").split(":")[0]}'
            else:
                key = f'{clause} ({hk}, {nr})'
        ctx.violation(key, {'cfg': cfg, 'header': m['header'], 'target': m['target'], 'exc': m['exc'], 'load_exc': m['load_exc'],
                            'text': m['text'], 'columns': m.get('columns')})

    # ---------------------------------------------------------------- growth (hosted here for its time budget): metadata models, the
    # Beamline/Source -> probe/device table of with_beamline, the audit_conform schema loop
    # (spec/metadata/Growth_*.tla; deviations are GROWTH-FINDINGs, not violations of C15)
    from .. import lib_growth_metadata
    lib_growth_metadata.run(ctx)


META = {
    'design_ref': 'DESIGN.md §5 C15',
    'technique': 'TLA+ specification of the XYE writer/reader and its refusal table, model-checked by TLC; recorded '
                 'executions of the real save_xye/load_xye (numbers as value-ids) judged event-by-event by TLC',
    'text': 'TLC proves that the refusal table is total and exclusive, that nothing is written for data the format '
            'cannot carry and that Load(Save(d)) = d for every header over {a,#,LF,SP,digit} up to length 4 and 1..4 rows. '
            'The real save_xye/load_xye are replayed on the whole table, on every header of the model and on random '
            'finite bit patterns up to 10^4 rows with path and file-object targets; X and Y must come back bit-for-bit, '
            'variances within 4 ulp, and the written text must have the specified line structure.',
    'note': 'Trusted: TLC, numpy float parsing of the harness, scipp. ulp distances and bit equality are computed by the '
            'harness (value-ids); structure, commenting of header lines, choice of coordinate, refusals and equality of '
            'id tables are decided by TLC.',
}
