from .. import lib_growth_timeatsample


def run(ctx):
    lib_growth_timeatsample.run(ctx)
