"""Exact / multiprecision geometry helpers shared by the C03, C04 and C08 drivers.

Everything here works on exact rationals (``fractions.Fraction``; every float is a dyadic rational,
so ``Fraction(float)`` is exact) and turns them into 60-digit ``mpmath`` numbers only for the last,
transcendental step (sqrt, atan2).  Nothing in this module imports scippneutron: it is the oracle
side of the refinement mapping and mirrors the operators of spec/conv/Lattice.tla.
"""

from __future__ import annotations

import itertools
import math
from fractions import Fraction

import mpmath

mpmath.mp.dps = 60
mpf = mpmath.mpf

EPS = 2.0 ** -52  # float64 machine epsilon (ulp of 1)
EPS32 = 2.0 ** -23


# ------------------------------------------------------------------ exact vectors (Lattice.tla)
def fvec(v):
    return tuple(Fraction(x) for x in v)


def vadd(u, v):
    return tuple(a + b for a, b in zip(u, v))


def vsub(u, v):
    return tuple(a - b for a, b in zip(u, v))


def vscale(k, u):
    return tuple(k * a for a in u)


def dot(u, v):
    return u[0] * v[0] + u[1] * v[1] + u[2] * v[2]


def cross(u, v):
    return (u[1] * v[2] - u[2] * v[1], u[2] * v[0] - u[0] * v[2], u[0] * v[1] - u[1] * v[0])


def norm2(u):
    return dot(u, u)


def matvec(m, v):
    return tuple(dot(row, v) for row in m)


def matmul(a, b):
    bt = list(zip(*b))
    return tuple(tuple(dot(r, c) for c in bt) for r in a)


def det3(m):
    return dot(m[0], cross(m[1], m[2]))


def adj3(m):
    c = list(zip(*m))
    return (cross(c[1], c[2]), cross(c[2], c[0]), cross(c[0], c[1]))


def rot24():
    """The 24 proper signed permutation matrices (same set as Lattice!Rot24)."""
    out = []
    for p in itertools.permutations(range(3)):
        for s in itertools.product((-1, 1), repeat=3):
            m = tuple(tuple(s[i] if j == p[i] else 0 for j in range(3)) for i in range(3))
            if det3(m) == 1:
                out.append(m)
    return out


def quat_mat(q):
    """Integer matrix M and N with rotation = M / N for the integer quaternion (w, x, y, z)."""
    w, x, y, z = q
    n = w * w + x * x + y * y + z * z
    m = ((w * w + x * x - y * y - z * z, 2 * (x * y - w * z), 2 * (x * z + w * y)),
         (2 * (x * y + w * z), w * w - x * x + y * y - z * z, 2 * (y * z - w * x)),
         (2 * (x * z - w * y), 2 * (y * z + w * x), w * w - x * x - y * y + z * z))
    return m, n


# ------------------------------------------------------------------ multiprecision last step
def to_mpf(x):
    if isinstance(x, Fraction):
        return mpf(x.numerator) / mpf(x.denominator)
    return mpf(x)


def mp_sqrt(x):
    return mpmath.sqrt(to_mpf(x))


def angle_from_pair(d, c2):
    """2theta = atan2(sqrt(|b1 x b2|^2), b1.b2) from the exact pair (Fraction / int)."""
    return mpmath.atan2(mpmath.sqrt(to_mpf(c2)), to_mpf(d))


def exact_pair(b1, b2):
    """(b1.b2, |b1 x b2|^2) as exact Fractions for two vectors of floats / ints / Fractions."""
    u, v = fvec(b1), fvec(b2)
    return dot(u, v), norm2(cross(u, v))


def exact_angle(b1, b2):
    d, c2 = exact_pair(b1, b2)
    return angle_from_pair(d, c2)


def mp_vec(v):
    return tuple(to_mpf(x) for x in v)


def mp_angle(u, v):
    """Angle between two mpf vectors (60 digits) by atan2(|u x v|, u.v)."""
    c = cross(u, v)
    return mpmath.atan2(mpmath.sqrt(dot(c, c)), dot(u, v))


def units_of(err, unit):
    """ceil(|err| / unit) as an int (error expressed in integer units for the TLC events)."""
    e = abs(err)
    if not mpmath.isfinite(e):
        return 2**30
    k = int(mpmath.ceil(e / mpf(unit)))
    return min(k, 2**30)


def relerr_units(got: float, want, unit=2.0 ** -53):
    """|got - want| / |want| in units of `unit` (default: half an ulp of 1), want an mpf."""
    if not math.isfinite(got):
        return 2**30
    w = to_mpf(want)
    if w == 0:
        return 0 if got == 0 else 2**30
    return units_of((mpf(got) - w) / w, unit)


def circ_dist(a, b):
    """Distance of two angles on the circle (mpf)."""
    d = abs(to_mpf(a) - to_mpf(b)) % (2 * mpmath.pi)
    return min(d, 2 * mpmath.pi - d)


# ------------------------------------------------------------------ gravity construction (C04)
def gravity_frame(b1, g):
    """Documented beam-aligned frame from exact inputs (tuples of Fraction), as mpf vectors:
    e_y = -g/|g|, e_z = (b1 - (b1.e_y) e_y)/|..|, e_x = e_y x e_z."""
    gm, bm = mp_vec(g), mp_vec(b1)
    gn = mpmath.sqrt(dot(gm, gm))
    ey = tuple(-x / gn for x in gm)
    zp = vsub(bm, vscale(dot(bm, ey), ey))
    zn = mpmath.sqrt(dot(zp, zp))
    ez = tuple(x / zn for x in zp)
    ex = cross(ey, ez)
    return {'gn': gn, 'ex': ex, 'ey': ey, 'ez': ez, 'b1': bm}


def gravity_angles(frame, b2, delta):
    """2theta = angle(b1, b2 + delta e_y), phi = atan2(y_d + delta, x_d), reflectometry
    gamma = atan2(|y_d + delta|, z_d); b2 exact (Fractions), delta an mpf."""
    bm = mp_vec(b2)
    raised = vadd(bm, vscale(delta, frame['ey']))
    y = dot(bm, frame['ey']) + delta
    x = dot(bm, frame['ex'])
    z = dot(bm, frame['ez'])
    l2 = mpmath.sqrt(dot(bm, bm))
    lr = mpmath.sqrt(dot(raised, raised))
    p = mpmath.sqrt(x * x + y * y)
    return {'tt': mp_angle(frame['b1'], raised), 'phi': mpmath.atan2(y, x), 'refl': mpmath.atan2(abs(y), z),
            'cond': (l2 + abs(delta)) / lr if lr != 0 else mpmath.inf,
            'cond_phi': (l2 + abs(delta)) / p if p != 0 else mpmath.inf,
            'cond_refl': (l2 + abs(delta)) / mpmath.sqrt(y * y + z * z) if (y != 0 or z != 0) else mpmath.inf}


def sgn(x):
    return (x > 0) - (x < 0)


def reduce_frac(p, q):
    f = Fraction(p, q)
    return [f.numerator, f.denominator]


def angle_of_class(cls):
    """mpf angle of a Lattice!AngleClass  [sign(cos), [p, q]]  with cos^2 = p/q."""
    s, (p, q) = cls
    return mpmath.acos(s * mpmath.sqrt(mpf(p) / mpf(q)))
