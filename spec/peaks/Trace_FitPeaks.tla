--------------------------- MODULE Trace_FitPeaks ---------------------------
(* Judges recorded executions of fit_peaks / remove_peaks against the operators of         *)
(* FitPeaksDefs.  One NDJSON line per observation; every line gets a verdict: a rejected   *)
(* line prints <<"REJECT", line, tid, clause>>, the run ends with <<"DONE", n, nbad>>.      *)
(*                                                                                          *)
(* Events (field `ev`):                                                                     *)
(*  windows  automatic windows read from the results of fit_peaks(windows=scalar), in      *)
(*           integer units; (hardening round) with the assessment of every result (the      *)
(*           scripted fit has `k` parameters), the variant of the configuration (element    *)
(*           types, memory layout), whether the arguments were left as they were and        *)
(*           whether a second identical call agreed                                         *)
(*  loop     one scripted behaviour of the model-selection loop (TLC-enumerated case        *)
(*           replayed with scripted Model subclasses)                                      *)
(*  call     one call of fit_peaks: result count, order, isolation                         *)
(*  fit      one FitResult: point/parameter counts, recomputed statistics and requirements *)
(*           (numeric comparisons are made by the harness, flags judged here)              *)
(*  select   a call with several models against the single-model calls on the same window  *)
(*  rmexact  remove_peaks on integer data with integer-valued peaks (exact)                *)
(*  remove   remove_peaks on a fitted synthetic spectrum (pointwise flags)                 *)
(*  replay   (hardening round) a case run a second time at the end, in another order:        *)
(*           `second` is judged like any event and must equal the first observation          *)
EXTENDS FitPeaksDefs, TLC, Json, IOUtils

Tr == ndJsonDeserialize(IOEnv.TRACE_FILE)

VARIABLES ln, nbad
tvars == <<ln, nbad>>

SeqToSet(s) == {s[i] : i \in 1..Len(s)}

JudgeWindows(e) ==
    LET c == e.cfg IN
    IF e.out = "raised" THEN "raised_exception"
    ELSE IF e.out = "nonfinite" THEN "window_edge_is_not_finite"
    ELSE IF Len(e.wins) # NEst(c) THEN "window_count"
    ELSE IF ~WindowsInsideRangeOf(c, e.wins) THEN "window_outside_data_range"
    ELSE IF ~WindowContainsEstimateOf(c, e.wins) THEN "window_does_not_contain_estimate"
    ELSE IF ~NeighbourDistanceOf(c, e.wins) THEN "window_too_close_to_neighbour"
    ELSE IF ExactCfg(c) /\ (~e.ongrid \/ e.wins # WindowsOf(c)) THEN "window_differs_from_documented_construction"
    ELSE IF e.variant \notin WindowVariants THEN "unknown_variant"
    ELSE IF ~e.args_same THEN "arguments_modified"
    ELSE IF ~e.again_same THEN "second_identical_call_differs"
    ELSE IF \E i \in 1..Len(e.assess_full) : e.assess_full[i] = "success" /\ ~AllRequirements(e.succ_req[i])
         THEN (LET i0 == CHOOSE i \in 1..Len(e.assess_full) : e.assess_full[i] = "success" /\ ~AllRequirements(e.succ_req[i])
               IN "success_violates_" \o FailureNames[FirstFailing(e.succ_req[i0])])
    ELSE IF \E i \in 1..Len(e.assess_full) : e.assess_full[i] \notin Assessments THEN "unknown_assessment"
    ELSE IF ~e.ongrid \/ Len(e.assess) # NEst(c) THEN "ok"
    ELSE LET bad == {i \in 1..NEst(c) :
                       NarrowVerdict(NPointsMin(c, e.wins[i]), NPointsMax(c, e.wins[i]), e.k, e.assess[i]) # "ok"}
         IN IF bad = {} THEN "ok"
            ELSE LET i0 == CHOOSE i \in bad : \A j \in bad : i <= j
                 IN NarrowVerdict(NPointsMin(c, e.wins[i0]), NPointsMax(c, e.wins[i0]), e.k, e.assess[i0])

JudgeLoop(e) ==
    LET nb == Len(e.bk)
        K == Len(e.pk) * nb
        nps == [k \in 1..K |-> e.pk[ComboAt(k, nb)[1]] + e.bk[ComboAt(k, nb)[2]]]
        want == LoopResultOf(e.npts, nps, e.script)
        wantfits == {ComboAt(k, nb) : k \in {q \in 1..want.attempts : AttemptFits(e.npts, nps[q])}}
        gotfits == SeqToSet(e.fitted)
    IN
    IF e.out = "raised" THEN "raised_exception"
    ELSE IF e.nres # 1 THEN "result_count"
    ELSE IF e.pb # ComboAt(want.combo, nb)
         THEN (IF want.outcome = "success" THEN "first_success_does_not_win"
               ELSE "all_failed_but_not_first_attempt_returned")
    ELSE IF e.outcome # want.outcome
         THEN (IF want.outcome = "window_too_narrow" THEN "too_few_points_but_not_window_too_narrow"
               ELSE "outcome_differs")
    ELSE IF \E f \in gotfits : \E k \in 1..K : ComboAt(k, nb) = f /\ ~AttemptFits(e.npts, nps[k])
         THEN "fit_attempted_on_too_narrow_window"
    ELSE IF gotfits # wantfits THEN "attempts_differ"
    ELSE "ok"

JudgeCall(e) ==
    IF e.out = "raised" THEN "raised_exception"
    ELSE IF e.nres # e.nest THEN "result_count"
    ELSE IF ~e.order_ok THEN "result_order"
    ELSE IF \E i \in 1..Len(e.iso) : ~e.iso[i] THEN "isolation"
    ELSE IF ~e.args_same THEN "arguments_modified"
    ELSE IF ~e.again_same THEN "second_identical_call_differs"
    ELSE "ok"

(* req[k] = requirement k recomputed by the harness; see FitPeaksDefs part 3                *)
JudgeFit(e) ==
    IF e.malformed THEN "result_is_malformed"
    ELSE IF e.assess \notin Assessments THEN "unknown_assessment"
    ELSE IF ~e.success_flag_ok THEN "success_property_contradicts_assessment"
    ELSE IF ~e.models_ok THEN "result_models_are_not_the_specified_ones"
    ELSE IF ~e.keys_ok THEN "popt_keys_are_not_the_model_parameters"
    ELSE IF e.nmax < e.k /\ e.assess # "window_too_narrow"
         THEN "too_few_points_but_not_window_too_narrow"
    ELSE IF e.nmin > e.k /\ e.assess = "window_too_narrow"
         THEN "window_too_narrow_with_enough_points"
    ELSE IF e.assess = "success" /\ ~e.p_defined THEN "success_with_zero_degrees_of_freedom"
    ELSE IF e.assess = "success" /\ ~AllRequirements(e.req)
         THEN "success_violates_" \o FailureNames[FirstFailing(e.req)]
    ELSE IF ~e.red_ok THEN "red_chisq_is_not_the_recomputed_one"
    ELSE IF ~e.p_ok THEN "p_value_is_not_the_recomputed_one"
    ELSE IF ~e.aic_ok THEN "aic_is_not_the_recomputed_one"
    ELSE IF e.assess = "p_too_small" /\ e.p_clearly_ok THEN "p_too_small_but_p_is_above_threshold"
    ELSE IF e.assess = "peak_points_down" /\ e.req[4] THEN "peak_points_down_but_amplitude_not_negative"
    ELSE "ok"

JudgeSelect(e) ==
    LET k0 == SelectOf(e.outs)
        nb == e.nb
    IN IF e.pb # ComboAt(k0, nb)
         THEN (IF e.outs[k0] = "success" THEN "first_success_does_not_win"
               ELSE "all_failed_but_not_first_attempt_returned")
       ELSE IF e.outcome # e.outs[k0] THEN "outcome_differs_from_single_model_call"
       ELSE IF ~e.same THEN "result_differs_from_single_model_call"
       ELSE "ok"

JudgeRmExact(e) ==
    IF e.out = "raised" THEN "raised_exception"
    ELSE IF e.out # "ok" THEN "result_is_not_finite_or_not_an_integer"
    ELSE IF e.inp_after # e.inp \/ ~e.input_same THEN "input_modified"
    ELSE IF Len(e.res_out) # Len(e.inp) THEN "output_length"
    ELSE IF \E x \in 1..Len(e.inp) : Covering(e.res, x) = {} /\ e.res_out[x] # e.inp[x]
         THEN "point_outside_successful_windows_changed"
    ELSE IF e.res_out # RemoveOf(e.inp, e.res) THEN "not_the_fitted_peak_subtracted"
    ELSE IF ~e.special_same THEN "special_value_outside_successful_windows_changed"
    ELSE IF ~e.results_same THEN "fit_results_modified"
    ELSE IF ~e.again_same THEN "second_identical_call_differs"
    ELSE "ok"

JudgeRemove(e) ==
    IF e.out = "raised" THEN "raised_exception"
    ELSE IF ~e.input_same THEN "input_modified"
    ELSE IF ~e.coords_same THEN "coordinates_changed"
    ELSE IF \E x \in 1..Len(e.cover) : e.cover[x] = 0 /\ ~e.same[x]
         THEN "point_outside_successful_windows_changed"
    ELSE IF \E x \in 1..Len(e.cover) : ~RemovePointOk(e.cover[x], e.same[x], e.subok[x])
         THEN "not_the_fitted_peak_subtracted"
    ELSE IF ~e.results_same THEN "fit_results_modified"
    ELSE IF ~e.again_same THEN "second_identical_call_differs"
    ELSE "ok"

Judge1(e) == CASE e.ev = "windows" -> JudgeWindows(e)
              [] e.ev = "loop" -> JudgeLoop(e)
              [] e.ev = "call" -> JudgeCall(e)
              [] e.ev = "fit" -> JudgeFit(e)
              [] e.ev = "select" -> JudgeSelect(e)
              [] e.ev = "rmexact" -> JudgeRmExact(e)
              [] e.ev = "remove" -> JudgeRemove(e)
              [] OTHER -> "unknown_event"

Judge(e) == IF e.ev = "replay"
            THEN (LET v == Judge1(e.second) IN
                  IF v # "ok" THEN v
                  ELSE IF ~e.same THEN "replayed_case_differs_from_its_first_evaluation"
                  ELSE "ok")
            ELSE Judge1(e)

TInit == ln = 1 /\ nbad = 0
TNext == /\ ln <= Len(Tr)
         /\ ln' = ln + 1
         /\ LET v == Judge(Tr[ln]) IN
            /\ nbad' = IF v = "ok" THEN nbad ELSE nbad + 1
            /\ (v = "ok" \/ PrintT(<<"REJECT", ln, Tr[ln].tid, v>>))
TSpec == TInit /\ [][TNext]_tvars
Done == (ln = Len(Tr) + 1) => PrintT(<<"DONE", ln - 1, nbad>>)
=============================================================================
