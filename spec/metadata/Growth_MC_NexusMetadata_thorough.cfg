SPECIFICATION Spec
CONSTANTS
  Universe <- UT
  ArgSeq <- ArgsT
  MaxSteps = 4
  LibKnown <- LibT
  Bug = "none"
  Export = FALSE
INVARIANT TypeOK
INVARIANT Admitted
INVARIANT Delivers
INVARIANT OrderFree
INVARIANT ReadsStable
INVARIANT CaseInsensitive
PROPERTY ReadsDoNotWrite
CHECK_DEADLOCK FALSE
