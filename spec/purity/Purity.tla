------------------------------- MODULE Purity -------------------------------
(* Identity and aliasing of caller-visible objects (C09).                                *)
(*                                                                                        *)
(* Part 1 - providers.  A *provider* is anything that hands out objects on request: a      *)
(* bundled-table lookup behind a cache, a graph factory backed by a module-level table,   *)
(* a builder/model combinator.  The abstract state is a heap of objects with identity:    *)
(*   heap[o]    value of object o: 0 = the pristine (table) value, n > 0 = "changed by    *)
(*              the caller's n-th operation"                                               *)
(*   store[k]   the provider's own object for key k (0 = not created yet): cache entry /   *)
(*              module-level table / parent builder                                        *)
(*   handles    the objects handed out so far, <<key, object>> in order                    *)
(*   obs        the observable history: what each Lookup / Observe returned                *)
(* Actions: Lookup(k), Observe(i) (look at handle i again: save a builder twice, read a    *)
(* property twice), Mutate(i) (the caller changes handle i through its public interface).  *)
(* The property: every Lookup returns the pristine value whatever happened before, and     *)
(* observing an unmutated handle never changes what a later observation sees.              *)
(*                                                                                        *)
(* Part 2 - calls.  A computational entry point receives arguments; internally it          *)
(* converts each to a target unit/dtype with copy=False, which yields an *alias* of the    *)
(* argument exactly when the argument already has that unit and dtype, and then works in   *)
(* place on its temporaries.  ArgsUnchanged: no argument object changes, for every         *)
(* unit/dtype configuration - in particular the alias-prone ones.                          *)
EXTENDS Integers, Sequences, FiniteSets, TLC

CONSTANTS Keys,      \* keys a provider is asked for
          MaxOps,    \* length of the histories explored
          Bug,       \* "none" | "alias" (provider hands out its own object)
                     \*        | "observe_advances" (observing changes the object)
                     \*        | "inplace_on_alias" (part 2: in-place op on an aliased argument)
          NSlots,    \* part 2: number of argument slots of the modelled call
          NUnits,    \* part 2: unit choices per slot (1 = the unit the call converts to)
          NDtypes,   \* part 2: dtype choices per slot (1 = the dtype the call converts to)
          Part       \* "providers" | "calls" | "both": which actions are enabled

VARIABLES heap, store, handles, obs, nops,
          args, cfg, phase      \* part 2

vars == <<heap, store, handles, obs, nops, args, cfg, phase>>
pvars == <<heap, store, handles, obs, nops>>
cvars == <<args, cfg, phase>>

Alloc(h, v) == Append(h, v)          \* new object id = Len(h) + 1

-----------------------------------------------------------------------------
(* Part 1 *)
Lookup(k) ==
    /\ nops < MaxOps
    /\ LET created == store[k] # 0
           h1 == IF created THEN heap ELSE Alloc(heap, 0)      \* provider's own object
           own == IF created THEN store[k] ELSE Len(heap) + 1
           h2 == IF Bug = "alias" THEN h1 ELSE Alloc(h1, h1[own])   \* hand out a copy
           ret == IF Bug = "alias" THEN own ELSE Len(h1) + 1
       IN /\ heap' = h2
          /\ store' = [store EXCEPT ![k] = own]
          /\ handles' = Append(handles, <<k, ret>>)
          /\ obs' = Append(obs, [op |-> "L", a |-> k, pristine |-> h2[ret] = 0])
    /\ nops' = nops + 1
    /\ UNCHANGED cvars

Observe(i) ==
    /\ nops < MaxOps
    /\ i \in 1..Len(handles)
    /\ LET o == handles[i][2] IN
       /\ obs' = Append(obs, [op |-> "O", a |-> i, pristine |-> heap[o] = 0])
       /\ heap' = IF Bug = "observe_advances" THEN [heap EXCEPT ![o] = nops + 1] ELSE heap
    /\ nops' = nops + 1
    /\ UNCHANGED <<store, handles>>
    /\ UNCHANGED cvars

Mutate(i) ==
    /\ nops < MaxOps
    /\ i \in 1..Len(handles)
    /\ heap' = [heap EXCEPT ![handles[i][2]] = nops + 1]
    /\ obs' = Append(obs, [op |-> "M", a |-> i, pristine |-> FALSE])
    /\ nops' = nops + 1
    /\ UNCHANGED <<store, handles>>
    /\ UNCHANGED cvars

(* a handle is "clean" if the caller never mutated it *)
Mutated(i) == \E j \in 1..Len(obs) : obs[j].op = "M" /\ obs[j].a = i

Fresh == \A j \in 1..Len(obs) : obs[j].op = "L" => obs[j].pristine
StableObservation ==
    \A j \in 1..Len(obs) :
        (obs[j].op = "O" /\ ~(\E m \in 1..(j-1) : obs[m].op = "M" /\ obs[m].a = obs[j].a))
            => obs[j].pristine
StorePristine == \A k \in Keys : store[k] # 0 => heap[store[k]] = 0

-----------------------------------------------------------------------------
(* Part 2 *)
Slots == 1..NSlots
Cfgs == [Slots -> (1..NUnits) \X (1..NDtypes)]
AliasProne(c, s) == c[s] = <<1, 1>>

Call(c) ==
    /\ phase = "idle"
    /\ cfg' = c
    /\ phase' = "called"
    /\ UNCHANGED args
    /\ UNCHANGED pvars

(* the kernel works in place on its temporaries; a temporary aliases the argument iff the *)
(* configuration is alias-prone for that slot - a correct kernel copies in that case.      *)
Kernel ==
    /\ phase = "called"
    /\ args' = [s \in Slots |->
                  IF Bug = "inplace_on_alias" /\ AliasProne(cfg, s) THEN args[s] + 1 ELSE args[s]]
    /\ phase' = "done"
    /\ UNCHANGED cfg
    /\ UNCHANGED pvars

ArgsUnchanged == \A s \in Slots : args[s] = 0

-----------------------------------------------------------------------------
Init == /\ heap = <<>> /\ store = [k \in Keys |-> 0] /\ handles = <<>> /\ obs = <<>> /\ nops = 0
        /\ args = [s \in Slots |-> 0] /\ cfg = [s \in Slots |-> <<1, 1>>] /\ phase = "idle"

Next == \/ /\ Part \in {"providers", "both"}
           /\ \/ \E k \in Keys : Lookup(k)
              \/ \E i \in 1..MaxOps : Observe(i) \/ Mutate(i)
        \/ /\ Part \in {"calls", "both"}
           /\ \/ \E c \in Cfgs : Call(c)
              \/ Kernel

Spec == Init /\ [][Next]_vars

(* export of complete histories (used by the conformance driver, -workers 1) *)
EmitHistories == (nops = MaxOps /\ phase = "idle") => PrintT(<<"HIST", obs>>)
EmitCfgs == (phase = "done") => PrintT(<<"CFG", cfg, {s \in Slots : AliasProne(cfg, s)}>>)
=============================================================================
