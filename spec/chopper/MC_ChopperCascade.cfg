SPECIFICATION Spec
CONSTANTS
  Pulses <- MC_Pulses
  Choppers <- MC_Choppers
  PropDists = {4, 8}
  MaxChops = 2
  Pick = 0
  SimEdges = {}
  SimMaxDist = 0
  L = 12
  Bug = "none"
INVARIANT TypeOK
INVARIANT Agree
INVARIANT AliveIsTransmitted
INVARIANT Band
INVARIANT Regular
INVARIANT OrderIndependent
INVARIANT TwoStepEqualsOneStep
INVARIANT SplitPropagation
CHECK_DEADLOCK FALSE
