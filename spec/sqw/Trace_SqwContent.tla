-------------------------- MODULE Trace_SqwContent --------------------------
(* Judges the decoded CONTENT of files written by the real SqwBuilder.  One NDJSON line per   *)
(* block and per decoder: src = "dec" (independent decoder of the bytes) or "pkg"             *)
(* (Sqw.read_data_block).  Every event carries what was supplied (abstractly) and what was    *)
(* found, as value-ids / integers / booleans (floats are compared by the harness: bit-exact   *)
(* float32 after one rounding, exact or <= 4 ulp float64 for converted metadata).             *)
(* The expected content comes from SqwContentDefs.                                            *)
(* History: `gen` = 1 for a file built from fresh parameter objects, 2 for a file built from   *)
(* the very objects an earlier file was built from (other target, byte order, call order),     *)
(* 3 for a file of the final pass that repeats earlier configurations in another order;        *)
(* `rpass` = 1 / 2 for the first / second time the package reader is asked for the block of    *)
(* the same open file (the second-read event directly follows the first-read event).  The      *)
(* clauses are the same for all of them - what is written and read may not depend on what      *)
(* happened before - and a second read must return what the first returned.                    *)
EXTENDS SqwContentDefs, TLC, Json, IOUtils

Tr == ndJsonDeserialize(IOEnv.TRACE_FILE)

VARIABLES l, nbad, prevev
tvars == <<l, nbad, prevev>>

RECURSIVE ProdOf(_)
ProdOf(s) == IF s = <<>> THEN 1 ELSE Head(s) * ProdOf(Tail(s))

BadDims(e) == {e.dims[i][1] : i \in {j \in 1..Len(e.dims) : ~DimOK(e.dims[j][1], e.dims[j][2])}}

Holds(c, e) ==
    CASE c = "file_count_is_number_of_runs" -> e.nfiles = e.nruns
      [] c = "title_as_supplied" -> e.title_ok
      [] c = "filename_as_supplied" -> e.fn_ok
      [] c = "header_ndims_as_supplied" -> e.ndims = e.ndims_supplied
      [] c = "pixel_count" -> e.nrows = NRows /\ e.npix = e.n
      [] c = "pixel_block_complete" -> e.present = e.n
      [] c = "all_pixels_in_order_rounded_once" -> e.runs = ExpectedRuns(e.n)
      [] c = "id_table_is_the_pixel_table" ->
            e.hasids => (IsRunsOf(e.runs, e.ids) /\ (e.runs = ExpectedRuns(e.n) <=> e.ids = PixelTable(e.n)))
      [] c = "metadata_pixel_count" -> e.npix = e.n
      [] c = "metadata_range_shape" -> e.shape_ok
      [] c = "metadata_row_range" ->
            (e.n > 0 /\ e.shape_ok) => \A r \in 1..NRows : e.minrank[r] = 1 /\ e.maxrank[r] = e.hi[r]
      [] c = "metadata_ranks_consistent" ->
            (e.n > 0 /\ e.shape_ok /\ e.ranks # <<>>) =>
                \A r \in 1..NRows : /\ Len(e.ranks[r]) = e.n
                                    /\ MinOf(Range(e.ranks[r])) = 1
                                    /\ MaxOf(Range(e.ranks[r])) = e.hi[r]
      [] c = "one_record_per_run" -> e.count = e.nruns
      [] c = "run_ids_one_based_in_order" ->
            e.found = [i \in 1..Len(e.supplied) |-> e.supplied[i] + e.base]
      [] c = "energy_mode" -> e.emode = e.emode_supplied
      [] c = "energies_in_meV" -> e.efix_ok /\ e.en_ok
      [] c = "angles_in_radians" -> e.ang_ok /\ ~e.angles_in_degree
      [] c = "orientation_vectors" -> e.uv_ok
      [] c = "strings_as_supplied" -> e.str_ok
      [] c = "container_index_per_run" -> e.count = e.nruns /\ e.idx = ContainerIdx(e.nruns)
      [] c = "one_shared_object" ->
            /\ e.allsame
            /\ (e.src = "dec" => e.nuniq = IF e.which = "detpar" THEN 0 ELSE 1)
      [] c = "object_content" -> e.flags_ok
      [] c = "histogram_shape" -> e.found = e.shape
      [] c = "histogram_zero" -> e.allzero /\ \A i \in 1..Len(e.lens) : e.lens[i] = ProdOf(e.shape)
      [] c = "bins_as_declared" -> e.nbins = e.shape
      [] c = "display_axes_index_base" -> e.dax = [i \in 1..Len(e.dax_supplied) |-> e.dax_supplied[i] + e.base]
      [] c = "reader_labels_written_dimension" -> BadDims(e) = {}
      [] c = "second_read_equals_first_read" -> e.rpass = 2 => [e EXCEPT !.rpass = 1] = prevev

ClausesOf(kind) ==
    CASE kind = "main" -> <<"file_count_is_number_of_runs", "title_as_supplied", "filename_as_supplied",
                            "header_ndims_as_supplied">>
      [] kind = "pix" -> <<"pixel_count", "pixel_block_complete", "all_pixels_in_order_rounded_once",
                           "id_table_is_the_pixel_table">>
      [] kind = "pixmeta" -> <<"metadata_pixel_count", "filename_as_supplied", "metadata_range_shape",
                               "metadata_row_range", "metadata_ranks_consistent">>
      [] kind = "exp" -> <<"one_record_per_run", "run_ids_one_based_in_order", "energy_mode", "energies_in_meV",
                           "angles_in_radians", "orientation_vectors", "strings_as_supplied",
                           "reader_labels_written_dimension">>
      [] kind = "cont" -> <<"container_index_per_run", "one_shared_object", "object_content",
                            "reader_labels_written_dimension">>
      [] kind = "dndmeta" -> <<"bins_as_declared", "display_axes_index_base", "object_content",
                               "reader_labels_written_dimension">>
      [] kind = "dnd" -> <<"histogram_shape", "histogram_zero">>
      [] OTHER -> <<>>

History(e) == IF e.gen \in 1..3 /\ e.rpass \in 1..2 /\ (e.rpass = 2 => e.src = "pkg")
              THEN SelectSeq(<<"second_read_equals_first_read">>, LAMBDA c : ~Holds(c, e))
              ELSE <<"unknown_history">>

Failing(e) ==
    IF ClausesOf(e.ev) = <<>> THEN <<"unknown_event">>
    ELSE IF ~e.avail THEN <<"block_not_readable">> \o History(e)
    ELSE SelectSeq(ClausesOf(e.ev), LAMBDA c : ~Holds(c, e)) \o History(e)

TInit == l = 1 /\ nbad = 0 /\ prevev = [rpass |-> 0]
TNext == /\ l <= Len(Tr)
         /\ l' = l + 1
         /\ LET e == Tr[l]
                f == Failing(e)
            IN /\ prevev' = e
               /\ nbad' = IF f = <<>> THEN nbad ELSE nbad + 1
               /\ IF f = <<>> THEN TRUE
                  ELSE PrintT(<<"REJECT", l, e.tid, f,
                                IF e.avail /\ "dims" \in DOMAIN e THEN BadDims(e) ELSE {}>>)
TSpec == TInit /\ [][TNext]_tvars
Done == (l = Len(Tr) + 1) => PrintT(<<"DONE", l - 1, nbad>>)
=============================================================================
