----------------------- MODULE Growth_MC_InstrumentView -----------------------
(* Model-checking instances of Growth_InstrumentView.  The cfg files give the bounds:                    *)
(*   Growth_MC_InstrumentView.cfg           quick: every call with <= 2 components on a small grid, all   *)
(*                                          invariants and action properties                             *)
(*   Growth_MC_InstrumentView_thorough.cfg  every call with <= 2 components on a larger grid (3 detectors, *)
(*                                          8 centres, 3 sizes)                                          *)
(*   Growth_MC_InstrumentView_emit.cfg      every call with <= 1 component on the full grid, printed     *)
(*   Growth_MC_InstrumentView_pairs.cfg     every call with <= 2 components (both dict orders) on a grid *)
(*                                          of near / far / tied components, printed                     *)
(*   Growth_MC_InstrumentView_sim.cfg       random calls with up to 5 components, random detectors and   *)
(*                                          lattice numbers far beyond the grids (-simulate), printed    *)
(*   Growth_Neg_InstrumentView_<bug>.cfg    negative controls: TLC must reject                           *)
EXTENDS Growth_InstrumentView

(* detectors: DA in m, centre (1, 0, 2) m, pixels 1 m apart; DB in mm, centre (450, 600, 0) mm, pixels 500 mm apart *)
(* (a 3-4-5 step); DC in m, centre (0, 1, 0) m, pixels 2 m apart; DS in cm, 2 cm across, centre (-30, 5, 0) mm;     *)
(* DM in m, 2 cm across, centre (10, 0, 0) mm (small detectors: the far plane of the plain plot is near)             *)
DA == [unit |-> "m", pix |-> << <<0, 0, 2000>>, <<1000, 0, 2000>>, <<2000, 0, 2000>> >>]
DB == [unit |-> "mm", pix |-> << <<0, 0, 0>>, <<300, 400, 0>>, <<600, 800, 0>>, <<900, 1200, 0>> >>]
DC == [unit |-> "m", pix |-> << <<0, 1000, -1000>>, <<0, 1000, 1000>> >>]
DS == [unit |-> "cm", pix |-> << <<-40, 5, 0>>, <<-20, 5, 0>> >>]
DM == [unit |-> "m", pix |-> << <<0, 0, 0>>, <<20, 0, 0>> >>]
MC_DetectorsQuick == {DA, DB}
MC_DetectorsAll == {DA, DB, DC}
MC_DetectorsPairs == {DA, DS, DM}
MC_DetectorsMm == {DB}                     \* negative control center_raw: raw numbers stay small

(* centres: seen from DA = beam along -z; exactly at the centre; +y; -x; x/z tie; z (for DB exactly on its axis);   *)
(* -y; triple tie                                                                                                   *)
C1 == <<"m", <<1, 0, -10>>>>
C2 == <<"m", <<1, 0, 2>>>>
C3 == <<"mm", <<1000, 7000, 2000>>>>
C4 == <<"cm", <<-100, 0, 200>>>>                \* 2 m on the -x side of DA (seen from the origin it would be z)
C5 == <<"m", <<4, 0, 5>>>>
C6 == <<"mm", <<450, 600, -3000>>>>
C7 == <<"cm", <<100, -700, 200>>>>
C8 == <<"m", <<-3, 4, 6>>>>
C9 == <<"m", <<0, 0, -13>>>>                \* far away
C10 == <<"cm", <<-3, 50, 0>>>>              \* near DS: (0, 495, 0) mm from its centre, beam along y
C11 == <<"m", <<0, 0, 0>>>>                 \* 10 mm from the centre of DM
MC_CentersQuick == {C1, C2, C3, C5}
MC_CentersAll == {C1, C2, C3, C4, C5, C6, C7, C8}
MC_CentersPairs == {C2, C5, C9, C10, C11}

S1 == <<"m", "vec", <<1, 2, 3>>>>
S2 == <<"cm", "vec", <<50, 20, 10>>>>
S3 == <<"mm", "scalar", <<500>>>>
S4 == <<"m", "scalar", <<2>>>>
MC_SizesQuick == {S1, S3}
MC_SizesAll == {S1, S2, S3, S4}
MC_SizesPairs == {S2}
MC_SizesThorough == {S1, S2, S3}

MC_StylesQuick == {<<"none", "none">>, <<"#ff0000", "yes">>}
MC_StylesAll == {<<"none", "none">>, <<"#ff0000", "yes">>, <<"#00ff7f", "no">>}
MC_StylesPairs == {<<"none", "none">>}

ASSUME \A d \in MC_DetectorsAll \cup MC_DetectorsPairs : CentreExact(d) /\ Len(d.pix) >= 2

-----------------------------------------------------------------------------
(* random calls.  TLC's simulator evaluates the invariants (hence the export) on every candidate successor, so      *)
(* exactly one successor is offered; the sets depend on the state so that a draw is not evaluated once and for all. *)
Here(S) == { x \in S : Len(order) >= 0 }
Steps == { <<100, 0, 0>>, <<0, 50, 0>>, <<0, 0, -20>>, <<30, 40, 0>>, <<20, 30, 60>>, <<-10, -20, 20>>,
           <<3, 4, 12>>, <<0, -8, 6>>, <<7, 0, 0>>, <<-120, 0, 50>> }           \* all of whole-number length
TieOffsets == { <<700, 0, 700>>, <<-700, 700, 0>>, <<0, 2500, -2500>>, <<900, -900, 900>>, <<-40, -40, -40>>,
                <<3000, 10, -3000>>, <<5, 5, 0>> }
SimColour(k) == CASE k <= 2 -> "none" [] k = 3 -> "#ff0000" [] k = 4 -> "#00ff7f" [] k = 5 -> "#0000cd" [] OTHER -> "#123456"

SimDetector(u, p, st, k) ==
    [unit |-> u,
     pix |-> IF k = 3 THEN <<p, <<p[1] + st[1], p[2] + st[2], p[3] + st[3]>>,
                                <<p[1] + 2 * st[1], p[2] + 2 * st[2], p[3] + 2 * st[3]>> >>
                      ELSE <<p, <<p[1] + 2 * st[1], p[2] + 2 * st[2], p[3] + 2 * st[3]>> >>]

SimPlot == /\ phase = "idle"
           /\ \E u \in { RandomElement(Here({"m", "mm", "cm"})) } :
              \E x \in { RandomElement(Here(-20..20)) } : \E y \in { RandomElement(Here(-20..20)) } :
              \E z \in { RandomElement(Here(-20..20)) } :
              \E st \in { RandomElement(Here(Steps)) } : \E k \in { RandomElement(Here({2, 3})) } :
              \E ps \in { RandomElement(Here(1..5)) } :
                 PlotP(SimDetector(u, <<100 * x, 100 * y, 100 * z>>, st, k), CASE ps <= 3 -> 0 [] ps = 4 -> 25 [] OTHER -> 400)

(* how many components the call gets: a number that depends on the detector drawn *)
SimTarget == (Abs(det.pix[1][1]) \div 100 + Abs(det.pix[1][2]) \div 100 + Len(det.pix)) % (MaxComps + 1)

SimCenter(mode, u, x, y, z, off, a, sgn, far) ==
    LET C == Centre(det)
        lim == CASE u = "m" -> 12 [] u = "cm" -> 1200 [] u = "mm" -> 12000
    IN CASE mode \in {1, 2} -> <<u, <<(x * lim) \div 1000, (y * lim) \div 1000, (z * lim) \div 1000>>>>   \* anywhere
         [] mode = 3 -> <<"mm", C>>                                                                        \* at the centre
         [] mode = 4 -> <<"mm", <<C[1] + off[1], C[2] + off[2], C[3] + off[3]>>>>                          \* ties
         [] mode = 5 -> <<"mm", <<C[1] + (IF a = 1 THEN sgn * far ELSE 0), C[2] + (IF a = 2 THEN sgn * far ELSE 0),
                                   C[3] + (IF a = 3 THEN sgn * far ELSE 0)>>>>                             \* on an axis
         [] mode = 6 -> <<"cm", <<(C[1] \div 10) + (IF a = 1 THEN sgn * 3 ELSE 1), (C[2] \div 10) + (IF a = 2 THEN sgn * 3 ELSE -1),
                                   (C[3] \div 10) + (IF a = 3 THEN sgn * 3 ELSE 0)>>>>                     \* very near

SimSize(u, k, a, b, c) ==
    LET f == CASE u = "m" -> 1 [] u = "cm" -> 100 [] u = "mm" -> 1000
        w(q) == IF u = "m" THEN 1 + (q % 4) ELSE 1 + ((q * f) \div 4000) + (q % 7)
    IN IF k = 1 THEN <<u, "scalar", <<w(a)>>>> ELSE <<u, "vec", <<w(a), w(b), w(c)>>>>

SimAdd == /\ phase = "plotted" /\ Len(order) < SimTarget
          /\ \E n \in { RandomElement(Names \ NamesIn(order)) } :
             \E t \in { RandomElement(Here(1..16)) } : \E mode \in { RandomElement(Here(1..6)) } :
             \E u \in { RandomElement(Here({"m", "mm", "cm"})) } :
             \E x \in { RandomElement(Here(-1000..1000)) } : \E y \in { RandomElement(Here(-1000..1000)) } :
             \E z \in { RandomElement(Here(-1000..1000)) } :
             \E off \in { RandomElement(Here(TieOffsets)) } : \E a \in { RandomElement(Here(1..3)) } :
             \E sgn \in { RandomElement(Here({-1, 1})) } : \E far \in { RandomElement(Here({1, 40, 900, 6000, 11000})) } :
             \E su \in { RandomElement(Here({"m", "mm", "cm"})) } : \E sk \in { RandomElement(Here(1..3)) } :
             \E sa \in { RandomElement(Here(0..3999)) } : \E sb \in { RandomElement(Here(0..3999)) } :
             \E sc \in { RandomElement(Here(0..3999)) } :
             \E col \in { RandomElement(Here(1..6)) } : \E wire \in { RandomElement(Here({"none", "yes", "no"})) } :
                AddComponent(n, [type |-> CASE t <= 5 -> "box" [] t <= 9 -> "cylinder" [] t <= 15 -> "disk" [] OTHER -> "sphere",
                                 center |-> SimCenter(mode, u, x, y, z, off, a, sgn, far),
                                 size |-> SimSize(su, sk, sa, sb, sc),
                                 style |-> <<SimColour(col), wire>>])

SimReturn == /\ phase = "plotted" /\ Len(order) >= SimTarget /\ Return
SimNext == SimPlot \/ SimAdd \/ SimReturn
SimSpec == Init /\ [][SimNext]_vars
=============================================================================
