"""C09 helpers: deep snapshots, providers (things that hand out objects), registry of public calls."""

from __future__ import annotations

import dataclasses
import io
import itertools
import re
from typing import Any, Callable

import numpy as np
import scipp as sc


# ----------------------------------------------------------------------------- snapshots
def snap(o: Any):
    """JSON-able deep snapshot that distinguishes everything a caller can observe."""
    if o is None or isinstance(o, (bool, int, str)):
        return o
    if isinstance(o, float):
        return repr(o)
    if isinstance(o, sc.Variable):
        d = {'dims': list(o.dims), 'shape': list(o.shape), 'unit': str(o.unit), 'dtype': str(o.dtype)}
        if o.bins is not None:
            c = o.bins.constituents
            d['bins'] = {'begin': snap(c['begin']), 'end': snap(c['end']), 'dim': c['dim'],
                         'data': snap(c['data'])}
            return d
        try:
            d['values'] = np.asarray(o.values).tobytes().hex() if o.dtype not in (
                sc.DType.string, sc.DType.PyObject) else [str(v) for v in np.ravel(o.values)]
        except Exception:  # noqa: BLE001
            d['values'] = repr(o.values)
        if o.variances is not None:
            d['variances'] = np.asarray(o.variances).tobytes().hex()
        return d
    if isinstance(o, sc.DataArray):
        return {'data': snap(o.data), 'coords': {k: snap(v) for k, v in sorted(o.coords.items())},
                'masks': {k: snap(v) for k, v in sorted(o.masks.items())}, 'name': o.name}
    if isinstance(o, (sc.Dataset, sc.DataGroup)):
        return {str(k): snap(v) for k, v in o.items()}
    if isinstance(o, np.ndarray):
        return {'np': o.dtype.str, 'shape': list(o.shape), 'bytes': o.tobytes().hex()}
    if isinstance(o, dict):
        return {'dict': [[snap(k) if not isinstance(k, tuple) else list(k), snap(v)] for k, v in o.items()]}
    if isinstance(o, (list, tuple)):
        return [snap(v) for v in o]
    if isinstance(o, (set, frozenset)):
        return {'set': sorted(str(v) for v in o)}
    if callable(o) and hasattr(o, '__qualname__'):
        return f'fn:{getattr(o, "__module__", "")}.{o.__qualname__}'
    if dataclasses.is_dataclass(o) and not isinstance(o, type):
        return {'dc': type(o).__name__,
                'fields': {f.name: snap(getattr(o, f.name)) for f in dataclasses.fields(o)}}
    if hasattr(o, '__dict__'):
        return {'obj': type(o).__name__, 'attrs': {k: snap(v) for k, v in sorted(vars(o).items())}}
    return repr(o)


def identical(a, b) -> bool:
    return snap(a) == snap(b)


# ----------------------------------------------------------------------------- providers
@dataclasses.dataclass
class Provider:
    name: str
    keys: tuple  # two keys
    lookup: Callable[[Any], Any]
    observe: Callable[[Any], Any]  # handle -> snapshot (must not mutate)
    mutators: dict  # name -> fn(handle)


def _mutate_var(v: sc.Variable, how: str):
    if how == 'value':
        if v.ndim == 0:
            v.value = 12345.0 if v.dtype in (sc.DType.float64, sc.DType.float32) else 12345
        else:
            v.values = v.values * 0 + 12345
    elif how == 'inplace_mul':
        v *= 3
    elif how == 'variance':
        if v.ndim == 0:
            v.variance = 777.0
        else:
            v.variances = np.full(v.shape, 777.0)
    elif how == 'unit':
        v.unit = 'K'


def _dc_public_vars(obj):
    out = []
    for f in dataclasses.fields(obj):
        if f.name.startswith('_'):
            continue
        val = getattr(obj, f.name)
        if isinstance(val, sc.Variable):
            out.append((f.name, val))
    return out


def _atom_observe(a):
    d = {'isotope': a.isotope, 'z': a.z}
    for p in ('atomic_weight', 'atomic_mass'):
        try:
            d[p] = snap(getattr(a, p))
        except ValueError:
            d[p] = 'ValueError'
    return d


def _atom_mutators():
    def via_property(how):
        def m(a):
            for p in ('atomic_weight', 'atomic_mass'):
                try:
                    _mutate_var(getattr(a, p), how)
                except ValueError:
                    pass
        return m
    return {f'mutate property result ({h})': via_property(h) for h in ('value', 'inplace_mul', 'unit')}


def _sp_mutators():
    def m(how):
        def f(p):
            for _, v in _dc_public_vars(p):
                _mutate_var(v, how)
        return f
    return {f'mutate public field ({h})': m(h) for h in ('value', 'inplace_mul', 'variance', 'unit')}


def _graph_observe(g):
    return sorted([[list(k) if isinstance(k, tuple) else k, snap(v)] for k, v in g.items()], key=str)


def _graph_mutators():
    def clear(g):
        g.clear()

    def add(g):
        g['zzz_new'] = lambda x: x

    def overwrite(g):
        for k in list(g):
            g[k] = lambda x: x

    def pop(g):
        if g:
            g.pop(next(iter(g)))
    return {'dict.clear': clear, 'dict add key': add, 'dict overwrite values': overwrite, 'dict.pop': pop}


def _model_observe(m):
    return {'cls': type(m).__name__, 'prefix': m.prefix, 'names': sorted(m.param_names),
            'bounds': sorted((k, list(map(repr, v))) for k, v in m.param_bounds.items())}


def _model_mutators():
    def names_add(m):
        s = m.param_names
        try:
            s.add('zzz')
        except AttributeError:
            pass

    def names_clear(m):
        s = m.param_names
        try:
            s.clear()
        except AttributeError:
            pass

    def bounds_clear(m):
        b = m.param_bounds
        try:
            b.clear()
        except (AttributeError, TypeError):
            pass

    def derive(m):
        m.with_prefix('q_')
        try:
            _ = m + type(m)(prefix='other_') if type(m).__name__ != 'PolynomialModel' else m
        except Exception:  # noqa: BLE001
            pass
    return {'param_names.add': names_add, 'param_names.clear': names_clear,
            'param_bounds.clear': bounds_clear, 'derive further models': derive}


_DATE = re.compile(r'^_audit\.creation_date.*$', re.M)


def cif_text(b) -> str:
    f = io.StringIO()
    b.save(f)
    return _DATE.sub('_audit.creation_date <date>', f.getvalue())


def block_text(b) -> str:
    f = io.StringIO()
    b.write(f)
    return f.getvalue()


def make_providers() -> list[Provider]:
    from scippneutron import atoms
    from scippneutron.conversion.graph import beamline as gb
    from scippneutron.conversion.graph import tof as gt
    from scippneutron.core import conversions
    from scippneutron.io import cif
    from scippneutron.metadata import Person
    from scippneutron.peaks import model as pm

    P = []
    P.append(Provider('atoms.Atom.for_isotope', ('H', '2H'), atoms.Atom.for_isotope, _atom_observe,
                      _atom_mutators()))
    P.append(Provider('atoms.ScatteringParams.for_isotope', ('H', '2H'),
                      atoms.ScatteringParams.for_isotope, snap, _sp_mutators()))
    P.append(Provider('atoms.reference_wavelength', ((), ()), lambda k: atoms.reference_wavelength(), snap,
                      {f'mutate result ({h})': (lambda v, h=h: _mutate_var(v, h))
                       for h in ('value', 'inplace_mul', 'unit')}))
    gm = _graph_mutators()
    P.append(Provider('graph.beamline.beamline', (True, False), lambda k: gb.beamline(scatter=k),
                      _graph_observe, gm))
    P.append(Provider('graph.beamline.Ltotal', (True, False), lambda k: gb.Ltotal(scatter=k),
                      _graph_observe, gm))
    for fname in ('incident_beam', 'scattered_beam', 'two_theta', 'L1', 'L2'):
        P.append(Provider(f'graph.beamline.{fname}', ((), ()), lambda k, f=getattr(gb, fname): f(),
                          _graph_observe, gm))
    for fname in ('elastic', 'kinematic', 'elastic_dspacing', 'elastic_energy', 'elastic_Q',
                  'elastic_Q_vec', 'elastic_hkl', 'elastic_wavelength', 'direct_inelastic',
                  'indirect_inelastic'):
        f = getattr(gt, fname)
        P.append(Provider(f'graph.tof.{fname}', ('tof', 'wavelength' if 'inelastic' not in fname else 'tof'),
                          lambda k, f=f: f(k), _graph_observe, gm))
    P.append(Provider('conversion_graph', (('tof', 'dspacing', True, 'elastic'), ('tof', 'energy_transfer', True, 'direct_inelastic')),
                      lambda k: conversions.conversion_graph(*k), _graph_observe, gm))
    # same origin, geometry target vs dynamic target / scatter vs no scatter: a result must not
    # depend on which graph was asked for first
    for i, pair in enumerate(((('tof', 'two_theta', True, 'elastic'), ('tof', 'wavelength', True, 'elastic')),
                              (('wavelength', 'L2', True, 'elastic'), ('wavelength', 'Q', True, 'elastic')),
                              (('tof', 'wavelength', False, 'elastic'), ('tof', 'wavelength', True, 'elastic')),
                              (('tof', 'energy_transfer', True, 'indirect_inelastic'), ('tof', 'Ltotal', True, 'elastic')),
                              (('energy', 'Ltotal', True, 'elastic'), ('energy', 'wavelength', True, 'elastic')),
                              (('Q', 'L1', True, 'elastic'), ('Q', 'wavelength', True, 'elastic')))):
        P.append(Provider(f'conversion_graph (key pair {i + 1}: {pair[0][0]}->{pair[0][1]} / {pair[1][0]}->{pair[1][1]})',
                          pair, lambda k: conversions.conversion_graph(*k), _graph_observe, gm))
    # model combinators
    bases = {1: pm.GaussianModel(prefix='g_'), 2: pm.PolynomialModel(degree=2, prefix='b_')}
    P.append(Provider('peaks.Model.with_prefix', (1, 2), lambda k: bases[k].with_prefix('p_'),
                      _model_observe, _model_mutators()))
    comp = {1: (pm.GaussianModel(prefix='g_'), pm.PolynomialModel(degree=1, prefix='b_')),
            2: (pm.LorentzianModel(prefix='l_'), pm.PseudoVoigtModel(prefix='v_'))}
    P.append(Provider('peaks.Model.__add__', (1, 2), lambda k: comp[k][0] + comp[k][1],
                      _model_observe, _model_mutators()))
    P.append(Provider('peaks.Model (operands of +)', (1, 2), lambda k: comp[k][0],
                      _model_observe, {'used as operand': lambda m: (m + pm.PolynomialModel(degree=3, prefix='zz_')).with_prefix('w_')}))
    def _receiver_observe(m):
        # what a model derived from the receiver looks like is observed *before* the receiver's own
        # properties are read: reading a property of a model must not change what is derived from it later
        d = _model_observe(m.with_prefix('zz_'))
        d['bounds_keys_are_parameters'] = all(k in d['names'] for k, _ in d['bounds'])
        return {'derived': d, 'self': _model_observe(m)}

    P.append(Provider('peaks.Model (receiver of with_prefix)', (1, 2), lambda k: bases[k], _receiver_observe,
                      {'call with_prefix on it': lambda m: m.with_prefix('zz_'),
                       'add to another model': lambda m: pm.PolynomialModel(degree=4, prefix='yy_') + m}))
    # CIF builder combinators
    authors = (Person(name='Jane Doe', email='jane@x.org', role='measurement', corresponding=True),
               Person(name='Max M', orcid_id='https://orcid.org/0000-0002-1825-0097', role='analysis'))
    cbase = {1: cif.CIF('blk1', comment='c one').with_reducers('prog 1.0'),
             2: cif.CIF('blk2').with_authors(authors[0])}

    def cif_mut():
        def rename(b):
            b.name = 'renamed'

        def recomment(b):
            b.comment = 'changed comment'

        def derive(b):
            b.with_authors(authors[1]).with_reducers('other').save(io.StringIO())

        def save(b):
            b.save(io.StringIO())
        return {'set name': rename, 'set comment': recomment, 'derive and save': derive, 'save': save}
    P.append(Provider('io.cif.CIF.with_authors', (1, 2), lambda k: cbase[k].with_authors(*authors), cif_text,
                      cif_mut()))
    P.append(Provider('io.cif.CIF.copy', (1, 2), lambda k: cbase[k].copy(), cif_text, cif_mut()))
    P.append(Provider('io.cif.CIF.with_reducers', (1, 2), lambda k: cbase[k].with_reducers('r2'), cif_text,
                      cif_mut()))
    P.append(Provider('io.cif.CIF (receiver of with_* / copy)', (1, 2), lambda k: cbase[k], cif_text,
                      {'with_authors': lambda b: b.with_authors(authors[1]),
                       'with_reducers': lambda b: b.with_reducers('zz 1'),
                       'with_beamline + save': lambda b: b.copy().save(io.StringIO()),
                       'copy then rename copy': lambda b: setattr(b.copy(), 'name', 'other'),
                       'save_cif with a one-off comment': lambda b: cif.save_cif(io.StringIO(), b, comment='one-off comment'),
                       'save_cif without comment': lambda b: cif.save_cif(io.StringIO(), b)}))
    bbase = {1: cif.Block('b1', [{'audit.x': 'v'}], comment='cm'), 2: cif.Block('b2')}

    def blk_mut():
        def rename(b):
            b.name = 'zz'

        def add(b):
            b.add({'zz.y': 3})

        def recomment(b):
            b.comment = 'new'
        return {'set name': rename, 'add content': add, 'set comment': recomment}
    P.append(Provider('io.cif.Block.copy', (1, 2), lambda k: bbase[k].copy(), block_text, blk_mut()))
    P.append(Provider('io.cif.Block (argument of save_cif / receiver of copy)', (1, 2), lambda k: bbase[k], block_text,
                      {'save_cif with a one-off comment': lambda b: cif.save_cif(io.StringIO(), b, comment='one-off comment'),
                       'save_cif in a list': lambda b: cif.save_cif(io.StringIO(), [b, cif.Block('other')], comment='c'),
                       'copy then change the copy': lambda b: b.copy().add({'zz.y': 3})}))
    return P


# ----------------------------------------------------------------------------- call registry
FLOAT_DT = ('float64', 'float32')
NUM_DT = ('float64', 'float32', 'int64')

BASE = {  # kind -> (base unit, base values)
    'tof': ('us', [1000.0, 2500.0, 4000.0]),
    'length': ('m', [10.0, 20.0, 30.0]),
    'angle': ('rad', [0.5, 1.0, 2.0]),
    'wavelength': ('angstrom', [1.0, 2.0, 4.0]),
    'energy': ('meV', [5.0, 20.0, 80.0]),
    'Q': ('1/angstrom', [1.0, 2.0, 4.0]),
    'dspacing': ('angstrom', [1.0, 2.0, 3.0]),
    'freq': ('Hz', [14.0, 14.0, 14.0]),
}
UNITS = {
    'tof': ('us', 'ns', 'ms', 's'),
    'length': ('m', 'mm', 'angstrom'),
    'angle': ('rad', 'deg'),
    'wavelength': ('angstrom', 'nm', 'm'),
    'energy': ('meV', 'eV', 'J'),
    'Q': ('1/angstrom', '1/nm'),
    'dspacing': ('angstrom', 'nm'),
}


def dense(kind, unit, dtype, dim='x', scalar=False):
    bu, vals = BASE[kind]
    v = sc.array(dims=[dim], values=vals, unit=bu).to(unit=unit)
    if dtype == 'int64':
        v = sc.array(dims=[dim], values=np.maximum(np.rint(v.values), 1).astype('int64'), unit=unit)
    else:
        v = v.astype(dtype)
    return v[dim, 1].copy() if scalar else v


def binned(kind, unit, dtype, dim='x'):
    """3 bins along `dim` holding 0, 2 and 3 events whose values are of `kind`."""
    bu, vals = BASE[kind]
    ev = sc.array(dims=['event'], values=[vals[0], vals[1], vals[2], vals[1], vals[0]], unit=bu).to(unit=unit)
    ev = (sc.array(dims=['event'], values=np.maximum(np.rint(ev.values), 1).astype('int64'), unit=unit)
          if dtype == 'int64' else ev.astype(dtype))
    begin = sc.array(dims=[dim], values=[0, 0, 2], unit=None, dtype='int64')
    end = sc.array(dims=[dim], values=[0, 2, 5], unit=None, dtype='int64')
    return sc.bins(begin=begin, end=end, dim='event', data=ev)


def vec(vals, unit='m', dim=None):
    if dim is None:
        return sc.vector(vals, unit=unit)
    return sc.vectors(dims=[dim], values=vals, unit=unit)


def slot(kind, dtypes=NUM_DT, layouts=('dense',), units=None, scalar=False):
    """candidate list: (label, unit_index, dtype_index, factory)"""
    out = []
    for ui, u in enumerate(units or UNITS[kind]):
        for di, dt in enumerate(dtypes):
            for lay in layouts:
                if lay == 'dense':
                    out.append((f'{u}/{dt}/dense', ui + 1, di + 1, lambda u=u, dt=dt: dense(kind, u, dt, scalar=scalar)))
                else:
                    out.append((f'{u}/{dt}/binned', ui + 1, di + 1, lambda u=u, dt=dt: binned(kind, u, dt)))
    return out


def fixed(label, factory):
    return [(label, 1, 1, factory)]


@dataclasses.dataclass
class CallSpec:
    name: str
    fn: Callable
    slots: dict  # argname -> candidate list
    extra: dict = dataclasses.field(default_factory=dict)  # non-snapshotted kwargs (strings, ints)
    positional: bool = False


def make_calls() -> list[CallSpec]:
    import scippneutron as scn
    from scippneutron.absorption import Cylinder, Material, compute_transmission_map
    from scippneutron.atoms import ScatteringParams
    from scippneutron.chopper import DiskChopper, filtering
    from scippneutron.conversion import beamline as bl
    from scippneutron.conversion import tof as tk
    from scippneutron.io import cif, save_xye
    from scippneutron.peaks import FitParameters, fit_peaks, model as pm, remove_peaks
    from scippneutron.tof import chopper_cascade as cc

    C: list[CallSpec] = []
    both = ('dense', 'binned')
    # ---- conversion.tof
    C.append(CallSpec('conversion.tof.wavelength_from_tof', tk.wavelength_from_tof,
                      {'tof': slot('tof', layouts=both), 'Ltotal': slot('length')}))
    C.append(CallSpec('conversion.tof.dspacing_from_tof', tk.dspacing_from_tof,
                      {'tof': slot('tof', layouts=both), 'Ltotal': slot('length', units=('m', 'mm')),
                       'two_theta': slot('angle', dtypes=FLOAT_DT)}))
    C.append(CallSpec('conversion.tof.energy_from_tof', tk.energy_from_tof,
                      {'tof': slot('tof', layouts=both), 'Ltotal': slot('length')}))
    C.append(CallSpec('conversion.tof.energy_transfer_direct_from_tof', tk.energy_transfer_direct_from_tof,
                      {'tof': slot('tof', layouts=both, units=('us', 's')), 'L1': slot('length', units=('m', 'mm'), dtypes=FLOAT_DT),
                       'L2': slot('length', units=('m',), dtypes=FLOAT_DT), 'incident_energy': slot('energy', dtypes=FLOAT_DT)}))
    C.append(CallSpec('conversion.tof.energy_transfer_indirect_from_tof', tk.energy_transfer_indirect_from_tof,
                      {'tof': slot('tof', layouts=both, units=('us', 's')), 'L1': slot('length', units=('m',), dtypes=FLOAT_DT),
                       'L2': slot('length', units=('m', 'mm'), dtypes=FLOAT_DT), 'final_energy': slot('energy', dtypes=FLOAT_DT)}))
    C.append(CallSpec('conversion.tof.energy_from_wavelength', tk.energy_from_wavelength,
                      {'wavelength': slot('wavelength', layouts=both)}))
    C.append(CallSpec('conversion.tof.wavelength_from_energy', tk.wavelength_from_energy,
                      {'energy': slot('energy', layouts=both)}))
    C.append(CallSpec('conversion.tof.Q_from_wavelength', tk.Q_from_wavelength,
                      {'wavelength': slot('wavelength', layouts=both), 'two_theta': slot('angle', dtypes=FLOAT_DT)}))
    C.append(CallSpec('conversion.tof.wavelength_from_Q', tk.wavelength_from_Q,
                      {'Q': slot('Q', layouts=both), 'two_theta': slot('angle', dtypes=FLOAT_DT)}))
    C.append(CallSpec('conversion.tof.dspacing_from_wavelength', tk.dspacing_from_wavelength,
                      {'wavelength': slot('wavelength', layouts=both), 'two_theta': slot('angle', dtypes=FLOAT_DT)}))
    C.append(CallSpec('conversion.tof.dspacing_from_energy', tk.dspacing_from_energy,
                      {'energy': slot('energy', layouts=both), 'two_theta': slot('angle', dtypes=FLOAT_DT)}))
    beams = {
        'incident_beam': fixed('vec m', lambda: vec([0.0, 0.0, 10.0])) + fixed('vec mm', lambda: vec([0.0, 0.0, 1e4], 'mm')),
        'scattered_beam': fixed('vecs m', lambda: vec([[1.0, 0.5, 2.0], [0.0, 1.0, 1.0], [-1.0, 0.2, 0.4]], 'm', 'x'))
        + fixed('vecs mm', lambda: vec([[1e3, 5e2, 2e3], [0.0, 1e3, 1e3], [-1e3, 2e2, 4e2]], 'mm', 'x')),
    }
    C.append(CallSpec('conversion.tof.Q_elements_from_wavelength', tk.Q_elements_from_wavelength,
                      {'wavelength': slot('wavelength', dtypes=FLOAT_DT, layouts=both), **beams}))
    C.append(CallSpec('conversion.tof.Q_vec_from_Q_elements', tk.Q_vec_from_Q_elements,
                      {k: slot('Q', dtypes=('float64',)) for k in ('Qx', 'Qy', 'Qz')}))
    mats = {
        'u': fixed('rot', lambda: sc.spatial.rotations_from_rotvecs(sc.vector([0.1, 0.2, 0.3], unit='rad'))),
        'b': fixed('lin', lambda: sc.spatial.linear_transform(value=[[2.0, 0.1, 0], [0, 3.0, 0.2], [0, 0, 4.0]], unit='1/angstrom')),
    }
    C.append(CallSpec('conversion.tof.ub_matrix_from_u_and_b', tk.ub_matrix_from_u_and_b,
                      {'u_matrix': mats['u'], 'b_matrix': mats['b']}))
    C.append(CallSpec('conversion.tof.hkl_vec_from_Q_vec', tk.hkl_vec_from_Q_vec,
                      {'Q_vec': fixed('qv', lambda: vec([[1.0, 2.0, 3.0], [0.5, 0.1, 0.2]], '1/angstrom', 'x')),
                       'ub_matrix': mats['b'], 'sample_rotation': mats['u']}))
    C.append(CallSpec('conversion.tof.hkl_elements_from_hkl_vec', tk.hkl_elements_from_hkl_vec,
                      {'hkl_vec': fixed('hkl', lambda: vec([[1.0, 2.0, 3.0], [0.5, 0.1, 0.2]], 'dimensionless', 'x'))}))
    C.append(CallSpec('conversion.tof.time_at_sample_from_tof', tk.time_at_sample_from_tof,
                      {'pulse_time': slot('tof', units=('us', 'ns'), dtypes=('float64', 'int64'), scalar=True),
                       'tof': slot('tof', units=('us', 'ns'), dtypes=('float64', 'int64')),
                       'L2': slot('length', units=('m',), dtypes=('float64',)),
                       'wavelength': slot('wavelength', units=('angstrom',), dtypes=('float64',))}))
    # ---- conversion.beamline
    pos = {
        'source_position': fixed('m', lambda: vec([0.0, 0.0, -10.0])) + fixed('mm', lambda: vec([0.0, 0.0, -1e4], 'mm')),
        'sample_position': fixed('m', lambda: vec([0.0, 0.0, 0.0])) + fixed('mm', lambda: vec([0.0, 0.0, 0.0], 'mm')),
        'position': fixed('m', lambda: vec([[1.0, 0.5, 2.0], [0.0, 1.0, 1.0]], 'm', 'x'))
        + fixed('mm', lambda: vec([[1e3, 5e2, 2e3], [0.0, 1e3, 1e3]], 'mm', 'x')),
    }
    C.append(CallSpec('conversion.beamline.straight_incident_beam', bl.straight_incident_beam,
                      {k: pos[k] for k in ('source_position', 'sample_position')}))
    C.append(CallSpec('conversion.beamline.straight_scattered_beam', bl.straight_scattered_beam,
                      {k: pos[k] for k in ('position', 'sample_position')}))
    C.append(CallSpec('conversion.beamline.L1', bl.L1, {'incident_beam': beams['incident_beam']}))
    C.append(CallSpec('conversion.beamline.L2', bl.L2, {'scattered_beam': beams['scattered_beam']}))
    C.append(CallSpec('conversion.beamline.total_beam_length', bl.total_beam_length,
                      {'L1': slot('length', scalar=True), 'L2': slot('length')}))
    C.append(CallSpec('conversion.beamline.total_straight_beam_length_no_scatter',
                      bl.total_straight_beam_length_no_scatter,
                      {k: pos[k] for k in ('source_position', 'position')}))
    C.append(CallSpec('conversion.beamline.two_theta', bl.two_theta, dict(beams)))
    grav = {'gravity': fixed('g', lambda: vec([0.0, -9.81, 0.0], 'm/s^2'))}
    tilted = {'incident_beam': fixed('tilted', lambda: vec([0.0, 1.0, 10.0]))}
    wl_slot = slot('wavelength', dtypes=FLOAT_DT, layouts=both)
    C.append(CallSpec('conversion.beamline.beam_aligned_unit_vectors', bl.beam_aligned_unit_vectors,
                      {'incident_beam': beams['incident_beam'], **grav}))
    C.append(CallSpec('conversion.beamline.scattering_angles_with_gravity', bl.scattering_angles_with_gravity,
                      {**beams, 'wavelength': wl_slot, **grav}))
    C.append(CallSpec('conversion.beamline.scattering_angles_with_gravity (tilted beam)',
                      bl.scattering_angles_with_gravity,
                      {**tilted, 'scattered_beam': beams['scattered_beam'], 'wavelength': wl_slot, **grav}))
    C.append(CallSpec('conversion.beamline.scattering_angle_in_yz_plane', bl.scattering_angle_in_yz_plane,
                      {**beams, 'wavelength': wl_slot, **grav}))

    # ---- top-level convert
    def make_da(tof_unit, tof_dtype, binned_data):
        n = 3
        coords = {
            'position': vec([[1.0, 0.5, 2.0], [0.0, 1.0, 1.0], [-1.0, 0.2, 0.4]], 'm', 'x'),
            'source_position': vec([0.0, 0.0, -10.0]),
            'sample_position': vec([0.0, 0.0, 0.0]),
        }
        if binned_data:
            ev = sc.DataArray(sc.ones(sizes={'event': 5}, unit='counts', with_variances=True),
                              coords={'tof': dense('tof', tof_unit, tof_dtype, dim='event')[('event', 0)].copy()
                                      * sc.array(dims=['event'], values=[1, 2, 3, 2, 1], dtype=tof_dtype)})
            da = sc.DataArray(sc.bins(begin=sc.array(dims=['x'], values=[0, 0, 2], unit=None),
                                      end=sc.array(dims=['x'], values=[0, 2, 5], unit=None), dim='event', data=ev),
                              coords=coords)
            return da
        da = sc.DataArray(sc.ones(sizes={'x': n, 'tof': 3}, unit='counts'), coords=coords)
        da.coords['tof'] = dense('tof', tof_unit, tof_dtype, dim='tof')
        da.masks['m'] = sc.array(dims=['x'], values=[False, True, False])
        return da
    da_slot = []
    for ui, u in enumerate(('us', 'ns', 's')):
        for di, dt in enumerate(NUM_DT):
            for b in (False, True):
                da_slot.append((f'{u}/{dt}/{"binned" if b else "dense"}', ui + 1, di + 1,
                                lambda u=u, dt=dt, b=b: make_da(u, dt, b)))
    for target in ('wavelength', 'dspacing', 'energy', 'Q'):
        C.append(CallSpec(f'convert(tof->{target})', lambda data, t=target: scn.convert(data, 'tof', t, scatter=True),
                          {'data': da_slot}))
    C.append(CallSpec('convert(tof->Ltotal, no scatter)', lambda data: scn.convert(data, 'tof', 'wavelength', scatter=False),
                      {'data': da_slot}))

    # ---- beamline accessors on DataArray / Dataset (positions in m / mm)
    def geo(container, unit):
        f = {'m': 1.0, 'mm': 1000.0}[unit]
        coords = {'position': vec([[1.0 * f, 0.5 * f, 2.0 * f], [0.0, 1.0 * f, 1.0 * f]], unit, 'x'),
                  'source_position': vec([0.0, 0.0, -10.0 * f], unit), 'sample_position': vec([0.0, 0.0, 0.0], unit)}
        da = sc.DataArray(sc.ones(sizes={'x': 2}, unit='counts'), coords=coords)
        return da if container == 'DataArray' else sc.Dataset({'a': da, 'b': da * 2.0})
    geo_slot = [(f'{c}/{u}', ui + 1, ci + 1, lambda c=c, u=u: geo(c, u))
                for ui, u in enumerate(('m', 'mm')) for ci, c in enumerate(('DataArray', 'Dataset'))]
    for acc in ('position', 'source_position', 'sample_position', 'incident_beam', 'scattered_beam', 'L1', 'L2',
                'two_theta'):
        C.append(CallSpec(f'scippneutron.{acc}', getattr(scn, acc), {'da': geo_slot}, positional=True))
    for sct in (True, False):
        C.append(CallSpec(f'scippneutron.Ltotal(scatter={sct})', lambda da, sct=sct: scn.Ltotal(da, scatter=sct),
                          {'da': geo_slot}))

    def ds_tof(unit, dtype):
        da = make_da(unit, dtype, False)
        return sc.Dataset({'a': da, 'b': da * 2.0})
    ds_slot = [(f'{u}/{dt}', ui + 1, di + 1, lambda u=u, dt=dt: ds_tof(u, dt))
               for ui, u in enumerate(('us', 'ns')) for di, dt in enumerate(NUM_DT)]
    C.append(CallSpec('convert(Dataset, tof->wavelength)', lambda data: scn.convert(data, 'tof', 'wavelength', scatter=True),
                      {'data': ds_slot}))

    # ---- chopper
    from scippneutron.chopper import extract_chopper_from_nexus

    def nexus_group(unit, as_log=True):
        deg = lambda v: sc.array(dims=['slit'], values=v, unit='deg').to(unit=unit)  # noqa: E731
        log = sc.DataGroup({'value': sc.DataArray(sc.array(dims=['time'], values=[14.0], unit='Hz'),
                                                  coords={'time': sc.array(dims=['time'], values=[0], unit='s')})})
        return {'type': 'Chopper type single', 'position': vec([0.0, 0.0, 5.0]),
                'rotation_speed': log if as_log else sc.scalar(14.0, unit='Hz'),
                'beam_position': sc.scalar(30.0, unit='deg').to(unit=unit), 'phase': sc.scalar(15.0, unit='deg').to(unit=unit),
                'slit_edges': deg([0.0, 40.0, 90.0, 130.0]), 'slit_height': sc.scalar(0.1, unit='m'),
                'radius': sc.scalar(0.5, unit='m')}
    nx_slot = [(u, i + 1, 1, lambda u=u: nexus_group(u)) for i, u in enumerate(('deg', 'rad'))]
    C.append(CallSpec('chopper.extract_chopper_from_nexus', extract_chopper_from_nexus, {'chopper': nx_slot},
                      positional=True))
    C.append(CallSpec('chopper.DiskChopper.from_nexus', lambda chopper: DiskChopper.from_nexus(
        extract_chopper_from_nexus(chopper)),
        {'chopper': [(u, i + 1, 1, lambda u=u: nexus_group(u, as_log=False)) for i, u in enumerate(('deg', 'rad'))]}))
    C.append(CallSpec('chopper.DiskChopper.from_nexus (post-processed group)', DiskChopper.from_nexus,
                      {'chopper': [(u, i + 1, 1, lambda u=u: extract_chopper_from_nexus(nexus_group(u, as_log=False)))
                                   for i, u in enumerate(('deg', 'rad'))]}, positional=True))

    def mk_disk(unit, dtype):
        ang = lambda v: sc.array(dims=['slit'], values=v, unit='deg').to(unit=unit).astype(dtype)  # noqa: E731
        return DiskChopper(axle_position=vec([0.0, 0.0, 5.0]), frequency=sc.scalar(28.0, unit='Hz'),
                           beam_position=sc.scalar(30.0, unit='deg').to(unit=unit).astype(dtype),
                           phase=sc.scalar(15.0, unit='deg').to(unit=unit).astype(dtype),
                           slit_begin=ang([0.0, 90.0]), slit_end=ang([40.0, 130.0]),
                           slit_height=sc.scalar(0.1, unit='m'), radius=sc.scalar(0.5, unit='m'))
    disk_slot = [(f'{u}/{dt}', ui + 1, di + 1, lambda u=u, dt=dt: mk_disk(u, dt))
                 for ui, u in enumerate(('rad', 'deg')) for di, dt in enumerate(FLOAT_DT)]
    pf = [(f'{u}/{dt}', ui + 1, di + 1, lambda u=u, dt=dt: sc.scalar(14.0, unit='Hz').to(unit=u).astype(dt))
          for ui, u in enumerate(('Hz', 'kHz')) for di, dt in enumerate(FLOAT_DT)]
    for meth in ('time_offset_open', 'time_offset_close', 'open_duration'):
        C.append(CallSpec(f'chopper.DiskChopper.{meth}',
                          lambda disk, pulse_frequency, m=meth: getattr(disk, m)(pulse_frequency=pulse_frequency),
                          {'disk': disk_slot, 'pulse_frequency': pf}))
    C.append(CallSpec('chopper.DiskChopper.time_offset_angle_at_beam',
                      lambda disk, angle: disk.time_offset_angle_at_beam(angle=angle),
                      {'disk': disk_slot, 'angle': slot('angle', dtypes=FLOAT_DT)}))
    C.append(CallSpec('tof.chopper_cascade.Chopper.from_disk_chopper',
                      lambda disk, pulse_frequency: cc.Chopper.from_disk_chopper(disk, pulse_frequency, 2),
                      {'disk': disk_slot, 'pulse_frequency': pf}))

    def series(kind):
        n = 8
        y = sc.array(dims=['time'], values=[1.0, 1.0, 1.0, 5.0, 5.0, 5.0, 5.0, 2.0], unit='Hz')
        if kind == 'float':
            x = sc.arange('time', float(n), unit='s')
        elif kind == 'int':
            x = sc.arange('time', n, unit='s', dtype='int64')
        else:
            x = sc.epoch(unit='ns') + sc.arange('time', n, unit='ns', dtype='int64')
        return sc.DataArray(y, coords={'time': x})
    ser_slot = [(k, i + 1, 1, lambda k=k: series(k)) for i, k in enumerate(('float', 'int', 'datetime'))]
    atol_slot = [(u, i + 1, 1, lambda u=u: sc.scalar(0.5, unit=u)) for i, u in enumerate(('Hz/s', 'Hz/ns', 'kHz/s'))]
    C.append(CallSpec('chopper.filtering.find_plateaus',
                      lambda data, atol: filtering.find_plateaus(data, atol=atol, min_n_points=2),
                      {'data': ser_slot, 'atol': atol_slot}))
    C.append(CallSpec('chopper.filtering.collapse_plateaus',
                      lambda plateaus: filtering.collapse_plateaus(plateaus, coord='time'),
                      {'plateaus': [(k, i + 1, 1, lambda k=k: filtering.find_plateaus(
                          series(k), atol=sc.scalar(0.5, unit='Hz/s' if k != 'datetime' else 'Hz/ns'), min_n_points=2))
                          for i, k in enumerate(('float', 'int', 'datetime'))]}))
    C.append(CallSpec('chopper.filtering.filter_in_phase',
                      lambda frequency, reference, rtol: filtering.filter_in_phase(frequency, reference=reference, rtol=rtol),
                      {'frequency': [(k, i + 1, 1, lambda k=k: series(k)) for i, k in enumerate(('float', 'int'))],
                       'reference': [('Hz', 1, 1, lambda: sc.scalar(1.0, unit='Hz'))],
                       'rtol': [('dimless', 1, 1, lambda: sc.scalar(0.1))]}))

    # ---- tof.chopper_cascade
    C.append(CallSpec('tof.chopper_cascade.wavelength_to_inverse_velocity', cc.wavelength_to_inverse_velocity,
                      {'wavelength': slot('wavelength', dtypes=FLOAT_DT)}, positional=True))
    C.append(CallSpec('tof.chopper_cascade.propagate_times', cc.propagate_times,
                      {'time': slot('tof', dtypes=FLOAT_DT, units=('s', 'ms', 'us')),
                       'wavelength': slot('wavelength', dtypes=('float64',)),
                       'distance': slot('length', dtypes=('float64',), units=('m', 'mm'), scalar=True)}))
    tslot = [(f'{u}', i + 1, 1, lambda u=u: sc.array(dims=['vertex'], values=[0.0, 0.003, 0.003, 0.0], unit='s').to(unit=u))
             for i, u in enumerate(('s', 'ms'))]
    wslot = [(f'{u}', i + 1, 1, lambda u=u: sc.array(dims=['vertex'], values=[1.0, 1.0, 10.0, 10.0], unit='angstrom').to(unit=u))
             for i, u in enumerate(('angstrom', 'nm'))]
    dslot = [(u, i + 1, 1, lambda u=u: sc.scalar(5.0, unit='m').to(unit=u)) for i, u in enumerate(('m', 'mm'))]
    C.append(CallSpec('tof.chopper_cascade.Subframe', cc.Subframe, {'time': tslot, 'wavelength': wslot}))
    C.append(CallSpec('tof.chopper_cascade.Subframe.propagate_by',
                      lambda sub, distance: sub.propagate_by(distance),
                      {'sub': [('sf', 1, 1, lambda: cc.Subframe(tslot[0][3](), wslot[0][3]()))], 'distance': dslot}))

    def mk_frames():
        return cc.FrameSequence.from_source_pulse(
            time_min=sc.scalar(0.0, unit='s'), time_max=sc.scalar(0.003, unit='s'),
            wavelength_min=sc.scalar(1.0, unit='angstrom'), wavelength_max=sc.scalar(10.0, unit='angstrom'))

    def mk_chopper(u):
        return cc.Chopper(distance=sc.scalar(5.0, unit='m').to(unit=u),
                          time_open=sc.array(dims=['cutout'], values=[0.004, 0.010], unit='s'),
                          time_close=sc.array(dims=['cutout'], values=[0.008, 0.012], unit='s'))
    C.append(CallSpec('tof.chopper_cascade.FrameSequence.from_source_pulse',
                      lambda **kw: cc.FrameSequence.from_source_pulse(**kw),
                      {'time_min': [(u, i + 1, 1, lambda u=u: sc.scalar(0.0, unit=u)) for i, u in enumerate(('s', 'ms'))],
                       'time_max': [(u, i + 1, 1, lambda u=u: sc.scalar(0.003, unit='s').to(unit=u)) for i, u in enumerate(('s', 'ms'))],
                       'wavelength_min': [(u, i + 1, 1, lambda u=u: sc.scalar(1.0, unit='angstrom').to(unit=u)) for i, u in enumerate(('angstrom', 'nm'))],
                       'wavelength_max': [(u, i + 1, 1, lambda u=u: sc.scalar(10.0, unit='angstrom').to(unit=u)) for i, u in enumerate(('angstrom', 'nm'))]}))
    C.append(CallSpec('tof.chopper_cascade.FrameSequence.chop',
                      lambda frames, chopper: frames.chop([chopper]),
                      {'frames': [('fs', 1, 1, mk_frames)],
                       'chopper': [(u, i + 1, 1, lambda u=u: mk_chopper(u)) for i, u in enumerate(('m', 'mm'))]}))
    C.append(CallSpec('tof.chopper_cascade.FrameSequence.propagate_to',
                      lambda frames, distance: frames.propagate_to(distance),
                      {'frames': [('fs', 1, 1, lambda: mk_frames().chop([mk_chopper('m')]))], 'distance': dslot}))
    C.append(CallSpec('tof.chopper_cascade.Frame.chop / bounds / subbounds',
                      lambda frame, chopper: (frame.chop(chopper).bounds(), frame.chop(chopper).subbounds()),
                      {'frame': [('f', 1, 1, lambda: mk_frames()[0])],
                       'chopper': [(u, i + 1, 1, lambda u=u: mk_chopper(u)) for i, u in enumerate(('m', 'mm'))]}))

    # ---- peaks
    def spectrum(unit, dtype, with_var=True):
        x = sc.linspace('x', 0.0, 10.0, 101, unit='angstrom').to(unit=unit).astype(dtype)
        xv = np.linspace(0.0, 10.0, 101)
        y = 50 * np.exp(-0.5 * ((xv - 4.0) / 0.3) ** 2) + 2 + 0.1 * xv + np.sin(xv * 37) * 0.3
        return sc.DataArray(sc.array(dims=['x'], values=y, variances=np.full_like(y, 0.3) if with_var else None,
                                     unit='counts').astype(dtype),
                            coords={'x': x})
    spec_slot = [(f'{u}/{dt}', ui + 1, di + 1, lambda u=u, dt=dt: spectrum(u, dt))
                 for ui, u in enumerate(('angstrom', 'nm')) for di, dt in enumerate(('float64',))]
    xs_slot = [(f'{u}/{dt}', ui + 1, di + 1, lambda u=u, dt=dt: spectrum(u, dt).coords['x'])
               for ui, u in enumerate(('angstrom', 'nm')) for di, dt in enumerate(FLOAT_DT)]

    def par(v, u):
        return [(u, 1, 1, lambda: sc.scalar(v, unit=u))]

    def width(u='angstrom'):
        # the width of a peak: an ordinary value, the documented lower bound 0 (param_bounds: scale in (0, inf)) and a
        # value below any internal clamp - boundary values are where an implementation is tempted to "repair" its input
        return [(u, 1, 1, lambda: sc.scalar(0.3, unit=u)), (f'{u} (lower bound 0)', 2, 1, lambda: sc.scalar(0.0, unit=u)),
                (f'{u} (1e-16)', 3, 1, lambda: sc.scalar(1e-16, unit=u))]
    for cls, nm in ((pm.GaussianModel, 'Gaussian'), (pm.LorentzianModel, 'Lorentzian')):
        C.append(CallSpec(f'peaks.{nm}Model.__call__',
                          lambda x, amplitude, loc, scale, c=cls: c()(x, amplitude=amplitude, loc=loc, scale=scale),
                          {'x': xs_slot[:2] + xs_slot[2:3], 'amplitude': par(3.0, 'counts*angstrom'),
                           'loc': par(4.0, 'angstrom'), 'scale': width()}))
        C.append(CallSpec(f'peaks.{nm}Model.guess', lambda data, c=cls: c().guess(data), {'data': spec_slot}))
        C.append(CallSpec(f'peaks.{nm}Model.fwhm', lambda scale, c=cls: c().fwhm({'scale': scale, 'loc': scale, 'amplitude': scale}),
                          {'scale': par(0.3, 'angstrom')}))
    C.append(CallSpec('peaks.PseudoVoigtModel.__call__',
                      lambda x, amplitude, loc, scale, fraction: pm.PseudoVoigtModel()(
                          x, amplitude=amplitude, loc=loc, scale=scale, fraction=fraction),
                      {'x': xs_slot[:2], 'amplitude': par(3.0, 'counts*angstrom'), 'loc': par(4.0, 'angstrom'),
                       'scale': width(), 'fraction': par(0.4, 'dimensionless')}))
    C.append(CallSpec('peaks.PseudoVoigtModel.guess', lambda data: pm.PseudoVoigtModel().guess(data), {'data': spec_slot}))
    C.append(CallSpec('peaks.PolynomialModel.__call__',
                      lambda x, a0, a1, a2: pm.PolynomialModel(degree=2)(x, a0=a0, a1=a1, a2=a2),
                      {'x': xs_slot[:2], 'a0': par(1.0, 'counts'), 'a1': par(0.5, 'counts/angstrom'),
                       'a2': par(0.1, 'counts/angstrom^2')}))
    C.append(CallSpec('peaks.PolynomialModel.guess', lambda data: pm.PolynomialModel(degree=1).guess(data), {'data': spec_slot}))
    C.append(CallSpec('peaks.CompositeModel.__call__',
                      lambda x, amplitude, loc, scale, a0, a1: (pm.GaussianModel() + pm.PolynomialModel(degree=1))(
                          x, amplitude=amplitude, loc=loc, scale=scale, a0=a0, a1=a1),
                      {'x': xs_slot[:1], 'amplitude': par(3.0, 'counts*angstrom'), 'loc': par(4.0, 'angstrom'),
                       'scale': width(), 'a0': par(1.0, 'counts'), 'a1': par(0.5, 'counts/angstrom')}))
    est = [(u, i + 1, 1, lambda u=u: sc.array(dims=['x'], values=[4.0], unit='angstrom').to(unit=u)) for i, u in enumerate(('angstrom', 'nm'))]
    win = [(u, i + 1, 1, lambda u=u: sc.scalar(3.0, unit='angstrom').to(unit=u)) for i, u in enumerate(('angstrom', 'nm'))]
    C.append(CallSpec('peaks.fit_peaks', lambda data, peak_estimates, windows: fit_peaks(
        data, peak_estimates=peak_estimates, windows=windows, background='linear', peak='gaussian'),
        {'data': spec_slot[:1], 'peak_estimates': est[:1], 'windows': win[:1]}))
    C.append(CallSpec('peaks.fit_peaks (other units)', lambda data, peak_estimates, windows: fit_peaks(
        data, peak_estimates=peak_estimates, windows=windows, background='linear', peak='gaussian'),
        {'data': spec_slot[1:2], 'peak_estimates': est[1:], 'windows': win[1:]}))

    def fitted():
        d = spectrum('angstrom', 'float64')
        return fit_peaks(d, peak_estimates=est[0][3](), windows=win[0][3](), background='linear', peak='gaussian')
    C.append(CallSpec('peaks.remove_peaks', lambda data, fit_results: remove_peaks(data, fit_results),
                      {'data': [('novar', 1, 1, lambda: spectrum('angstrom', 'float64', with_var=False))],
                       'fit_results': [('fits', 1, 1, fitted)]}))

    # ---- absorption
    def cyl(u, dt='float64'):
        return Cylinder(symmetry_line=sc.vector([0.0, 1.0, 0.0]),
                        center_of_base=sc.vector([0.0, -0.5, 0.0], unit='mm').to(unit=u),
                        radius=sc.scalar(1.0, unit='mm').to(unit=u), height=sc.scalar(1.0, unit='mm').to(unit=u))
    cyl_slot = [(u, i + 1, 1, lambda u=u: cyl(u)) for i, u in enumerate(('mm', 'm'))]
    C.append(CallSpec('absorption.Cylinder.beam_intersection',
                      lambda c, start_point, direction: c.beam_intersection(start_point, direction),
                      {'c': cyl_slot, 'start_point': [(u, i + 1, 1, lambda u=u: sc.vectors(dims=['p'], values=[[0.1, 0.0, 0.2], [5.0, 0.0, 0.0]], unit='mm').to(unit=u))
                                                     for i, u in enumerate(('mm', 'm'))],
                       'direction': fixed('dir', lambda: sc.vector([1.0, 0.0, 0.0]))}))
    C.append(CallSpec('absorption.Cylinder.quadrature', lambda c, kind: c.quadrature(kind),
                      {'c': cyl_slot}, extra={'kind': 'cheap'}))
    C.append(CallSpec('absorption.Cylinder.quadrature(medium)', lambda c, kind: c.quadrature(kind),
                      {'c': cyl_slot[:1]}, extra={'kind': 'medium'}))

    def material():
        return Material(scattering_params=ScatteringParams.for_isotope('V'),
                        effective_sample_number_density=sc.scalar(0.07, unit='1/angstrom**3'))
    C.append(CallSpec('absorption.Material.attenuation_coefficient',
                      lambda m, wavelength: m.attenuation_coefficient(wavelength),
                      {'m': [('V', 1, 1, material)], 'wavelength': slot('wavelength', dtypes=FLOAT_DT)}))
    C.append(CallSpec('absorption.compute_transmission_map',
                      lambda shape, mat, beam_direction, wavelength, detector_position: compute_transmission_map(
                          shape, mat, beam_direction=beam_direction, wavelength=wavelength,
                          detector_position=detector_position, quadrature_kind='cheap'),
                      {'shape': cyl_slot, 'mat': [('V', 1, 1, material)],
                       'beam_direction': fixed('dir', lambda: sc.vector([0.0, 0.0, 1.0])),
                       'wavelength': [(u, i + 1, 1, lambda u=u: sc.linspace('wavelength', 0.5, 4.0, 3, unit='angstrom').to(unit=u)) for i, u in enumerate(('angstrom', 'nm'))],
                       'detector_position': [(u, i + 1, 1, lambda u=u: sc.vectors(dims=['det'], values=[[0.0, 0.0, 1.0], [1.0, 0.0, 0.0], [0.0, 1.0, 0.0]], unit='m').to(unit=u)) for i, u in enumerate(('m', 'mm'))]}))

    # ---- io
    def xye_da(dt, unit):
        return sc.DataArray(sc.array(dims=['tof'], values=[1.0, 2.0, 3.0], variances=[0.1, 0.2, 0.3], unit='counts').astype(dt),
                            coords={'tof': sc.array(dims=['tof'], values=[10.0, 20.0, 30.0], unit=unit)})
    C.append(CallSpec('io.save_xye', lambda da: save_xye(io.StringIO(), da),
                      {'da': [(f'{dt}/{u}', ui + 1, di + 1, lambda dt=dt, u=u: xye_da(dt, u))
                              for ui, u in enumerate(('us', 'ms')) for di, dt in enumerate(FLOAT_DT)]}))
    C.append(CallSpec('io.cif.CIF.with_reduced_powder_data + save',
                      lambda da: cif.CIF('x').with_reduced_powder_data(da).save(io.StringIO()),
                      {'da': [('us', 1, 1, lambda: xye_da('float64', 'us'))]}))

    def cal():
        return sc.DataArray(sc.array(dims=['cal'], values=[3.4, 0.2], variances=[0.01, 0.02]),
                            coords={'power': sc.array(dims=['cal'], values=[0, 1])})
    C.append(CallSpec('io.cif.CIF.with_powder_calibration + save',
                      lambda c: cif.CIF('x').with_powder_calibration(c).save(io.StringIO()), {'c': [('cal', 1, 1, cal)]}))
    C.append(CallSpec('io.cif.Loop + write',
                      lambda a, b: cif.Loop({'x.a': a, 'x.b': b}).write(io.StringIO()),
                      {'a': [('f', 1, 1, lambda: sc.array(dims=['r'], values=[1.0, 2.0], variances=[0.1, 0.1]))],
                       'b': [('s', 1, 1, lambda: sc.array(dims=['r'], values=['p q', "it's"]))]}))
    C.append(CallSpec('io.cif.Chunk + write', lambda d: cif.Chunk(d).write(io.StringIO()),
                      {'d': [('dict', 1, 1, lambda: {'a.b': sc.scalar(1.5, variance=0.04, unit='m'), 'a.c': 'text'})]}))
    # the `schema` argument of the CIF objects (CIFSchema | Iterable[CIFSchema]) in every container a caller may hold
    my_schema = cif.CIFSchema(name='myCIF', version='1.0', location='https://example.org/my.dic')
    schema_slot = [('single', 1, 1, lambda: cif.PD_SCHEMA), ('list', 2, 1, lambda: [cif.PD_SCHEMA, my_schema]),
                   ('set', 3, 1, lambda: {cif.PD_SCHEMA, my_schema}), ('set with core', 4, 1, lambda: {cif.CORE_SCHEMA, my_schema}),
                   ('tuple', 5, 1, lambda: (my_schema,))]

    def with_schema(schema):
        ch = cif.Chunk({'a.b': 'x'}, schema=schema)
        lo = cif.Loop({'x.a': sc.array(dims=['r'], values=[1.0, 2.0])}, schema=schema)
        bl = cif.Block('b', [ch, lo], schema=schema)
        cif.save_cif(io.StringIO(), bl)
        return sorted(s_.name for s_ in bl.schema)
    C.append(CallSpec('io.cif.Chunk / Loop / Block(schema=...) + save_cif', with_schema, {'schema': schema_slot}))
    C += _sqw_calls()
    return C


def _sqw_calls():
    from scippneutron.io import sqw as S

    def experiments(angle_unit, e_unit):
        return [S.SqwIXExperiment(
            run_id=i, efix=sc.scalar(1.2, unit='meV').to(unit=e_unit), emode=S.EnergyMode.direct,
            en=sc.array(dims=['energy_transfer'], values=[3.0, 4.0], unit='meV').to(unit=e_unit),
            psi=sc.scalar(1.2, unit='rad').to(unit=angle_unit), u=sc.vector([0.0, 1.0, 0.0]),
            v=sc.vector([1.0, 1.0, 0.0]), omega=sc.scalar(1.4, unit='rad').to(unit=angle_unit),
            dpsi=sc.scalar(0.1, unit='rad').to(unit=angle_unit), gl=sc.scalar(0.3, unit='rad').to(unit=angle_unit),
            gs=sc.scalar(-0.5, unit='rad').to(unit=angle_unit), filename=f'run{i}.nxspe', filepath='/data') for i in range(2)]

    def pixels(qunit, eunit, dt):
        n = 7
        return sc.DataArray(
            sc.array(dims=['obs'], values=np.arange(n) + 0.5, variances=np.arange(n) + 1.0, unit='count').astype(dt),
            coords={'u1': sc.arange('obs', 0.0, n, unit='1/angstrom').to(unit=qunit).astype(dt),
                    'u2': sc.arange('obs', 1.0, n + 1.0, unit='1/angstrom').to(unit=qunit).astype(dt),
                    'u3': sc.arange('obs', 2.0, n + 2.0, unit='1/angstrom').to(unit=qunit).astype(dt),
                    'u4': (sc.arange('obs', 0.0, n, unit='meV') * 2).to(unit=eunit).astype(dt),
                    'idet': sc.arange('obs', 0, n, unit=None) // sc.index(3),
                    'irun': sc.arange('obs', 0, n, unit=None) // sc.index(4),
                    'ien': sc.arange('obs', 0, n, unit=None) // sc.index(5)})

    def build(pix, exps):
        b = S.Sqw.build(io.BytesIO(), title='t')
        b = b.add_pixel_data(pix, experiments=exps)
        b.create(chunk_size=3)
    pix_slot = [(f'{q}/{e}/{dt}', qi * 2 + ei + 1, di + 1, lambda q=q, e=e, dt=dt: pixels(q, e, dt))
                for qi, q in enumerate(('1/angstrom', '1/nm')) for ei, e in enumerate(('meV', 'ueV'))
                for di, dt in enumerate(('float64', 'float32'))]
    exp_slot = [(f'{a}/{e}', ai * 2 + ei + 1, 1, lambda a=a, e=e: experiments(a, e))
                for ai, a in enumerate(('rad', 'deg')) for ei, e in enumerate(('meV', 'eV'))]
    def sample(unit):
        return S.SqwIXSample(name='s', lattice_spacing=sc.vector([2.86, 2.86, 2.86], unit='angstrom').to(unit=unit),
                             lattice_angle=sc.vector([90.0, 90.0, 90.0], unit='deg'))

    def build_bo(pix, exps, samp, bo):
        # every byte order: a writer that converts to the file's byte order must not do so in the caller's buffers
        b = S.Sqw.build(io.BytesIO(), title='t', byteorder=bo)
        b = b.add_default_sample(samp).add_pixel_data(pix, experiments=exps)
        b.create(chunk_size=4)

    samp_slot = [(u, i + 1, 1, lambda u=u: sample(u)) for i, u in enumerate(('angstrom', 'nm'))]
    out = [CallSpec('io.sqw builder add_pixel_data + create', build, {'pix': pix_slot, 'exps': exp_slot})]
    for bo in ('native', 'little', 'big'):
        out.append(CallSpec(f'io.sqw builder (byteorder={bo}) add_default_sample + add_pixel_data + create',
                            lambda pix, exps, samp, bo=bo: build_bo(pix, exps, samp, bo),
                            {'pix': pix_slot[:3], 'exps': exp_slot[:2] + exp_slot[3:], 'samp': samp_slot}))
    return out


def combos(call: CallSpec, rng, cap: int):
    names = list(call.slots)
    lists = [call.slots[n] for n in names]
    total = 1
    for lst in lists:
        total *= len(lst)
    if total <= cap:
        it = list(itertools.product(*lists))
    else:
        seen = set()
        it = []
        # always include the "all first" and "all same index" diagonals, then random
        for i in range(max(len(lst) for lst in lists)):
            it.append(tuple(lst[min(i, len(lst) - 1)] for lst in lists))
        while len(it) < cap:
            c = tuple(rng.randrange(len(lst)) for lst in lists)
            if c in seen:
                continue
            seen.add(c)
            it.append(tuple(lst[i] for lst, i in zip(lists, c, strict=True)))
    return names, it
