SPECIFICATION Spec
CONSTANTS
  NDigits = 5
  Bug = "plain_sum"
INVARIANT DetectsTransposition
CHECK_DEADLOCK FALSE
