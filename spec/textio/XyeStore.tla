------------------------------ MODULE XyeStore ------------------------------
(* History (HARDENING item 6): several data sets are saved to and loaded from a small     *)
(* number of paths in any order.  A file holds what the LAST save to its path wrote, and   *)
(* load_xye returns exactly that - with the names and units of THIS request - whatever    *)
(* was saved to or loaded from this or any other path before.                             *)
(*   Bug = "cache"  negative control: parsed tables are kept per path and returned again   *)
(*                  (the seeded change C15-load-cache-by-path)                             *)
(*   Bug = "append" negative control: a save to an existing path appends to the file       *)
EXTENDS XyeDefs

CONSTANTS NPaths, MaxOps, Bug

VARIABLES store,   \* path -> [ds, lines]   (ds = 0: nothing saved there yet)
          cache,   \* path -> result of the first load (only used by the negative control)
          nops,
          last     \* [p, ds, res, req] of the most recent load (ds = what the path held then), p = 0: none yet
vars == <<store, cache, nops, last>>

(* three representable data sets with different numbers of rows / chosen coordinates *)
DS(k) == [hasvar |-> TRUE, ndim |-> 1, masks |-> FALSE, coords |-> {0, 1}, arg |-> IF k = 2 THEN 1 ELSE -1,
          edges |-> {}, nrows |-> k, header |-> IF k = 3 THEN <<CA, CLF, CDIG>> ELSE <<-1>>]
DataSets == 1..3
Reqs == { [dim |-> "x", cname |-> "", unit |-> "counts", cunit |-> "us"],
          [dim |-> "tof", cname |-> "t", unit |-> "<none>", cunit |-> "ms"] }
NoRes == [ok |-> FALSE, rows |-> <<>>, meta |-> [dim |-> "", cname |-> "", unit |-> "", cunit |-> ""]]

Init == /\ store = [p \in 1..NPaths |-> [ds |-> 0, lines |-> <<>>]]
        /\ cache = [p \in 1..NPaths |-> NoRes]
        /\ nops = 0
        /\ last = [p |-> 0, ds |-> 0, res |-> NoRes, req |-> CHOOSE r \in Reqs : TRUE]

SaveTo(p, k) ==
    /\ nops < MaxOps
    /\ LET r == Save(DS(k), "none") IN
       /\ r.k = "file"
       /\ store' = [store EXCEPT ![p] = [ds |-> k, lines |-> IF Bug = "append" THEN store[p].lines \o r.lines
                                                             ELSE r.lines]]
    /\ nops' = nops + 1
    /\ UNCHANGED <<cache, last>>

LoadFrom(p, req) ==
    /\ nops < MaxOps
    /\ store[p].ds # 0
    /\ LET fresh == Load(store[p].lines)
           res == [ok |-> fresh.ok, rows |-> fresh.rows, meta |-> ExpectedMeta(req)]
           ret == IF Bug = "cache" /\ cache[p].ok THEN cache[p] ELSE res
       IN /\ last' = [p |-> p, ds |-> store[p].ds, res |-> ret, req |-> req]
          /\ cache' = [cache EXCEPT ![p] = IF cache[p].ok THEN cache[p] ELSE res]
    /\ nops' = nops + 1
    /\ UNCHANGED store

Next == \/ \E p \in 1..NPaths, k \in DataSets : SaveTo(p, k)
        \/ \E p \in 1..NPaths, req \in Reqs : LoadFrom(p, req)
Spec == Init /\ [][Next]_vars

-----------------------------------------------------------------------------
LoadReturnsLastSaved ==
    last.p # 0 =>
      /\ last.res.ok
      /\ last.res.rows = Expected(DS(last.ds))
      /\ last.res.meta = ExpectedMeta(last.req)
FilesWellFormed ==
    \A p \in 1..NPaths : store[p].ds # 0 => WellFormed(store[p].lines, DS(store[p].ds).nrows)
TypeOK == nops \in 0..MaxOps /\ \A p \in 1..NPaths : store[p].ds \in 0..3
=============================================================================
