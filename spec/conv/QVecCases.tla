------------------------------ MODULE QVecCases ------------------------------
(* Constant-level export of C08 replay cases (spec -> code).                               *)
(*  "q"   : beams b1, b2 (with integer norms), a quaternion q; exact e_i - e_f as           *)
(*          numerator/denominator, the rotated beams M b1, M b2 and the rotated direction.  *)
(*  "hkl" : goniometer quaternion qr, orientation quaternion qu, integer B, integer hkl;    *)
(*          A = MR MU B, D = NR NU, Q_lab/(2 pi) = A hkl / D, U B numerator.                *)
EXTENDS QVecDefs, TLC, Json, IOUtils, SequencesExt

CONSTANTS BeamSeeds, Quats, Bs, Hkls

NormOf(v) == CHOOSE n \in 1..20 : n * n = Norm2(v)
SignedPermsOf(v) == { [v |-> MatVec(M, v), n |-> NormOf(v)] : M \in Rot24 \cup Refl24 }
Beams == UNION { SignedPermsOf(v) : v \in BeamSeeds }

QCase(b1, b2, q) ==
    LET r1 == RotBeam(q, b1)  r2 == RotBeam(q, b2) IN
    [kind |-> "q", b1 |-> b1.v, n1 |-> b1.n, b2 |-> b2.v, n2 |-> b2.n, quat |-> q,
     qn |-> QDirN(b1, b2), qd |-> QDirD(b1, b2), four_sin2 |-> FourSin2(b1, b2),
     dot |-> Dot(b1.v, b2.v), cr2 |-> Norm2(Cross(b1.v, b2.v)),
     r1 |-> r1.v, rn1 |-> r1.n, r2 |-> r2.v, rn2 |-> r2.n,
     rqn |-> QDirN(r1, r2), rqd |-> QDirD(r1, r2), m |-> QuatMat(q), nq |-> QuatN(q)]
(* every pair of beams, with one quaternion per pair chosen round-robin (all quaternions   *)
(* occur; the full product is covered by the model checker)                                *)
QuatSeq == SetToSeq(Quats)
BeamSeq == SetToSeq(Beams)
QCases == { QCase(BeamSeq[i], BeamSeq[j], QuatSeq[((i * 7 + j) % Len(QuatSeq)) + 1]) :
            i \in 1..Len(BeamSeq), j \in 1..Len(BeamSeq) }

HCase(qr, qu, B, h) ==
    [kind |-> "hkl", qr |-> qr, qu |-> qu, B |-> B, h |-> h,
     mr |-> QuatMat(qr), nr |-> QuatN(qr), mu |-> QuatMat(qu), nu |-> QuatN(qu),
     ub |-> UBNum(qu, B), A |-> RUBNum(qr, qu, B), D |-> RUBDen(qr, qu),
     qlab |-> QLabNum(qr, qu, B, h), det |-> Det3(RUBNum(qr, qu, B))]
HCases == { HCase(qr, qu, B, h) : qr \in Quats, qu \in Quats, B \in Bs, h \in Hkls }

(* graph route: beams -> Q -> hkl, lambda * hkl exact (every R, U, B with a few beam pairs)   *)
GCase(qr, qu, B, b1, b2) ==
    [kind |-> "graph", qr |-> qr, qu |-> qu, B |-> B, b1 |-> b1.v, n1 |-> b1.n, b2 |-> b2.v, n2 |-> b2.n,
     x |-> HklTimesLambda(qr, qu, B, b1, b2), qdir |-> QDir(b1, b2)]
GCases == { GCase(qr, qu, B, b1, b2) : qr \in Quats, qu \in Quats, B \in Bs, b1 \in GInc, b2 \in GSc }

Q6 == { <<1, 0, 0, 0>>, <<1, 1, 0, 0>>, <<1, 1, 1, 1>>, <<2, 1, 0, 0>>, <<1, 1, 1, 0>>, <<0, 1, -1, 2>> }
Q12 == Q6 \cup { <<1, 0, 0, 1>>, <<0, 0, 1, 0>>, <<2, -1, 1, 0>>, <<1, 2, 2, 0>>, <<1, -1, 1, -1>>, <<3, 1, 1, 1>> }
Seeds_quick == { <<1, 0, 0>>, <<1, 2, 2>>, <<0, 3, 4>> }
Seeds_thorough == Seeds_quick \cup { <<2, 3, 6>>, <<1, 4, 8>> }
BsAll == { <<<<1, 0, 0>>, <<0, 1, 0>>, <<0, 0, 1>>>>,
           <<<<1, 0, 0>>, <<0, 2, 0>>, <<0, 0, 3>>>>,
           <<<<2, 1, 0>>, <<0, 3, 1>>, <<0, 0, 4>>>>,
           <<<<1, -1, 2>>, <<0, 2, -3>>, <<0, 0, 5>>>>,
           <<<<8, 1, 1>>, <<0, 1, 1>>, <<0, 0, 1>>>>,
           <<<<1, 2, 3>>, <<4, 5, 6>>, <<7, 8, 10>>>> }
C2 == -1..1
H_quick == { <<1, 0, 0>>, <<0, 1, 0>>, <<0, 0, 1>>, <<1, 1, 1>>, <<-1, 2, 0>>, <<2, -1, 3>>, <<0, 0, 0>> }
H_thorough == { h \in C2 \X C2 \X C2 : TRUE } \cup { <<2, -1, 3>>, <<-3, 5, 4>> }

ASSUME ndJsonSerialize(IOEnv.OUT_FILE, SetToSeq(QCases) \o SetToSeq(HCases) \o SetToSeq(GCases))
ASSUME PrintT(<<"CASES", Cardinality(QCases), Cardinality(HCases), Cardinality(GCases)>>)
=============================================================================
