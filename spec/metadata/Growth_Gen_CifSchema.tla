------------------------ MODULE Growth_Gen_CifSchema ------------------------
(* spec -> code: every block with any own declaration and up to two items carrying one of    *)
(* five declarations, with the set of schemas its conformance loop must list.                *)
EXTENDS Growth_CifSchemaDefs, TLC, Json, IOUtils, SequencesExt

ItemDecls == {NoDecl, Decl({"core"}), Decl({"pd"}), Decl({"x"}), Decl({"pd", "x"})}
ItemSeqs == {<<>>} \cup {<<a>> : a \in ItemDecls} \cup {<<a, b>> : a \in ItemDecls, b \in ItemDecls}
J(d) == [declared |-> d.declared, set |-> SetToSeq(d.set)]
Rows == {[own |-> J(o), items |-> [j \in 1..Len(its) |-> J(its[j])],
          rows |-> SetToSeq(BlockSchema([own |-> o, items |-> its]))] : o \in Decls, its \in ItemSeqs}
ASSUME ndJsonSerialize(IOEnv.SCHEMA_CASES, SetToSeq(Rows))
ASSUME PrintT(<<"GEN", Cardinality(Rows)>>)

VARIABLE x
Init == x = 0
Next == x' = x
=============================================================================
