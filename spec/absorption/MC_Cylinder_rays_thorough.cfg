SPECIFICATION Spec
CONSTANTS
  AxisQuats <- MC_AxisQuatsThorough
  Bases <- MC_OneBase
  Radii = {1, 2}
  Heights = {1, 3}
  Points <- MC_OnePoint
  CubeQuats <- MC_CubeQuats
  SkewQuats <- MC_SkewQuats
  Shifts <- MC_Shifts
  MaxMoves = 0
  Starts <- MC_StartsThorough
  Dirs <- MC_DirsThorough
  K = 2
  J = 24
  Bug = "none"
INVARIANT FrameOK
INVARIANT InsideInvariant
INVARIANT ChordSandwich
INVARIANT LengthIsMeasure
INVARIANT ClassOK
CHECK_DEADLOCK FALSE
