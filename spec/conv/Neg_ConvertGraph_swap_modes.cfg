SPECIFICATION Spec
CONSTANTS
  Heads <- AllHeads
  Masks <- MC_NegMasks
  Bug = "swap_modes"
INVARIANT OutcomeIsDeclarative
