--------------------------- MODULE ChopperCascade ---------------------------
(* Property C11: the subframe polygons reported after a chopper cascade are exactly the     *)
(* transmitted neutrons.  One state holds BOTH layers for the same history:                  *)
(*   alive          the grid neutrons that are still in the beam   (layer a, the physics)    *)
(*   frame          the polygons of the clipping algorithm         (layer b, the procedure)  *)
(* Actions = the public calls: Chop(c) (Frame.chop / FrameSequence.chop with one chopper),    *)
(* PropagateTo(d) (forwards or back towards the source); __getitem__(d) is the operator GetAt *)
(* of the Defs module (invariant GetAtAgrees).  `applied` remembers the choppers so far; chopping a whole list in any     *)
(* order and propagating in one step are compared with the step-by-step state by the          *)
(* invariants OrderIndependent and TwoStepEqualsOneStep.                                       *)
EXTENDS ChopperCascadeDefs, Randomization, SequencesExt

CONSTANTS Pulses,     \* set of pulse rectangles
          Choppers,   \* set of choppers [d, win]
          PropDists,  \* distances PropagateTo may be called with
          MaxChops,
          Pick,       \* 0: every chopper of Choppers is tried (exhaustive);
                      \* k > 0 (-simulate): k random choppers at one of the next two distances
          SimEdges,   \* set of window edges for the random walks
          SimMaxDist,
          L,          \* scale: common multiple of all distances and their differences
          Bug         \* "none" | "orientation" | "absdist" | "firstonly" | "nosort" | "tiebreak" | "interpsign" |
                      \* "propabs" | "breaksorted" | "absdelta" | "getlast"

(* distances (between the choppers) at which __getitem__ is asked; a cfg may override it     *)
QueryDists == {3, 7}

VARIABLES pulse, frame, alive, applied
vars == <<pulse, frame, alive, applied>>

Init == /\ pulse \in Pulses
        /\ frame = [d |-> 0, polys |-> <<Rect(pulse, L)>>]
        /\ alive = Neutrons(pulse)
        /\ applied = <<>>

Chop(c) ==
    /\ Len(applied) < MaxChops
    /\ c.d > frame.d
    /\ frame' = [d |-> c.d, polys |-> ChopPolys(frame.polys, frame.d, c, L, Bug)]
    /\ alive' = { n \in alive : Passes(n, c) }
    /\ applied' = Append(applied, c)
    /\ UNCHANGED pulse

(* forwards or back towards the source, but not behind the last chopper (the list `applied`  *)
(* stays sorted by distance)                                                                  *)
LastChopDist == IF applied = <<>> THEN 0 ELSE applied[Len(applied)].d
PropagateTo(d) ==
    /\ d # frame.d /\ d >= LastChopDist
    /\ frame' = PropagateFrame(frame, d, Bug)
    /\ UNCHANGED <<pulse, alive, applied>>

ChopAny    == Pick = 0 /\ \E c \in Choppers : Chop(c)
(* a random chopper at one of the next two distances: 1..3 disjoint windows with edges drawn from SimEdges  *)
(* (bound through singleton sets so that each random draw is made exactly once)                            *)
ChopRandom == Pick > 0 /\ \E k \in 1..Pick : \E dd \in {2, 4} :
                 \E nw \in { RandomElement(1..3) } :
                 \E es \in { SetToSortSeq(RandomSubset(2 * nw, SimEdges), <) } :
                 \E rot \in { RandomElement(0..(nw - 1)) } : \E rev \in { RandomElement({TRUE, FALSE}) } :
                    \* listed in time order, rotated, or reversed
                    LET pos(m) == IF rev THEN nw + 1 - m ELSE ((m - 1 + rot) % nw) + 1 IN
                    /\ frame.d + dd <= SimMaxDist
                    /\ Chop([d |-> frame.d + dd, win |-> [ m \in 1..nw |-> << es[2*pos(m) - 1], es[2*pos(m)] >> ]])
Propagate  == \E d \in PropDists : PropagateTo(d)

Next == ChopAny \/ ChopRandom \/ Propagate

Spec == Init /\ [][Next]_vars

-----------------------------------------------------------------------------
(* a grid neutron of the pulse reaches the current distance iff it is strictly inside one    *)
(* of the reported polygons                                                                   *)
Agree == \A n \in Neutrons(pulse) : (n \in alive) <=> InSomePoly(n, frame, L)

AliveIsTransmitted == alive = { n \in Neutrons(pulse) : Transmitted(n, applied) }

Band == \A k \in 1..Len(frame.polys) : InBand(frame.polys[k], pulse, L)

Regular == \A k \in 1..Len(frame.polys) : RegularPoly(frame.polys[k])

(* the result does not depend on the order in which the choppers are listed                   *)
Source == [d |-> 0, polys |-> <<Rect(pulse, L)>>]
OrderIndependent ==
    Len(applied) >= 2 =>
        LET n   == Len(applied)
            ref == ChopList(Source, applied, L, Bug)
            \* every order for short lists; reversal, rotation and one swap for longer ones
            qs  == IF n <= 3 THEN Perms(applied)
                   ELSE { [i \in 1..n |-> n + 1 - i], [i \in 1..n |-> (i % n) + 1],
                          [i \in 1..n |-> IF i = 1 THEN 2 ELSE IF i = 2 THEN 1 ELSE i] }
        IN \A q \in qs : ChopList(Source, Permuted(applied, q), L, Bug) = ref

(* chopping the whole list at once and propagating once = what the single steps produced     *)
TwoStepEqualsOneStep ==
    frame = PropagateFrame(ChopList(Source, applied, L, Bug), frame.d, "none")

(* splitting a propagation at any other distance - in between, beyond, or back towards the   *)
(* source - changes nothing                                                                   *)
SplitPropagation ==
    \A d1 \in PropDists : \A d2 \in PropDists :
        (d1 # frame.d /\ d2 # d1) =>
            PropagateFrame(PropagateFrame(frame, d1, Bug), d2, Bug) = PropagateFrame(frame, d2, "none")

(* __getitem__(d) on the sequence of frames of the cascade: a grid neutron has reached the    *)
(* distance d iff it passed the choppers up to d iff it is inside a polygon of that frame      *)
GetAtAgrees ==
    \A d \in QueryDists :
        LET fr == GetAt(FrameSeq(Source, applied, L), d, Bug)
        IN \A n \in Neutrons(pulse) : Transmitted(n, UpTo(applied, d)) <=> InSomePoly(n, fr, L)

TypeOK == /\ frame.d >= 0 /\ Len(applied) <= MaxChops
          /\ \A k \in 1..Len(frame.polys) : Len(frame.polys[k]) >= 1
=============================================================================
