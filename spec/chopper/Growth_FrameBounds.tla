-------------------------- MODULE Growth_FrameBounds --------------------------
(* GROWTH spec: derived quantities of chopper-cascade frames.  The state machine is the one    *)
(* of property C11 (ChopperCascade: Chop / PropagateTo over a state that holds the grid         *)
(* neutrons still in the beam AND the polygons of the clipping procedure); this module adds     *)
(* what the API derives from a frame and ties it to the neutrons:                               *)
(*   bounds      = extremes over all vertices; every neutron in the beam arrives inside them    *)
(*   subbounds   = per subframe; every neutron in the beam is inside the box of a subframe      *)
(*   start/end time for several distances = straight lines in the distance (regular polygons)   *)
(*   propagate_by = relative shear: composes additively, negative deltas invert                 *)
(*   acceptance  = frame sheared back to distance 0: lies in the source pulse rectangle, is     *)
(*                 exactly the set of (emission time, wavelength) of the neutrons in the beam,   *)
(*                 and shrinks from chopper to chopper                                           *)
EXTENDS ChopperCascade, Growth_FrameBoundsDefs

CONSTANTS GBug,      \* "none" | "firstsub" | "accsign"
          Deltas     \* sequence of distance differences for the multi-distance quantities

NonEmpty == Len(frame.polys) > 0

BoundsAreVertexExtremes == NonEmpty => FrameBounds(frame.polys, GBug) = DeclBounds(frame.polys)

NeutronsInsideBounds ==
    NonEmpty => LET b == FrameBounds(frame.polys, GBug) IN \A n \in alive : InBox(n, b, frame.d, L)

NeutronsInsideSubbounds ==
    LET sb == SubBounds(frame.polys) IN
    \A n \in alive : \E k \in 1..Len(frame.polys) :
        InPoly(n, frame.polys[k], frame.d, L) /\ InBox(n, sb[k], frame.d, L)

(* wavelength bounds can only shrink, and never leave the source band                           *)
WavelengthBoundsInBand ==
    NonEmpty => LET b == FrameBounds(frame.polys, GBug) IN L * pulse.w0 <= b[3] /\ b[4] <= L * pulse.w1

(* for the frames of a cascade the earliest vertex is also the slowest ... so the start and end *)
(* times move on straight lines when the distance changes (downstream only: delta >= 0)          *)
StartEndLinear ==
    \A k \in 1..Len(frame.polys) :
        LET poly == frame.polys[k] IN
        \A j \in 1..Len(Deltas) : Deltas[j] >= 0 =>
            /\ StartTimes(poly, Deltas)[j] = StartTime(poly) + Deltas[j] * StartWavelength(poly)
            /\ EndTimes(poly, Deltas)[j]   = EndTime(poly)   + Deltas[j] * EndWavelength(poly)

PropagateByComposes ==
    \A k \in 1..Len(frame.polys) : \A i, j \in 1..Len(Deltas) :
        /\ PropagateBy(PropagateBy(frame.polys[k], Deltas[i]), Deltas[j])
              = PropagateBy(frame.polys[k], Deltas[i] + Deltas[j])
        /\ PropagateBy(PropagateBy(frame.polys[k], Deltas[i]), 0 - Deltas[i]) = frame.polys[k]

PropagateToIsRelativePropagateBy ==
    \A d \in PropDists : d >= frame.d =>
        PropagateFrame(frame, d, "none").polys
            = [ k \in 1..Len(frame.polys) |-> PropagateBy(frame.polys[k], d - frame.d) ]

(* ---- acceptance diagram                                                                       *)
Acc == Acceptance(frame, GBug)

AcceptanceInvertsPropagation == ShearAll(Acc, frame.d) = frame.polys

AcceptanceInsideSourcePulse == LET acc == Acc IN \A k \in 1..Len(acc) : InSourceRect(acc[k], pulse, L)

AcceptanceIsEmissionSet ==
    LET atsource == [d |-> 0, polys |-> Acc] IN
    \A n \in Neutrons(pulse) : (n \in alive) <=> InSomePoly(n, atsource, L)

(* the acceptance region after one more chopper lies inside the one before it                    *)
AcceptanceNested ==
    Len(applied) >= 1 =>
        LET before == ChopList(Source, SubSeq(applied, 1, Len(applied) - 1), L, "none")
            accb   == Acceptance(before, "none")
            acc    == Acc
        IN \A k \in 1..Len(acc) : \E m \in 1..Len(accb) :
               \A i \in 1..Len(acc[k]) : InClosedPoly(acc[k][i], accb[m])
=============================================================================
