"""C18 — cylinder absorption: path lengths, quadrature and transmission are geometric.

Spec: spec/absorption/CylinderDefs.tla (exact rational geometry: Inside, rigid motions, OtherEnd,
closed-form chord, ray classes, exact moments), Cylinder.tla (state machine + invariants),
CylinderSets.tla / MC_Cylinder.tla (bounds), Cases_Cylinder.tla (case export), Trace_Cylinder.tla
(judge of recorded executions).  harness/lib_absorption.py is the same geometry on unbounded
Fractions (the refinement mapping); it never imports scippneutron.

1. TLC, exhaustive (two configs of the same module):
   motion: Inside(g.cyl, g.pt) <=> Inside(cyl, pt) for all behaviours of <= 2 rigid motions / OtherEnd;
   rays:   the closed-form chord interval agrees with pointwise membership along the ray and
           PathLength is the measure of {t >= 0 : Inside(s + t n)}; ray classes consistent.
   Negative controls: OtherEnd that keeps the axis; chord not clipped to t >= 0 — both must be rejected.
2. spec -> code (M1): TLC writes every cylinder x ray of the model with class and exact length, every
   cylinder x rigid motion with the moved / other-end description, and the unit moment table.  The
   harness first checks its own oracle against these records (binding lib_absorption to the TLA+
   operators), then replays the rays into Cylinder.beam_intersection (vectorised, several length units
   and scales) and uses the cylinders for the quadrature and transmission checks.
3. code -> spec (M2): seeded random cylinders (axes over the whole sphere from random integer
   quaternions, bases anywhere, radius/height 1e-3..1e3 in m/cm/mm/um/angstrom), rays from inside,
   outside, parallel, tangent and missing, all deterministic quadrature kinds, transmission maps with
   detectors in all directions; one NDJSON event per call; Trace_Cylinder.tla judges every event.

What TLC decides and what is numeric: TLC decides membership, ray classes, zero/positive length, the
rigid-motion algebra and (coarsely, on points rounded to 1/64 lattice unit) that quadrature points lie
in the solid.  "To rounding" comparisons are computed here from the spec's exact rationals (sqrt and pi
through mpmath, 60 digits) and handed to TLC as booleans:
  * beam_intersection: |got - exact| <= 1e-12*exact + 1e-12*size (size = max(2r, h)).  Rays are
    generated only where the length is a well-conditioned function of the inputs: grazing rays (inside
    a cap plane / along the lateral surface) are excluded, near-tangent rays (|1 - d^2/r^2| < 1/64, d =
    distance line-axis) are excluded, exactly tangent rays must give <= 1e-12*size where every float
    operation of the case is exact (axis-aligned integer geometry, power-of-two scale) and
    <= 1e-6*size otherwise (a relative input perturbation delta moves the chord of a tangent line by
    up to 2r*sqrt(2*delta); delta = 64 eps gives 3.4e-7 * 2r).
  * quadrature: points inside to 1e-9*size; weights > 0; sum(w) = pi r^2 h, centroid = centre and the
    moments of lib_absorption.monomials(kind) to moment_tol(kind) (1e-12 'cheap', 1e-6 'medium' /
    'expensive' — degrees and tolerances from the published rules, DESIGN §5 C18 / §3.4), each moment
    relative to volume * r^(a+b) * (h/2)^c.
  * transmission: 0 < T <= 1 + tol(kind); |T - 1| <= tol(kind) for mu = 0; strictly decreasing in the
    number density and (absorbing material) in the wavelength; invariance |T_k(c) - T_k(g c)| <=
    2*(d_k(c) + d_k(gc) + d_m(c) + d_m(gc)) + 1e-6 where d_k(x) = max over detectors and wavelengths of
    |T_k(x) - T_expensive(x)| (d_expensive := d_medium): the quadrature error of kind k is estimated by
    its distance to the best rule, the error of the best rule by the distance of the next best, and a
    factor 2 covers the fluctuation of the estimate; the true transmission is invariant, so the two
    errors add.  (The points of the moved cylinder are NOT the moved points: the code rotates the disk
    rule by the shortest rotation from z to the axis, so the rule's azimuth about the axis differs.)
"""

from __future__ import annotations

import json
import os
import time
from fractions import Fraction as F

import mpmath
import numpy as np

from .. import lib_absorption as L
from ..core import MachineryError
from ..tlc import require_ok, write_ndjson

RULE = ('cylinder = frame from an integer quaternion (axis a rational unit vector, every sign pattern incl. '
        '+/-z and axis-aligned), rational base, integer radius/height in a lattice unit times a scale and a '
        'length unit; rays with rational unit directions; non-trivial = ray with positive exact length, '
        'quadrature call that returned points, transmission pair with mu*size >= 0.05')

KINDS = ('cheap', 'medium', 'expensive')
UNITS = ('mm', 'm', 'cm', 'um', 'angstrom')
# scale = length of one lattice unit in the chosen unit (exact rationals; the first three are powers of two)
SCALES = (F(1), F(1, 1024), F(64), F(1, 1000), F(37, 100), F(1000, 7), F(3, 2000))
WORKERS = int(os.environ.get('VERIF_TLC_WORKERS', '16'))  # developers on a shared machine may lower this


def _fl(v):
    return [float(x) for x in v]


def _zc(c):
    return 'axis z<0' if c.axis[2] < 0 else 'axis z>=0'


def _sc_cylinder(c, u, unit):
    import scipp as sc
    from scippneutron.absorption import Cylinder

    return Cylinder(
        sc.vector(_fl(c.axis)),
        sc.vector(_fl(L.scale(u, c.base)), unit=unit),
        sc.scalar(float(c.r * u), unit=unit),
        sc.scalar(float(c.h * u), unit=unit),
    )


def _pick_scale(rng, c, pow2=False):
    """A scale/unit with radius and height inside 1e-3..1e3 (the property's range)."""
    for _ in range(50):
        u = rng.choice(SCALES[:3] if pow2 else SCALES)
        if F(1, 1000) <= c.r * u <= 1000 and F(1, 1000) <= c.h * u <= 1000:
            return u, rng.choice(UNITS)
    return F(1), 'mm'


# ------------------------------------------------------------------------------------------------ rays
def _exact_arith(c, n, u):
    """Every float operation of beam_intersection is exact: axis-aligned integer geometry."""
    ints = all(x.denominator == 1 for x in c.base) and all(abs(x) in (0, 1) for x in c.axis) and all(
        abs(x) in (0, 1) for x in n)
    return ints and (u.numerator & (u.numerator - 1)) == 0 and (u.denominator & (u.denominator - 1)) == 0


def _well_conditioned(res, size):
    """The path length is a well-conditioned function of the inputs and either exactly zero or clearly
    positive (so that 'zero' / 'positive' can be read off a float)."""
    if res['grazing']:
        return False
    if 0 < res['length'] < mpmath.mpf(1e-6) * L.mp(size):
        return False
    dr = res['disc_rel']
    return dr == 0 or abs(dr) >= F(1, 64)


def _run_rays(ctx, c, rays, u, unit, what):
    """rays: list of (s, n, res) with res = c.chord(s, n).  Returns per-ray dicts (zero, len_ok, raised)."""
    import scipp as sc

    out = []
    try:
        cyl = _sc_cylinder(c, u, unit)
        got = cyl.beam_intersection(
            sc.vectors(dims=['ray'], values=np.array([_fl(L.scale(u, s)) for s, _, _ in rays]), unit=unit),
            sc.vectors(dims=['ray'], values=np.array([_fl(n) for _, n, _ in rays])),
        )
        vals = got.to(unit=unit, copy=False).values
        if vals.shape != (len(rays),):
            raise ValueError(f'shape {vals.shape}')
    except Exception as e:  # noqa: BLE001
        ctx.violation(f'beam_intersection raised {type(e).__name__} ({what})',
                      {'cyl': L.cyl_ints(c), 'unit': unit, 'scale': str(u), 'exc': repr(e)[:300]})
        return [{'raised': True, 'zero': False, 'len_ok': False, 'got': None} for _ in rays]
    size = float(c.size * u)
    for (s, n, res), g in zip(rays, vals, strict=True):
        g = float(g)
        want = res['length'] * L.mp(u)
        if res['cls'] == 'tangent' and not _exact_arith(c, n, u):
            atol = 1e-6 * size
        else:
            atol = 1e-12 * size
        ok = np.isfinite(g) and abs(mpmath.mpf(g) - want) <= mpmath.mpf(1e-12) * want + atol
        out.append({'raised': False, 'zero': bool(np.isfinite(g) and abs(g) <= atol), 'len_ok': bool(ok),
                    'got': g, 'want': float(want)})
    return out


def _ray_violation(ctx, clause, c, s, n, res, r, u, unit):
    ctx.violation(f'beam_intersection: {clause} [{res["cls"]} ray]',
                  {'cyl': L.cyl_ints(c), 'start': L.vec_ints(s), 'dir': L.vec_ints(n), 'unit': unit,
                   'scale': str(u), 'got': r.get('got'), 'want': r.get('want'), 'axis': _fl(c.axis)})


def _replay_tlc_rays(ctx, path):
    """M1: every ray case TLC enumerated, replayed into the code; also binds the Python oracle to TLC."""
    by_cyl = {}
    n_cases = 0
    with open(path) as f:
        for line in f:
            rec = json.loads(line)
            by_cyl.setdefault(json.dumps(rec['c'], sort_keys=True), []).append(rec)
            n_cases += 1
    classes = {}
    for ci, (ckey, recs) in enumerate(sorted(by_cyl.items())):
        c = L.cyl_from_ints(json.loads(ckey))
        rays = []
        for rec in recs:
            s, n = L.vec_from_ints(rec['s']), L.vec_from_ints(rec['n'])
            res = c.chord(s, n)
            # ---- oracle vs TLC (a disagreement is a failure of the machinery)
            if rec['cls'] != 'undecided' and rec['cls'] != res['cls']:
                raise MachineryError(f'oracle/TLC class mismatch {rec} vs {res["cls"]}')
            if rec['grazing'] != res['grazing']:
                raise MachineryError(f'oracle/TLC grazing mismatch {rec}')
            if rec['exact']:
                if res['exact'] is None or res['exact'] != F(rec['len'][0], rec['len'][1]):
                    raise MachineryError(f'oracle/TLC length mismatch {rec} vs {res["exact"]}')
            if _well_conditioned(res, c.size):
                rays.append((s, n, res))
        # two scales per cylinder: one power of two (exact scaling), one arbitrary
        for u, unit in (_pick_scale(ctx.rng, c, pow2=True), _pick_scale(ctx.rng, c)):
            obs = _run_rays(ctx, c, rays, u, unit, 'model cases')
            for (s, n, res), r in zip(rays, obs, strict=True):
                cls = res['cls']
                classes[cls] = classes.get(cls, 0) + 1
                ctx.case(nontrivial_id=('ray', ci, tuple(s), tuple(n), str(u)) if res['length'] > 0 else None)
                if r['raised']:
                    continue
                if cls in ('parallel_miss', 'tangent', 'miss_line', 'miss_solid') and not r['zero']:
                    _ray_violation(ctx, 'positive length for a ray that misses the solid', c, s, n, res, r, u, unit)
                elif res['length'] > 0 and r['zero']:
                    _ray_violation(ctx, 'zero length for a ray that passes through the solid', c, s, n, res, r, u, unit)
                elif not r['len_ok']:
                    _ray_violation(ctx, 'length differs from the exact chord', c, s, n, res, r, u, unit)
    ctx.extra['replayed_ray_cases'] = n_cases
    ctx.extra['replayed_ray_classes'] = classes
    return n_cases


def _random_cyl(ctx, small):
    rng = ctx.rng
    q = L.random_quaternion(rng, 2 if small else rng.choice([2, 3, 4, 6]))
    if rng.random() < 0.15:  # axis-aligned, both signs
        q = rng.choice([(1, 0, 0, 0), (0, 1, 0, 0), (1, 1, 0, 0), (1, -1, 0, 0), (1, 0, 1, 0), (1, 0, -1, 0),
                        (0, 0, 1, 0), (0, 1, 1, 0)])
    elif not small and rng.random() < 0.2:  # a few degrees (or less) away from +z / -z
        m, a, b = rng.choice([8, 15, 40, 200]), rng.choice([-1, 0, 1]), rng.choice([-1, 1])
        q = rng.choice([(m, a, b, 0), (a, m, b, 0), (m, b, 0, a), (b, a, m, 0)])
    lim = 6 if small else 40
    base = tuple(F(rng.randint(-lim, lim), 1 if small else rng.choice([1, 1, 2, 3])) for _ in range(3))
    r = rng.randint(1, 4) if small else rng.choice([1, 2, 3, 5, 8, 9, 20, 100])
    h = rng.randint(1, 6) if small else rng.choice([1, 2, 3, 4, 7, 9, 20, 100])
    return L.Cyl(L.qrot(q), base, r, h)


def _unit_dir(rng, units, c=None):
    x, y, z, n = rng.choice(units)
    return (F(x, n), F(y, n), F(z, n))


def _random_rays(ctx, c, units, nrays, small):
    """Rays aimed at the solid from inside and outside, parallel to the axis, tangent, missing."""
    rng = ctx.rng
    rays = []
    tries = 0
    while len(rays) < nrays and tries < nrays * 20:
        tries += 1
        kind = rng.random()
        if kind < 0.15:  # parallel to the axis, either sense
            n = c.axis if rng.random() < 0.5 else L.scale(-1, c.axis)
        else:
            n = _unit_dir(rng, units)
        if kind > 0.9 and not small:
            # exactly tangent to the lateral surface: a surface point, a rational tangent direction
            cs, sn = rng.choice([(F(3, 5), F(4, 5)), (F(-5, 13), F(12, 13)), (F(1), F(0)), (F(0), F(-1)),
                                 (F(8, 17), F(-15, 17))])
            cp, sp = rng.choice([(F(3, 5), F(4, 5)), (F(0), F(1)), (F(-4, 5), F(3, 5)), (F(12, 13), F(-5, 13))])
            radial = L.add(L.scale(cs, c.e1), L.scale(sn, c.e2))
            tang = L.add(L.scale(-sn, c.e1), L.scale(cs, c.e2))
            pt = L.add(L.add(c.base, L.scale(c.h * F(rng.randint(-3, 7), 4), c.axis)), L.scale(c.r, radial))
            n = L.add(L.scale(cp, c.axis), L.scale(sp, tang))
            s = L.sub(pt, L.scale(F(rng.randint(-6, 6), 2) * c.size, n))
        elif small:
            s = tuple(F(rng.randint(-16, 16), 2) for _ in range(3))
        else:
            # through a point near the solid
            loc = (F(rng.randint(-12, 12), 8) * c.r, F(rng.randint(-12, 12), 8) * c.r,
                   F(rng.randint(-6, 6), 8) * c.h)
            tgt = L.add(c.center, L.add(L.add(L.scale(loc[0], c.e1), L.scale(loc[1], c.e2)),
                                        L.scale(loc[2], c.axis)))
            s = L.sub(tgt, L.scale(F(rng.randint(-8, 8), 4) * c.size * rng.choice([0, 1, 1, 1]), n))
        res = c.chord(s, n)
        if not _well_conditioned(res, c.size):
            continue
        rays.append((s, n, res))
    return rays


def _ray_events(ctx, events, n_cyl, nrays):
    units_small = L.unit_vectors(7)
    units_big = L.unit_vectors(33)
    placeholder = {'m': [[1, 0, 0], [0, 1, 0], [0, 0, 1]], 'k': 1, 'b': [0, 0, 0, 1], 'r': 1, 'h': 1}
    for i in range(n_cyl):
        small = i % 2 == 0
        c = _random_cyl(ctx, small)
        rays = _random_rays(ctx, c, units_small if small else units_big, nrays, small)
        if not rays:
            continue
        u, unit = _pick_scale(ctx.rng, c, pow2=(i % 4 == 0))
        obs = _run_rays(ctx, c, rays, u, unit, 'random cases')
        for (s, n, res), r in zip(rays, obs, strict=True):
            fits = L.ray_fits32(c, s, n)
            ev = {'ev': 'ray', 'tid': len(events), 'small': bool(fits),
                  'c': L.cyl_ints(c) if fits else placeholder,
                  's': L.vec_ints(s) if fits else [0, 0, 0, 1], 'n': L.vec_ints(n) if fits else [0, 0, 1, 1],
                  'grazing': bool(res['grazing']), 'cls': res['cls'], 'raised': r['raised'],
                  'zero': r['zero'], 'len_ok': r['len_ok']}
            events.append((ev, {'kind': 'ray', 'c': c, 's': s, 'n': n, 'res': res, 'r': r, 'u': u, 'unit': unit}))
            ctx.case(nontrivial_id=('rr', len(events)) if res['length'] > 0 else None)


# ------------------------------------------------------------------------------------------------ quadrature
def _quad_event(ctx, c, kind, u, unit, events):
    placeholder = {'m': [[1, 0, 0], [0, 1, 0], [0, 0, 1]], 'k': 1, 'b': [0, 0, 0, 1], 'r': 1, 'h': 1}
    ev = {'ev': 'quad', 'tid': len(events), 'kind': kind, 'small': False, 'c': placeholder, 'pts': [],
          'raised': False, 'n': 0, 'n_out': 0, 'n_nonpos': 0, 'sum_ok': True, 'cen_ok': True, 'n_mom_bad': 0}
    info = {'kind': 'quad', 'c': c, 'qkind': kind, 'u': u, 'unit': unit}
    try:
        cyl = _sc_cylinder(c, u, unit)
        p, w = cyl.quadrature(kind)
        P = np.array(p.to(unit=unit, copy=False).values, dtype=float)
        W = np.array(w.to(unit=f'{unit}**3', copy=False).values, dtype=float)
        if P.ndim != 2 or P.shape[1] != 3 or W.shape != (P.shape[0],) or P.shape[0] == 0:
            raise ValueError(f'shapes {P.shape} {W.shape}')
    except Exception as e:  # noqa: BLE001
        ev['raised'] = True
        info['exc'] = repr(e)[:300]
        events.append((ev, info))
        return
    uf = float(u)
    Pl = P / uf                                   # lattice units
    Wl = W / uf ** 3
    cen = np.array(_fl(c.center))
    E = np.array([_fl(c.e1), _fl(c.e2), _fl(c.axis)])
    Lc = (Pl - cen) @ E.T                         # cylinder frame, centred
    r, h, size = float(c.r), float(c.h), float(c.size)
    rad = np.hypot(Lc[:, 0], Lc[:, 1])
    out = (rad > r + 1e-9 * size) | (np.abs(Lc[:, 2]) > h / 2 + 1e-9 * size) | ~np.isfinite(Lc).all(axis=1)
    tol = L.moment_tol(kind)
    V = float(mpmath.pi * L.mp(c.volume_over_pi))
    ev['n'] = int(len(W))
    ev['n_out'] = int(out.sum())
    ev['n_nonpos'] = int((~(W > 0)).sum())
    ev['sum_ok'] = bool(abs(Wl.sum() / V - 1) <= tol)
    ev['cen_ok'] = bool(np.abs((Wl[:, None] * Lc).sum(axis=0) / V).max() <= tol * size)
    bad = []
    for (a, b, cc) in L.monomials(kind):
        got = float((Wl * Lc[:, 0] ** a * Lc[:, 1] ** b * Lc[:, 2] ** cc).sum())
        want = float(mpmath.pi * L.mp(L.moment_over_pi(c, a, b, cc)))
        err = abs(got - want) / (V * r ** (a + b) * (h / 2) ** cc)
        if not err <= tol:
            bad.append(((a, b, cc), err))
    ev['n_mom_bad'] = len(bad)
    info.update(worst_outside=float(max((rad - r).max(), (np.abs(Lc[:, 2]) - h / 2).max()) / size),
                frac_outside=float(out.mean()), bad_moments=[(m, float(e)) for m, e in bad[:4]],
                sum_rel=float(Wl.sum() / V - 1))
    # points handed to TLC: rounded to 1/64 lattice unit; all points for the small rules, a subsample
    # (every 16th + the worst offenders) for the big one
    idx = np.arange(len(W)) if len(W) <= 800 else np.unique(np.concatenate(
        [np.arange(0, len(W), 16), np.argsort(-(rad - r))[:20], np.argsort(-np.abs(Lc[:, 2]))[:20]]))
    if np.isfinite(Pl).all() and np.abs(Pl).max() < 1e6:
        pts = [[int(round(x * 64)) for x in Pl[i]] + [64] for i in idx]
        if c.r.denominator == 1 and c.h.denominator == 1 and L.quad_fits32(c, pts):
            ev['small'] = True
            ev['c'] = L.cyl_ints(c)
            ev['pts'] = pts
    events.append((ev, info))


# ------------------------------------------------------------------------------------------------ transmission
def _tmap(c, u, unit, beam, dets, det_unit, det_scale, kind, material, wavelengths):
    import scipp as sc
    from scippneutron.absorption import compute_transmission_map

    cyl = _sc_cylinder(c, u, unit)
    tm = compute_transmission_map(
        cyl, material, beam_direction=sc.vector(_fl(beam)), wavelength=wavelengths,
        detector_position=sc.vectors(dims=['det'], values=np.array([_fl(L.scale(det_scale, d)) for d in dets]),
                                     unit=det_unit),
        quadrature_kind=kind)
    if tm.dims != ('det', 'wavelength'):
        tm = tm.transpose(['det', 'wavelength'])
    if tm.unit != sc.units.dimensionless:
        raise ValueError(f'transmission has unit {tm.unit}')
    return np.array(tm.values, dtype=float)


def _material(mu_per_lattice, u, unit, absorbing, density_factor=1.0):
    """A material with attenuation mu (1/lattice unit) at the first wavelength."""
    import scipp as sc
    from scippneutron.absorption import Material
    from scippneutron.atoms import ScatteringParams

    # sigma in unit^2, density in 1/unit^3  =>  mu = n * sigma in 1/unit
    mu = mu_per_lattice / float(u)
    sig_s = mu * (0.4 if absorbing else 1.0)
    sig_a = mu * 0.6 if absorbing else 0.0   # * lambda/1.7982 A
    return Material(
        ScatteringParams('Fake', absorption_cross_section=sc.scalar(sig_a, unit=f'{unit}**2'),
                         total_scattering_cross_section=sc.scalar(sig_s, unit=f'{unit}**2')),
        sc.scalar(density_factor, unit=f'1/{unit}**3'))


def _trans_event(ctx, events, c, q, tau, mode, kinds, units_dirs):
    import scipp as sc

    rng = ctx.rng
    if mode == 'otherend':
        gc = c.other_end()
        Q, tv = L.IDENT, (F(0), F(0), F(0))
    else:
        Q, tv = L.qrot(q), tau
        gc = c.moved(Q, tv)
    placeholder = {'m': [[1, 0, 0], [0, 1, 0], [0, 0, 1]], 'k': 1, 'b': [0, 0, 0, 1], 'r': 1, 'h': 1}
    fits = c.r.denominator == 1 and L.move_fits32(c, q, tau) and L.move_fits32(gc, (1, 0, 0, 0), (F(0),) * 3)
    u, unit = _pick_scale(rng, c)
    if unit in ('um', 'angstrom'):
        unit = 'mm'
    det_unit = rng.choice(['m', unit])
    det_scale = u * {'mm': F(1, 1000), 'cm': F(1, 100), 'm': F(1)}[unit] if det_unit == 'm' and unit != 'm' else u
    beam = _unit_dir(rng, units_dirs)
    dets = []
    for _ in range(6):
        d = _unit_dir(rng, units_dirs)
        dets.append(L.add(c.center, L.scale(rng.choice([3, 10, 1000]) * c.size, d)))
    gbeam = L.matvec(Q, beam)
    gdets = [L.add(L.matvec(Q, d), tv) for d in dets]
    mus = rng.choice([0.05, 0.2, 0.5, 1.0, 3.0]) / float(c.size)
    absorbing = rng.random() < 0.6
    lam = sorted(rng.sample([0.1, 0.5, 1.0, 1.7982, 4.0, 9.0, 20.0], 3))
    wl = sc.array(dims=['wavelength'], values=lam, unit='angstrom')
    ev = {'ev': 'trans', 'tid': len(events), 'mode': mode, 'small': bool(fits),
          'c': L.cyl_ints(c) if fits else placeholder, 'gc': L.cyl_ints(gc) if fits else placeholder,
          'q': list(q), 'tau': L.vec_ints(tau), 'raised': False, 'range_ok': True, 'one_ok': True,
          'mono_ok': True, 'inv_ok': True}
    info = {'kind': 'trans', 'c': c, 'gc': gc, 'mode': mode, 'u': u, 'unit': unit, 'mu_size': mus * float(c.size),
            'beam': _fl(beam), 'wavelengths': lam, 'absorbing': absorbing, 'det_unit': det_unit}
    try:
        mat = _material(mus, u, unit, absorbing)
        T = {k: _tmap(c, u, unit, beam, dets, det_unit, det_scale, k, mat, wl) for k in KINDS}
        G = {k: _tmap(gc, u, unit, gbeam, gdets, det_unit, det_scale, k, mat, wl) for k in KINDS}
        mat2 = _material(mus, u, unit, absorbing, density_factor=1.75)
        mat0 = _material(0.0, u, unit, False)
        k0 = kinds[0]
        T2 = _tmap(c, u, unit, beam, dets, det_unit, det_scale, k0, mat2, wl)
        T0 = {k: _tmap(gc, u, unit, gbeam, gdets, det_unit, det_scale, k, mat0, wl) for k in kinds}
    except Exception as e:  # noqa: BLE001
        ev['raised'] = True
        info['exc'] = repr(e)[:300]
        events.append((ev, info))
        return
    details = {}
    for k in KINDS:
        tol = L.moment_tol(k)
        for name, arr in (('c', T[k]), ('gc', G[k])):
            if not (np.isfinite(arr).all() and (arr > 0).all() and (arr <= 1 + tol).all()):
                ev['range_ok'] = False
                details['range'] = (k, name, float(np.nanmin(arr)), float(np.nanmax(arr)))
    for k in kinds:
        if not (np.abs(T0[k] - 1) <= L.moment_tol(k)).all():
            ev['one_ok'] = False
            details['one'] = (k, float(np.abs(T0[k] - 1).max()))
    # denser material => strictly smaller transmission; absorbing material => decreasing in wavelength
    if not (T2 < T[k0]).all():
        ev['mono_ok'] = False
        details['mono_density'] = (k0, float((T2 - T[k0]).max()))
    if absorbing:
        for k in kinds:
            if not (np.diff(T[k], axis=1) < 0).all():
                ev['mono_ok'] = False
                details['mono_wavelength'] = (k, float(np.diff(T[k], axis=1).max()))
    else:
        for k in kinds:
            if not (np.abs(np.diff(T[k], axis=1)) <= 1e-12).all():
                ev['mono_ok'] = False
                details['const_wavelength'] = (k, float(np.abs(np.diff(T[k], axis=1)).max()))
    # invariance, bound derived in the module docstring
    d = {}
    for k in ('cheap', 'medium'):
        d[k] = (np.abs(T[k] - T['expensive']).max(), np.abs(G[k] - G['expensive']).max())
    d['expensive'] = d['medium']
    for k in kinds:
        bound = 2 * (d[k][0] + d[k][1] + d['medium'][0] + d['medium'][1]) + 1e-6
        diff = float(np.abs(T[k] - G[k]).max())
        if not diff <= bound:
            ev['inv_ok'] = False
            details.setdefault('inv', []).append((k, diff, float(bound)))
    info['details'] = details
    info['T_first'] = T[kinds[0]][0].tolist()
    info['G_first'] = G[kinds[0]][0].tolist()
    events.append((ev, info))


# ------------------------------------------------------------------------------------------------ main
def _distinct_cyls(cyl_cases):
    seen, out = set(), []
    for rec in cyl_cases:
        for key in ('c', 'gc', 'oe'):
            k = json.dumps(rec[key], sort_keys=True)
            if k not in seen:
                seen.add(k)
                out.append(L.cyl_from_ints(rec[key]))
    return out


def _check_oracle_against_tlc(cyl_cases, mom_cases):
    for rec in cyl_cases:
        c = L.cyl_from_ints(rec['c'])
        gc = c.moved(L.qrot(tuple(rec['q'])), L.vec_from_ints(rec['tau']))
        want = L.cyl_from_ints(rec['gc'])
        oe, want_oe = c.other_end(), L.cyl_from_ints(rec['oe'])
        for got, w, what in ((gc, want, 'MoveCyl'), (oe, want_oe, 'OtherEndCyl')):
            if (got.R, got.base, got.r, got.h) != (w.R, w.base, w.r, w.h):
                raise MachineryError(f'oracle/TLC {what} mismatch for {rec}')
    for rec in mom_cases:
        if L.disk_moment_over_pi(rec['a'], rec['b']) != F(*rec['disk']) or L.line_moment(rec['c']) != F(*rec['line']):
            raise MachineryError(f'oracle/TLC moment mismatch {rec}')


def run(ctx):
    ctx.rule = RULE
    ctx.assume('all lengths of one configuration share one length unit (m, cm, mm, um or angstrom); the '
               'detector positions of the transmission map may use another one')
    ctx.assume('grazing rays (inside a cap plane, along the lateral surface) and near-tangent rays '
               '(|1 - d^2/r^2| < 1/64) are not generated: the path length is discontinuous / ill-conditioned there')
    ctx.assume("'integrate exactly' / 'sum to volume' / '<= 1' / '= 1' mean to the precision of the bundled tables: "
               "1e-12 for 'cheap', 1e-6 for 'medium' and 'expensive' (DESIGN §3.4)")
    ctx.assume("the Monte-Carlo kinds ('mc') are not deterministic and outside the property")
    ctx.extra['tolerances'] = {'beam_intersection': '1e-12*L + 1e-12*size (tangent, inexact arithmetic: 1e-6*size)',
                               'points_inside': '1e-9*size', 'moments': {'cheap': 1e-12, 'medium': 1e-6, 'expensive': 1e-6},
                               'transmission_invariance': '2*(d_k(c)+d_k(gc)+d_m(c)+d_m(gc)) + 1e-6'}
    tier = 'thorough' if ctx.thorough else 'quick'
    sfx = '_thorough' if ctx.thorough else ''

    t_ = [time.time()]

    def mark(name):
        ctx.extra.setdefault('timing_s', {})[name] = round(time.time() - t_[0], 1)
        t_[0] = time.time()

    # ---- 1. design: exhaustive model + negative controls
    res = ctx.tlc('absorption/MC_Cylinder.tla', f'MC_Cylinder_motion{sfx}.cfg', timeout=1500, workers=WORKERS)
    require_ok(ctx, res, 'Cylinder model (rigid motions)')
    res = ctx.tlc('absorption/MC_Cylinder.tla', f'MC_Cylinder_rays{sfx}.cfg', timeout=1500, workers=WORKERS)
    require_ok(ctx, res, 'Cylinder model (rays)')
    ctx.tlc('absorption/MC_Cylinder.tla', 'Neg_Cylinder_otherend.cfg', expect_error=True, timeout=300, workers=WORKERS)
    ctx.tlc('absorption/MC_Cylinder.tla', 'Neg_Cylinder_noclip.cfg', expect_error=True, timeout=300, workers=WORKERS)

    mark('tlc_model')
    # ---- 2. spec -> code: cases enumerated by TLC
    files = {k: ctx.tmp / f'c18-{k}.ndjson' for k in ('rays', 'cyls', 'mom')}
    res = ctx.tlc('absorption/Cases_Cylinder.tla', workers=1, timeout=1500, count=False,
                  env={'TIER': tier, 'RAYS_FILE': files['rays'], 'CYLS_FILE': files['cyls'], 'MOM_FILE': files['mom']})
    require_ok(ctx, res, 'Cases_Cylinder')
    cyl_cases = [json.loads(x) for x in open(files['cyls'])]
    mom_cases = [json.loads(x) for x in open(files['mom'])]
    mark('tlc_cases')
    _check_oracle_against_tlc(cyl_cases, mom_cases)
    n_replayed = _replay_tlc_rays(ctx, files['rays'])
    ctx.traces(n_replayed)
    mark('replay_rays')

    # ---- 3. code -> spec: recorded executions
    events = []
    _ray_events(ctx, events, n_cyl=400 if ctx.thorough else 150, nrays=40)

    mark('random_rays')
    model_cyls = _distinct_cyls(cyl_cases)
    ctx.rng.shuffle(model_cyls)
    n_model = len(model_cyls) if ctx.thorough else 90
    for i, c in enumerate(model_cyls[:n_model]):
        for kind in KINDS:
            if kind == 'expensive' and i % (2 if ctx.thorough else 5):
                continue
            u, unit = _pick_scale(ctx.rng, c, pow2=(i % 3 == 0))
            _quad_event(ctx, c, kind, u, unit, events)
    for i in range(500 if ctx.thorough else 120):
        c = _random_cyl(ctx, small=(i % 3 == 0))
        for kind in KINDS:
            if kind == 'expensive' and i % 4:
                continue
            u, unit = _pick_scale(ctx.rng, c)
            _quad_event(ctx, c, kind, u, unit, events)

    mark('quadrature')
    units_dirs = L.unit_vectors(9)
    pairs = list(cyl_cases)
    ctx.rng.shuffle(pairs)
    n_pairs = 160 if ctx.thorough else 36
    for i, rec in enumerate(pairs[:n_pairs]):
        c = L.cyl_from_ints(rec['c'])
        kinds = (KINDS[i % 3],) if not ctx.thorough else KINDS
        mode = 'otherend' if i % 3 == 0 else 'move'
        _trans_event(ctx, events, c, tuple(rec['q']), L.vec_from_ints(rec['tau']), mode, kinds, units_dirs)
    for i in range(120 if ctx.thorough else 30):
        c = _random_cyl(ctx, small=False)
        if c.r > 20 * c.h or c.h > 20 * c.r:
            c = L.Cyl(c.R, c.base, min(c.r, 9), min(c.h, 9))
        q = L.random_quaternion(ctx.rng, 3)
        tau = tuple(F(ctx.rng.randint(-30, 30), ctx.rng.choice([1, 2, 5])) for _ in range(3))
        kinds = (KINDS[i % 3],) if not ctx.thorough else KINDS
        _trans_event(ctx, events, c, q, tau, 'otherend' if i % 4 == 0 else 'move', kinds, units_dirs)

    for ev, info in events:
        if ev['ev'] == 'quad' and not ev['raised']:
            ctx.case(nontrivial_id=('q', ev['tid']))
        elif ev['ev'] == 'trans':
            ctx.case(nontrivial_id=('t', ev['tid']) if not ev['raised'] and info['mu_size'] >= 0.05 else None)
    for kind in ('ray', 'quad', 'trans'):
        first = next((e for e, _ in events if e['ev'] == kind), None)
        if first:
            ctx.sample({k: (v if k != 'pts' else v[:3]) for k, v in first.items()})
    ctx.extra['events'] = {k: sum(1 for e, _ in events if e['ev'] == k) for k in ('ray', 'quad', 'trans')}
    ctx.extra['events_recomputed_by_tlc'] = sum(1 for e, _ in events if e['small'])

    mark('transmission')
    tf = ctx.tmp / 'c18.ndjson'
    write_ndjson(tf, [e for e, _ in events])
    tr = ctx.tlc('absorption/Trace_Cylinder.tla', workers=1, env={'TRACE_FILE': str(tf)}, timeout=1500)
    require_ok(ctx, tr, 'Trace_Cylinder')
    mark('tlc_trace')
    done = tr.tagged('DONE')
    if not done or done[0][1] != len(events):
        raise MachineryError(f'trace validation incomplete: {done} vs {len(events)} events')
    ctx.traces(len(events))
    rejected = {line: clause for _, line, _tid, clause in tr.tagged('REJECT')}
    _trace_control(ctx, events, rejected)
    for _, line, _tid, clause in tr.tagged('REJECT'):
        ev, info = events[line - 1]
        if clause.startswith('oracle_') or clause == 'unknown_event':
            raise MachineryError(f'oracle and TLA+ specification disagree: {clause} on {ev}')
        c = info['c']
        if ev['ev'] == 'ray':
            text = {'positive_length_for_ray_that_misses': 'positive length for a ray that misses the solid',
                    'zero_length_for_ray_that_hits': 'zero length for a ray that passes through the solid',
                    'length_differs_from_chord': 'length differs from the exact chord'}.get(clause)
            if clause == 'beam_intersection_raised':
                continue  # reported when it happened
            _ray_violation(ctx, text or clause, c, info['s'], info['n'], info['res'], info['r'], info['u'], info['unit'])
        elif ev['ev'] == 'quad':
            if clause == 'points_outside_solid_coarse' and ev['n_out'] == 0:
                raise MachineryError(f'TLC finds points outside the solid that the harness accepts: {ev["tid"]}')
            key = {'quadrature_raised': f'quadrature raised ({info.get("exc", "")[:40].split("(")[0]})',
                   'points_outside_solid_coarse': 'quadrature: points outside the solid',
                   'points_outside_solid': 'quadrature: points outside the solid',
                   'weights_not_positive': f"quadrature('{ev['kind']}'): weights not positive",
                   'weights_do_not_sum_to_volume': f"quadrature('{ev['kind']}'): weights do not sum to the volume",
                   'centroid_is_not_centre': 'quadrature: centroid is not the centre of the solid',
                   'polynomial_moments_wrong': 'quadrature: low-degree polynomial moments differ from those of the solid',
                   }[clause]
            ctx.violation(f'{key} [{_zc(c)}]',
                          {'kind': ev['kind'], 'cyl': {'axis': _fl(c.axis), 'base': _fl(c.base), 'r': float(c.r),
                                                       'h': float(c.h)}, 'unit': info['unit'], 'scale': str(info['u']),
                           'n_points': ev['n'], 'n_outside': ev['n_out'], 'frac_outside': info.get('frac_outside'),
                           'worst_outside_rel_size': info.get('worst_outside'), 'bad_moments': info.get('bad_moments'),
                           'sum_rel': info.get('sum_rel'), 'clause': clause, 'exc': info.get('exc')})
        else:
            z = 'axis z<0' if (c.axis[2] < 0 or info['gc'].axis[2] < 0) else 'axis z>=0'
            what = 'described from its other end' if ev['mode'] == 'otherend' else 'moved rigidly'
            key = {'transmission_raised': 'compute_transmission_map raised',
                   'transmission_outside_0_1': 'transmission outside (0, 1]',
                   'transmission_not_1_without_attenuation': 'transmission differs from 1 without attenuation',
                   'transmission_not_decreasing_with_attenuation': 'transmission does not decrease when attenuation grows',
                   'transmission_changes_under_rigid_motion': f'transmission changes when the setup is {what}',
                   }[clause]
            ctx.violation(f'{key} [{z}]',
                          {'cyl': {'axis': _fl(c.axis), 'base': _fl(c.base), 'r': float(c.r), 'h': float(c.h)},
                           'moved': {'axis': _fl(info['gc'].axis), 'base': _fl(info['gc'].base)},
                           'mode': ev['mode'], 'q': ev['q'], 'unit': info['unit'], 'scale': str(info['u']),
                           'mu_size': info['mu_size'], 'details': info.get('details'), 'exc': info.get('exc'),
                           'T': info.get('T_first'), 'T_moved': info.get('G_first'), 'clause': clause})


def _trace_control(ctx, events, rejected):
    """Vacuity guard of the trace specification: accepted events are corrupted in one field each and TLC
    must reject every corrupted copy with the expected clause (a removed event is caught by the DONE count)."""
    import copy

    def pick(pred):
        return next((copy.deepcopy(e) for i, (e, _) in enumerate(events) if (i + 1) not in rejected and pred(e)), None)

    bad = []
    e = pick(lambda e: e['ev'] == 'ray' and e['small'] and not e['zero'] and not e['grazing'])
    if e:
        bad.append((dict(e, zero=True), 'zero_length_for_ray_that_hits'))
        bad.append((dict(e, len_ok=False), 'length_differs_from_chord'))
        bad.append((dict(e, cls='miss_line'), 'oracle_class_mismatch'))
    e = pick(lambda e: e['ev'] == 'ray' and e['small'] and e['zero'] and not e['grazing'])
    if e:
        bad.append((dict(e, zero=False), 'positive_length_for_ray_that_misses'))
    e = pick(lambda e: e['ev'] == 'quad' and e['small'])
    if e:
        far = copy.deepcopy(e)
        far['pts'][0] = [e['pts'][0][0] + 64 * 4 * (e['c']['r'] + e['c']['h']), e['pts'][0][1], e['pts'][0][2], 64]
        bad += [(far, 'points_outside_solid_coarse'), (dict(e, n_out=1), 'points_outside_solid'),
                (dict(e, n_nonpos=1), 'weights_not_positive'), (dict(e, sum_ok=False), 'weights_do_not_sum_to_volume'),
                (dict(e, n_mom_bad=2), 'polynomial_moments_wrong')]
    e = pick(lambda e: e['ev'] == 'trans' and e['small'])
    if e:
        wrong = copy.deepcopy(e)
        wrong['gc']['h'] += 1
        bad += [(dict(e, inv_ok=False), 'transmission_changes_under_rigid_motion'), (dict(e, range_ok=False), 'transmission_outside_0_1'),
                (wrong, 'oracle_moved_cylinder_mismatch')]
    if len(bad) < 8:
        raise MachineryError(f'trace control: only {len(bad)} corrupted events could be built')
    for i, (b, _) in enumerate(bad):
        b['tid'] = i
    tf = ctx.tmp / 'c18-control.ndjson'
    write_ndjson(tf, [b for b, _ in bad])
    tr = ctx.tlc('absorption/Trace_Cylinder.tla', workers=1, env={'TRACE_FILE': str(tf)}, timeout=600, count=False)
    require_ok(ctx, tr, 'Trace_Cylinder (control)')
    got = {line: clause for _, line, _tid, clause in tr.tagged('REJECT')}
    for i, (_, want) in enumerate(bad):
        if got.get(i + 1) != want:
            raise MachineryError(f'trace control: corrupted event {i + 1} expected {want}, TLC said {got.get(i + 1)}')
    ctx.extra['trace_control'] = f'{len(bad)} corrupted events, all rejected with the expected clause'


META = {
    'design_ref': 'DESIGN.md §5 C18',
    'technique': 'TLA+ state machine of the solid cylinder (exact rational geometry, rigid motions, OtherEnd, rays) '
                 'model-checked by TLC; TLC-enumerated ray/cylinder cases replayed into the code; recorded '
                 'executions judged event-by-event by TLC with the same operators; numeric closeness computed from '
                 'the specification\'s exact rationals with mpmath',
    'text': 'TLC proves within the bounds that membership in the solid is invariant under every rigid motion and under '
            'describing the cylinder from its other end, and that the closed-form path length equals the measure of the '
            'part of the ray inside the solid (cross-checked against pointwise membership; all ray classes occur). '
            'Every ray of that model is replayed into Cylinder.beam_intersection and compared with the exact chord '
            '(1e-12); seeded random cylinders over the whole sphere of axis directions, all length units and all '
            'deterministic quadrature kinds are recorded and judged by TLC: ray class and zero/positive length '
            'recomputed from the integers of the case, quadrature points inside the solid (coarsely by TLC, to 1e-9 '
            'numerically), positive weights, volume, centroid and the low-degree moments fixed in the design, '
            'transmission in (0,1], 1 without attenuation, monotone, and invariant under rigid motions / other end '
            'within a bound derived from the differences between the quadrature kinds.',
    'note': 'Trusted: TLC, scipp, mpmath, numpy for evaluating moments of returned points. Decided numerically only '
            '(finite points, not by TLC): closeness of chord lengths with irrational roots, quadrature moments, '
            'the transmission relations; the transmission integral itself is not computed by the specification, only '
            'its metamorphic relations. Grazing and near-tangent rays are excluded (ill-conditioned).',
}
