---------------------------- MODULE EventModeDefs ----------------------------
(* State-free definitions for event-mode (binned) coordinate conversion, shared by the     *)
(* state machine EventMode and the trace specification Trace_EventMode.                    *)
(*                                                                                          *)
(* A layout L = [kind, R, C, N, bg, en]:                                                    *)
(*   kind  "p"  : 1-d grid of R pixels (C = 1)                                              *)
(*         "pt" : 2-d grid R pixels x C bins of the converted coordinate; the grid carries  *)
(*                a bin-edge coordinate with C + 1 edges; geometry per row                  *)
(*         "pp" : 2-d grid of R x C pixels, geometry per bin                                *)
(*   N     number of events in the underlying event table (slots 1..N)                      *)
(*   bg, en  per bin (row-major, 1..R*C): the bin holds the slots bg[b]+1 .. en[b]          *)
(*           (0-based half-open [bg, en) as in scipp); bins may be empty, of uneven size,   *)
(*           stored out of order, and slots may belong to no bin                            *)
(* Value-ids: the event in slot i carries coordinate id i, weight id i, variance id i and   *)
(* the unrelated event coordinate id i; pixel p carries geometry id p; edge j carries id j. *)
(* The dense conversion is the uninterpreted function  F(p, i) = <<p, i>>.                  *)
EXTENDS Integers, Sequences, FiniteSets

Kinds == {"p", "pt", "pp"}
NBins(L) == L.R * L.C
NPix(L) == IF L.kind = "pt" THEN L.R ELSE L.R * L.C
PixelOf(L, b) == IF L.kind = "pt" THEN ((b - 1) \div L.C) + 1 ELSE b

SlotsOf(L, b) == [ k \in 1..(L.en[b] - L.bg[b]) |-> L.bg[b] + k ]

WellFormed(L) ==
    /\ L.kind \in Kinds /\ L.R >= 1 /\ L.C >= 1 /\ (L.kind = "p" => L.C = 1)
    /\ Len(L.bg) = NBins(L) /\ Len(L.en) = NBins(L)
    /\ \A b \in 1..NBins(L) : 0 <= L.bg[b] /\ L.bg[b] <= L.en[b] /\ L.en[b] <= L.N
    /\ \A a, b \in 1..NBins(L) : a # b => (L.en[a] <= L.bg[b] \/ L.en[b] <= L.bg[a])

(* what the property demands of the converted object, bin by bin *)
ExpectedResult(L, b) == [ k \in 1..(L.en[b] - L.bg[b]) |-> <<PixelOf(L, b), L.bg[b] + k>> ]
ExpectedIds(L, b)    == SlotsOf(L, b)       \* weights, variances, unrelated event coordinate
ExpectedEdge(L, p, j) == <<p, j>>           \* same function F applied to the edge value
=============================================================================
