------------------------- MODULE Growth_CifBeamline -------------------------
(* GROWTH: the CIF builder under with_beamline as a state machine.  Builders are immutable   *)
(* values: with_beamline(parent, ...) creates a NEW builder whose content is the parent's    *)
(* content followed by the beamline chunk; saving a builder writes its chunks in order.      *)
(* builders[1] is the empty root builder.                                                    *)
EXTENDS Growth_CifBeamlineDefs, TLC

CONSTANT MaxBuilders

VARIABLES builders, saved
vars == <<builders, saved>>

Init == builders = << <<>> >> /\ saved = [id |-> 0, items |-> <<>>]

WithBeamline(p, fc, s) ==
    /\ Len(builders) < MaxBuilders
    /\ builders' = Append(builders, Append(builders[p], ChunkOf(fc, s)))
    /\ UNCHANGED saved

Save(i) == /\ saved' = [id |-> i, items |-> builders[i]]
           /\ UNCHANGED builders

Next == \/ \E p \in 1..Len(builders) : \E fc \in FacilityClasses : \E s \in Sources : WithBeamline(p, fc, s)
        \/ \E i \in 1..Len(builders) : Save(i)
Spec == Init /\ [][Next]_vars

-----------------------------------------------------------------------------
AllChunks == UNION {{builders[i][j] : j \in 1..Len(builders[i])} : i \in 1..Len(builders)}

(* the table is total and the reference writer stays inside it *)
TableTotal == \A fc \in FacilityClasses : \A s \in Sources :
                  Allowed(fc, s) # {} /\ Reference(fc, s) \in Allowed(fc, s) /\ Reference(fc, s) # Refuse

(* whatever is written is a word of the CIF enumerations, physically consistent, and probe  *)
(* and device are given together or not at all                                              *)
WrittenWordsValid == \A c \in AllChunks : InEnums(c.out) /\ PhysConsistent(c.out) /\ BothOrNeither(c.out)

(* every allowed outcome other than refusing is made of enumeration words *)
AllowedWordsValid == \A fc \in FacilityClasses : \A s \in Sources :
                        \A o \in Allowed(fc, s) \ {Refuse} : InEnums(o) /\ BothOrNeither(o)

(* an explicit Source decides alone *)
SourceWins == \A c \in AllChunks : c.src.given => c.out = FromType(c.src.type)

(* naming a known facility is the same as handing in that facility's Source *)
RouteAgreement == \A c \in AllChunks :
                    (~c.src.given /\ c.out # Omit) =>
                        c.out = Reference("absent", Src(TruthOf(c.fc), ProbeOfType(TruthOf(c.fc))))

(* nothing is invented *)
NoGuess == \A c \in AllChunks : (~c.src.given /\ c.fc \in {"absent", "unknown"}) => c.out = Omit

(* consistent sources are reported faithfully: the probe written is the Source's probe *)
ProbeFaithful == \A c \in AllChunks : Consistent(c.src) => c.out.probe = ProbeWord(c.src.probe)

(* builders are values: existing builders never change, a new builder extends its parent *)
IsPrefix(a, b) == Len(a) <= Len(b) /\ SubSeq(b, 1, Len(a)) = a
Persistent == [][/\ \A i \in 1..Len(builders) : builders'[i] = builders[i]
                 /\ Len(builders') > Len(builders) =>
                      \E p \in 1..Len(builders) :
                          /\ IsPrefix(builders[p], builders'[Len(builders')])
                          /\ Len(builders'[Len(builders')]) = Len(builders[p]) + 1]_vars
SaveFaithful == saved.id # 0 => saved.items = builders[saved.id]
=============================================================================
