CONSTANTS
  GDirs <- GD_thorough
  Beams <- B_thorough
  Dets <- Box1
  Qs <- Q_thorough
