SPECIFICATION Spec
CONSTANTS
  Detectors <- MC_DetectorsQuick
  PixelSizes = {0}
  Names = {"a", "b"}
  Types = {"box", "cylinder", "disk", "sphere"}
  Centers <- MC_CentersQuick
  Sizes <- MC_SizesQuick
  Styles <- MC_StylesQuick
  MaxComps = 2
  Bug = "order"
INVARIANT OrderIndependent
PROPERTY EarlierObjectsKept
PROPERTY FarMonotone
PROPERTY InputUnchanged
PROPERTY RefusalLeavesScene
CHECK_DEADLOCK FALSE
