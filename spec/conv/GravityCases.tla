---------------------------- MODULE GravityCases ----------------------------
(* Constant-level export of C04 replay cases (spec -> code): every lattice setup with a   *)
(* rational drop parameter q together with the exact result of the documented             *)
(* construction: path, 2theta class, phi class, reflectometry outcome, and the sign of    *)
(* (2theta with gravity - 2theta without) where signs alone determine it.                 *)
EXTENDS GravityDefs, TLC, Json, IOUtils, SequencesExt

CONSTANTS GDirs, Beams, Dets, Qs

Setups == { s \in [g : GDirs, b1 : Beams, b2 : Dets, q : Qs] : ValidSetup(s) }
Case(s) == [g |-> s.g, b1 |-> s.b1, b2 |-> s.b2, q |-> s.q, ng |-> GNorm(s.g),
            path |-> IF Perpendicular(s) THEN "optimised" ELSE "general",
            tt |-> TwoThetaClass(s), free |-> FreeClass(s), phi |-> PhiClass(s),
            refl |-> Refl(s), cmp |-> ExpectedCmp(s),
            \* numerators of the beam-aligned frame: e_y = ey/|ey|, e_z = zp/|zp|, e_x = ex/|ex|
            ey |-> EyN(s), zp |-> ZpN(s), ex |-> ExN(s)]

U == -1..1
Box1 == { v \in U \X U \X U : v # <<0, 0, 0>> }
Axes == { <<0, -1, 0>>, <<0, 1, 0>>, <<1, 0, 0>>, <<-1, 0, 0>>, <<0, 0, 1>>, <<0, 0, -1>> }
GD_quick == { <<0, -1, 0>>, <<0, 0, 1>>, <<-1, 0, 0>>, <<1, -2, 2>> }
GD_thorough == Axes \cup { <<1, -2, 2>>, <<-2, -1, 2>>, <<2, 2, -1>>, <<-2, 3, 6>>, <<0, -3, 4>> }
B_quick == { b \in Box1 : b[1] >= 0 } \cup { <<0, 1, 3>> }
B_thorough == Box1 \cup { <<0, 1, 3>>, <<3, 0, 4>>, <<-2, 1, 0>> }
Q_quick == { <<0, 1>>, <<1, 4>>, <<2, 1>> }
Q_thorough == { <<0, 1>>, <<1, 4>>, <<1, 2>>, <<1, 1>>, <<2, 1>> }

ASSUME ndJsonSerialize(IOEnv.OUT_FILE, SetToSeq({ Case(s) : s \in Setups }))
ASSUME PrintT(<<"CASES", Cardinality(Setups)>>)
=============================================================================
