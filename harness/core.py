"""Shared machinery for all property checks: context, violations, known findings, evidence.

A driver is a module ``harness.drivers.cNN`` with ``run(ctx)``.  It reports through ``ctx``:

* ``ctx.tlc(...)``           run TLC on a module of /verif/spec (states/transitions are accumulated)
* ``ctx.violation(key, d)``  a property violation.  ``key`` is a *stable, specific* signature of the
                             failing input class / call site / history; it is what known_findings.json
                             is matched against, so a different violation of the same property has a
                             different key and is still reported.
* ``ctx.case(nontrivial)``   one evaluated case (for the evidence counts)
* ``ctx.sample(obj)``        one explored case written out in the evidence
* ``ctx.traces(n)``          number of implementation traces/behaviours validated against the spec

Exit codes: 0 held (possibly KNOWN-FINDING lines), 1 violation, 2 machinery failure.
"""

from __future__ import annotations

import hashlib
import json
import os
import random
import shutil
import sys
import tempfile
import time
import traceback
from pathlib import Path

ROOT = Path(__file__).resolve().parent.parent
SPEC = ROOT / 'spec'
EVIDENCE = ROOT / 'evidence'
REPLAYS = ROOT / 'replays'
FINDINGS = ROOT / 'known_findings.json'


class MachineryError(Exception):
    """The check itself could not run (TLC crash, parse error, timeout...)."""


def _jsonable(o):
    try:
        import numpy as np

        if isinstance(o, np.generic):
            return o.item()
        if isinstance(o, np.ndarray):
            return o.tolist()
    except Exception:  # noqa: BLE001
        pass
    if isinstance(o, (set, frozenset)):
        return sorted(map(str, o))
    if isinstance(o, bytes):
        return o.hex()
    if isinstance(o, Path):
        return str(o)
    return repr(o)


def dumps(o, **kw):
    return json.dumps(o, default=_jsonable, **kw)


class Ctx:
    def __init__(self, prop: str, tier: str, seed: int, replay: str | None = None):
        self.prop = prop
        self.tier = tier
        self.seed = seed
        self.replay = replay
        self.rng = random.Random(seed * 1000003 + int(prop[1:]))
        self.thorough = tier == 'thorough'
        self.t0 = time.time()
        self.violations: list[tuple[str, dict]] = []
        self._viol_keys: dict[str, int] = {}
        self.growth: list[tuple[str, dict]] = []
        self._growth_keys: dict[str, int] = {}
        self.evaluations = 0
        self.nontrivial: set | int = set()
        self._nontrivial_count = 0
        self.samples: list = []
        self.states = 0
        self.distinct_states = 0
        self.transitions = 0
        self.n_traces = 0
        self.tlc_runs: list[dict] = []
        self.assumptions: list[str] = []
        self.extra: dict = {}
        self.rule = ''
        self.exhaustive = None
        self.tmp = Path(tempfile.mkdtemp(prefix=f'verif-{prop}-'))

    # ------------------------------------------------------------------ reporting
    def violation(self, key: str, detail: dict | None = None):
        """Record a violation with a stable signature `key`. At most 5 details per key kept."""
        n = self._viol_keys.get(key, 0)
        self._viol_keys[key] = n + 1
        if n < 5:
            self.violations.append((key, detail or {}))

    def growth_finding(self, key: str, detail: dict | None = None):
        """A deviation found by a part of the specification that goes *beyond* the listed property
        (growth of the spec, DESIGN §8).  It is reported (GROWTH-FINDING line, evidence) but is not a
        violation of the property this check decides, so it never changes the exit code."""
        n = self._growth_keys.get(key, 0)
        self._growth_keys[key] = n + 1
        if n < 3:
            self.growth.append((key, detail or {}))

    def run_growth(self, fn, name: str):
        """Run a growth module (specification beyond the listed property) at the end of a host check.
        Whatever happens inside - deviations, exceptions of the implementation, machinery trouble - is
        reported as GROWTH-FINDING and never changes the verdict of the host property."""
        try:
            fn(self)
        except Exception as e:  # noqa: BLE001
            self.growth_finding(f'growth module {name} could not complete: {type(e).__name__}', {'exception': str(e)[:400]})

    def case(self, nontrivial_id=None, n: int = 1):
        """Count evaluated cases; `nontrivial_id` (hashable) marks a distinct non-trivial case."""
        self.evaluations += n
        if nontrivial_id is not None:
            if len(self.nontrivial) < 2_000_000:
                self.nontrivial.add(
                    nontrivial_id if isinstance(nontrivial_id, (int, str)) else hash(nontrivial_id)
                )

    def sample(self, obj, limit: int = 6):
        if len(self.samples) < limit:
            self.samples.append(json.loads(dumps(obj)))

    def traces(self, n: int = 1):
        self.n_traces += n

    def assume(self, text: str):
        if text not in self.assumptions:
            self.assumptions.append(text)

    def tlc(self, module, cfg=None, **kw):
        from . import tlc as _tlc

        res = _tlc.run(self, module, cfg, **kw)
        return res

    # ------------------------------------------------------------------ finish
    def finish(self) -> int:
        findings = load_findings()
        known = {
            f['key']: f for f in findings.get('known', []) if f.get('property') == self.prop
        }
        rc = 0
        unknown = 0
        reported_known = set()
        REPLAYS.mkdir(exist_ok=True)
        seen_keys = set()
        for key, detail in self.violations:
            if getattr(self, 'only_key', None) is not None and key != self.only_key:
                continue
            if key in known:
                if key not in reported_known:
                    reported_known.add(key)
                    print(
                        f'KNOWN-FINDING: property={self.prop} {key}: {known[key].get("what", "")}'
                        f' ({self._viol_keys[key]} occurrence(s))'
                    )
                continue
            unknown += 1
            if key in seen_keys:
                continue
            seen_keys.add(key)
            h = hashlib.sha1(key.encode()).hexdigest()[:10]
            path = REPLAYS / f'{self.prop}-{h}.json'
            path.write_text(
                dumps(
                    {
                        'property': self.prop,
                        'key': key,
                        'occurrences': self._viol_keys[key],
                        'seed': self.seed,
                        'tier': self.tier,
                        'detail': detail,
                    },
                    indent=1,
                )
            )
            print(f'VIOLATION property={self.prop} replay={path}')
            print(f'  key={key} occurrences={self._viol_keys[key]}')
            print('  ' + dumps(detail)[:600])
            rc = 1
        n_unknown_keys = len(seen_keys)
        for key, n in self._growth_keys.items():
            print(f'GROWTH-FINDING: beyond property {self.prop}: {key} ({n} occurrence(s))')
        wall = time.time() - self.t0
        nontriv = len(self.nontrivial) if isinstance(self.nontrivial, set) else self.nontrivial
        cov = {
            'states': self.distinct_states,
            'states_generated': self.states,
            'transitions': self.transitions,
            'traces_validated_against_impl': self.n_traces,
            'samples': self.samples or ['(no sample recorded)'],
            'evaluations': self.evaluations,
            'distinct_nontrivial': nontriv,
            'rule': self.rule,
            'tlc_runs': self.tlc_runs,
            'known_findings_reported': sorted(reported_known),
            'growth_findings': [{'key': k, 'occurrences': n} for k, n in self._growth_keys.items()],
        }
        if self.exhaustive is not None:
            cov['exhaustive'] = bool(self.exhaustive)
        cov.update(self.extra)
        ev = {
            'property_id': self.prop,
            'tier': self.tier,
            'seed': self.seed,
            'level': 'model_checking',
            'coverage': cov,
            'assumptions': self.assumptions,
            'wall_s': round(wall, 2),
            'violations': n_unknown_keys,
        }
        EVIDENCE.mkdir(exist_ok=True)
        (EVIDENCE / f'{self.prop}.json').write_text(dumps(ev, indent=1) + '\n')
        _validate_evidence(ev)
        shutil.rmtree(self.tmp, ignore_errors=True)
        print(
            f'{self.prop} {self.tier}: evaluations={self.evaluations} nontrivial={nontriv} '
            f'tlc_states={self.distinct_states} transitions={self.transitions} '
            f'traces={self.n_traces} violations={n_unknown_keys} '
            f'known={len(reported_known)} wall={wall:.1f}s'
        )
        return rc


def _validate_evidence(ev):
    try:
        import jsonschema

        schema = json.loads(Path('/root/.vp/EVIDENCE.schema.json').read_text())
        jsonschema.validate(ev, schema)
    except FileNotFoundError:
        pass
    except ImportError:
        pass


def load_findings() -> dict:
    if FINDINGS.exists():
        return json.loads(FINDINGS.read_text())
    return {'known': [], 'fixed': []}


def main(argv=None):
    import argparse
    import importlib

    ap = argparse.ArgumentParser()
    ap.add_argument('prop')
    ap.add_argument('--tier', default=os.environ.get('VERIF_TIER') or 'quick')
    ap.add_argument('--replay', default=None)
    a = ap.parse_args(argv)
    if a.tier not in ('quick', 'thorough'):
        a.tier = 'quick'
    try:
        seed = int(os.environ.get('VERIF_SEED', '0') or 0)
    except ValueError:
        seed = 0
    prop = a.prop.upper()
    only_key = None
    if a.replay:
        # a replay re-runs the check with the seed and tier of the recorded violation and
        # reports only that signature
        rec = json.loads(Path(a.replay).read_text())
        seed, a.tier, only_key = int(rec.get('seed', seed)), rec.get('tier', a.tier), rec['key']
    ctx = Ctx(prop, a.tier, seed, a.replay)
    ctx.only_key = only_key
    try:
        mod = importlib.import_module(f'harness.drivers.{prop.lower()}')
        if os.environ.get('VERIF_NO_WARMUP') != '1' and prop != 'C09':
            # C09 judges history dependence itself (and needs the untouched process for its references)
            from . import warmup
            ctx.extra['hostile_history_warmup'] = warmup.hostile_history(seed)
        mod.run(ctx)
        rc = ctx.finish()
    except MachineryError as e:
        print(f'MACHINERY-FAILURE property={prop}: {e}', file=sys.stderr)
        if ctx.violations:
            # violations were already established before the machinery broke (typically because the
            # broken implementation also upset a self-test of the driver): report them
            try:
                return ctx.finish() or 2
            except Exception:  # noqa: BLE001
                pass
        shutil.rmtree(ctx.tmp, ignore_errors=True)
        return 2
    except Exception as e:  # noqa: BLE001
        traceback.print_exc()
        # An exception that escaped a driver is a machinery failure - unless it plainly comes from the
        # code under test: (a) the innermost frame is inside scippneutron (the driver did not expect
        # this call to raise), or (b) a non-finite number produced by the implementation reached an
        # exact-arithmetic oracle (Fraction(inf), int(nan), ...).  Neither happens on a tree where the
        # checks pass, so reporting them as violations cannot alarm on code where the property holds.
        tb = traceback.extract_tb(e.__traceback__)
        inner = tb[-1] if tb else None
        msg = f'{type(e).__name__}: {e}'
        # "inside scippneutron": some frame of the traceback below the driver belongs to the package under
        # test (the innermost one may be in scipp / numpy, which scippneutron called)
        impl_frames = [f for f in tb if '/scippneutron/' in f.filename.replace('\\', '/')]
        from_impl = bool(impl_frames)
        if from_impl:
            inner = impl_frames[-1]
        nonfinite = isinstance(e, (OverflowError, ZeroDivisionError, FloatingPointError)) or any(
            w in msg for w in ('NaN', 'nan', 'Infinity', 'infinity'))
        if ctx.violations and not (from_impl or nonfinite):
            # violations were already established before the driver broke: report them
            try:
                return ctx.finish() or 2
            except Exception:  # noqa: BLE001
                pass
        if from_impl or nonfinite:
            where = f'{Path(inner.filename).name}:{inner.name}' if inner else '?'
            if from_impl:
                ctx.violation(f'implementation raised {type(e).__name__} where the check expects a result ({where})',
                              {'exception': msg[:500]})
            else:
                ctx.violation(f'a non-finite or malformed result of the implementation reached the exact oracle ({where})',
                              {'exception': msg[:500]})
            try:
                return ctx.finish() or 1
            except Exception:  # noqa: BLE001
                pass
        print(f'MACHINERY-FAILURE property={prop}: unexpected exception', file=sys.stderr)
        shutil.rmtree(ctx.tmp, ignore_errors=True)
        return 2
    return rc
