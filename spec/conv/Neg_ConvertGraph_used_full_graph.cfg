SPECIFICATION Spec
CONSTANTS
  Heads <- AllHeads
  Masks <- MC_NegMasks
  Bug = "used_full_graph"
INVARIANT GraphReportedIsUsed
