------------------------- MODULE Growth_MC_CifSchema -------------------------
EXTENDS Growth_CifSchema
MC_ItemDecls == {NoDecl, Decl({"core"}), Decl({"pd"}), Decl({"x"}), Decl({"pd", "x"})}
MC_ItemDeclsQuick == {NoDecl, Decl({"core"}), Decl({"pd"}), Decl({"pd", "x"})}
=============================================================================
