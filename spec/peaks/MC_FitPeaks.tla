---------------------------- MODULE MC_FitPeaks ----------------------------
(* Constants that a cfg file cannot express.  Window coordinates: the data grid has spacing *)
(* 24 (data range 0..96), estimates are multiples of 12 (on and between grid points, at the *)
(* edges, outside the data on either side), so that width/2 and the separation factors      *)
(* 1/3, 1/4, 1/2, 3/4 of every estimate distance are integers (3/4: beyond one half, where  *)
(* windows that do not overlap still have to be cut back).                                  *)
EXTENDS FitPeaks
MC_Factors == {<<1, 3>>, <<1, 4>>, <<1, 2>>, <<3, 4>>}
MC_FactorsQuick == {<<1, 3>>, <<1, 2>>, <<3, 4>>}
MC_EstVals == {-36, -12, 0, 12, 36, 48, 84, 96, 108, 132}
MC_EstValsQuick == {-36, -12, 0, 36, 48, 96, 108, 132}
MC_Widths == {2, 12, 24, 26, 50, 100, 400}       \* below the grid spacing ... beyond the range
MC_PkParams == <<3, 4>>                          \* gaussian/lorentzian, pseudo-Voigt
MC_BkParams == <<2, 3>>                          \* linear, quadratic
MC_PkParams3 == <<3, 4, 3>>
=============================================================================
